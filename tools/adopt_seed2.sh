#!/bin/bash
# adopt_seed2.sh <TAG e.g. C07b> <PROP e.g. C07> <seed-name>  -- like adopt_seed.sh for second-round seeds whose output dir is /tmp/seed-out/<TAG>
set -u
TAG=$1; PROP=$2; NAME=$3
SRC=/tmp/seed-out/$TAG
DEMO_REL=$(head -1 $SRC/zz_seed_demo_test.go | sed -n 's#^// place at: *##p' | tr -d '\r ')
[ -z "$DEMO_REL" ] && { echo "no '// place at:' line"; exit 2; }
PKG=./$(dirname $DEMO_REL)/
/verif/tools/confirm_seed.sh $TAG $NAME $DEMO_REL "TestSeedDemo_$PROP" $PKG || exit 3
[ -d /verif/seeded/$NAME ] || exit 4
sed -i "s/\"property\": \"$TAG\"/\"property\": \"$PROP\"/" /verif/seeded/$NAME/meta.json
OUT=$(/verif/tools/try_seed.sh $NAME $PROP 2>&1)
echo "$OUT" | cut -c1-180 | head -8
RC=$(echo "$OUT" | sed -n 's/^rc=//p')
python3 - "$NAME" "$RC" "$OUT" <<'PY'
import json,sys
name,rc,out=sys.argv[1],sys.argv[2],sys.argv[3]
p='/verif/seeded/%s/meta.json'%name
m=json.load(open(p))
m['detected_by']={'check':'./check %s --tier quick'%m['property'],'exit':rc,'lines':[l[:200] for l in out.splitlines() if l.startswith(('VIOLATION','KNOWN'))][:6]}
m['needs']=open('/verif/seeded/%s/notes.md'%name).read()[:1500]
json.dump(m,open(p,'w'),indent=1)
PY
