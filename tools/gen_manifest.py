#!/usr/bin/env python3
"""Writes /verif/MANIFEST.json from the table below (kept valid against the schema)."""
import json
import os

VERIF = os.path.dirname(os.path.dirname(os.path.abspath(__file__)))

CHECKS = {
    "C01": {
        "category": "proof",
        "text": "Coq theorems (Properties/C01.v) over timelines of committed micro-steps of the SQLite flavour (a Store method = retention-prune micro-step + core micro-step, proved to refine the method; a timeline = any interleaving of micro-steps of concurrent requests; a crash = a cut): for every timeline and every cut the recovered queue satisfies the invariant (each id once, every message whole and in one coherent state) and is an ordinary reachable state; every recovered message is, in its immutable fields, the message of a successful enqueue micro-step before the cut (nothing nobody sent); a message whose enqueue micro-step is before the cut is recovered unless a later micro-step before the cut removed it for a documented reason; committed acks/nacks/dead-letters are not undone; a fan-out handler answers 202 only after every per-target enqueue micro-step committed. Tied to the code by running the REAL binary (cmd/hookaido built from the working tree) with crash points inserted by a go/ast rewriter before and after every database statement, Store call and response write (340 points in overlay copies of 5 files, self-tested), killing it with SIGKILL at each enumerated point of generated workloads (ingress on pull and 3-target fan-out routes, admin publish batches, pull dequeue/ack/nack/dead/extend), restarting on the same database and judging the recovered queue against the acknowledgements the client received, against PRAGMA integrity_check, against redelivery after lease expiry, and against the state Model/Queue.v computes for the acknowledged operations.",
        "design_ref": "DESIGN.md section 5 C01, section 12",
        "note": "Trusted: Coq kernel; SQLite's own durability (a returned COMMIT under WAL+synchronous=FULL survives power loss) - a process kill cannot exhibit power loss; crashes inside SQLite's WAL write/checkpoint sequence are not enumerated (crash points are between Go statements); the crash-point rewriter and the Python orchestration; the workload client is sequential (one request in flight at the kill), concurrency is covered by the theorems (any interleaving of micro-steps) only. Memory backend: no durability claimed by the product.",
        "technique": "Coq proof over crash cuts of micro-step timelines + enumerated self-kill crash points in the real binary with restart and judgement",
    },
    "C02": {
        "category": "proof",
        "text": "Coq theorems over Model/Queue.v (one function per Store method, both backend flavours, all configurations, all argument values, validated oracle for the store's own choices): every reachable state stores each id once in exactly one coherent state (invariant by induction over arbitrary histories); every step of every history is a per-message application of the documented machine ([change]: same / expired lease released / dequeued / settled through its current unexpired lease / operator mutation from an allowed state) plus documented removals ([removal]: ack without delivered-retention, DLQ delete of a dead message, retention prune of a non-leased eligible message, drop_oldest eviction of a queued message by a successful enqueue) plus the verbatim messages of a successful enqueue; immutable fields never change; a leased message disappears only through its own ack; an operation that returns an error changes nothing beyond releasing expired leases (and the interval-gated prune). Tied to the code by executing generated histories on the real memory and SQLite stores and on the model and comparing a checksum of (result, complete stored state incl. lease fields) after every step; the executable monitor P_C02 is evaluated on the implementation trace.",
        "design_ref": "DESIGN.md section 5 C02, section 12",
        "note": "Trusted: Coq kernel (coqc 8.16.1, vm_compute; no axioms: every Print Assumptions is closed); the correspondence harness (Go harness mounted with -overlay, Python driver, checksum comparison of result + complete stored state after every step); store methods are treated as atomic steps (one mutex / one SQLite transaction on one pooled connection) and histories are sequential; the SQLite engine itself; Postgres backend cannot run here (read only). Payload/headers/trace are opaque handles in this model. Nondeterministic choices of the store (which ready messages a dequeue picks, generated ids, victims among equally old messages) are oracle inputs validated by the model, not predicted.",
        "technique": "Coq proof (invariant + step specification by induction over histories) + per-step differential correspondence with both real stores",
    },
    "C03": {
        "category": "proof",
        "text": "Coq theorems: a dequeue returns only messages that are ready (queued, due, matching) after pruning and release of expired leases, pairwise distinct, each leased under a lease id never issued before in the whole history (NoDup of all ids handed out, by induction), attempt+1, lease_until = now+ttl > now, exactly min(batch', ready) of them; a message that is leased-and-unexpired, not due, canceled, dead or delivered is never returned; a lease ends only by expiry, by ack/nack/dead presenting that lease before it expired, or by operator cancel (so two dequeues of one message are separated by such an event); no lease id is held by two messages. Schedules: theorems quantify over all interleavings of atomic store steps (= all op lists). Tied to the code by the per-step correspondence on lease-heavy histories with clock steps across lease boundaries, both backends.",
        "design_ref": "DESIGN.md section 5 C03, section 12",
        "note": "Trusted: Coq kernel (coqc 8.16.1, vm_compute; no axioms: every Print Assumptions is closed); the correspondence harness (Go harness mounted with -overlay, Python driver, checksum comparison of result + complete stored state after every step); store methods are treated as atomic steps (one mutex / one SQLite transaction on one pooled connection) and histories are sequential; the SQLite engine itself; Postgres backend cannot run here (read only). Payload/headers/trace are opaque handles in this model. Nondeterministic choices of the store (which ready messages a dequeue picks, generated ids, victims among equally old messages) are oracle inputs validated by the model, not predicted. Thread-level interleavings inside the Go runtime are not enumerated: atomicity of a store method is an assumption (mutex / BEGIN IMMEDIATE on a single connection), freshness of real lease ids is 64 random bits. The dispatcher lease-TTL arithmetic (routeLeaseTTL) is proved in C06.",
        "technique": "Coq proof over all histories of atomic steps + per-step differential correspondence with both real stores",
    },
    "C04": {
        "category": "proof",
        "text": "Coq theorems: ack/nack/positive extend/dead-letter with lease id x succeed and apply their effect to exactly one message iff x is that message's current unexpired lease; otherwise the answer is a conflict (not found / expired) and nothing changes except that a message still leased under x whose lease has expired returns to the queue; blank/unknown ids conflict without effect; extend by <= 0 is the documented no-op; batch calls obey the same rule per id (soundness and completeness: a presented current lease takes effect exactly once, duplicates conflict); operator mutations clear the lease and a lease id that no message holds any more is never current again in any continuation (fresh ids). Tied to the code by per-step correspondence on histories that present old, foreign, duplicate, blank and padded lease ids, both backends.",
        "design_ref": "DESIGN.md section 5 C04, section 12",
        "note": "Trusted: Coq kernel (coqc 8.16.1, vm_compute; no axioms: every Print Assumptions is closed); the correspondence harness (Go harness mounted with -overlay, Python driver, checksum comparison of result + complete stored state after every step); store methods are treated as atomic steps (one mutex / one SQLite transaction on one pooled connection) and histories are sequential; the SQLite engine itself; Postgres backend cannot run here (read only). Payload/headers/trace are opaque handles in this model. Nondeterministic choices of the store (which ready messages a dequeue picks, generated ids, victims among equally old messages) are oracle inputs validated by the model, not predicted. The pull-API idempotent duplicate answer (recentLeaseOps) and the HTTP/gRPC status mapping are not modelled in this revision; the store-level fencing they rest on is.",
        "technique": "Coq proof + per-step differential correspondence with both real stores",
    },
    "C05": {
        "category": "proof",
        "text": "Coq theorems: dequeue returns exactly min(clamp(batch), ready) items; nack d schedules exactly now+max(d,0) and only due messages are ready; no operation moves next_run_at into the past; an expired lease is visible to the next dequeue on the memory flavour and to every sweeping dequeue on SQLite; for every history with a non-decreasing clock every live SQLite lease ends after the last sweep (invariant by induction), hence a dequeue at least one sweep interval (10 ms, constant regenerated from sqlite.go) after expiry sweeps and offers the message; a restart resets the throttle. Tied to the code by per-step correspondence on dequeue-heavy histories with clock steps of +-1 ns around lease ends, delays and the 10 ms gate, reopen of the SQLite file, and a >1024-insert history (memory order-log compaction).",
        "design_ref": "DESIGN.md section 5 C05, section 12",
        "note": "Trusted: Coq kernel (coqc 8.16.1, vm_compute; no axioms: every Print Assumptions is closed); the correspondence harness (Go harness mounted with -overlay, Python driver, checksum comparison of result + complete stored state after every step); store methods are treated as atomic steps (one mutex / one SQLite transaction on one pooled connection) and histories are sequential; the SQLite engine itself; Postgres backend cannot run here (read only). Payload/headers/trace are opaque handles in this model. Nondeterministic choices of the store (which ready messages a dequeue picks, generated ids, victims among equally old messages) are oracle inputs validated by the model, not predicted. Wall-clock long-poll wake-ups (MaxWait) are timing behaviour outside the model; process-kill restarts are exercised by C01.",
        "technique": "Coq proof (incl. history invariant for the sweep throttle) + per-step differential correspondence with both real stores",
    },
    "C10": {
        "category": "proof",
        "text": "Coq theorems (Properties/C10.v, byte-level models of path.Clean, router.MatchPath, normalizeHost/matchHosts as written, header/query/remote-IP/method matching): resolution succeeds iff the route is the first in configuration order whose criteria all hold (criteria = inbound and path and host and headers and query and remote address and method, each with an iff specification); ingress never resolves to an outbound or internal route for any route list and request, nor do such routes contribute to Allow; no route => queue unchanged and 404, or 405 with exactly the de-duplicated methods when only the method differs; MatchPath iff equal, root, or prefix ending at a segment boundary; path.Clean is idempotent and its result is rooted without dot or empty segments; *.domain matches proper sub-domains only. Tied to the code by generated Hookaidofiles through the real Parse/Compile, a real runtimeState + ingress.Server receiving raw HTTP over loopback and direct ServeHTTP calls with crafted RemoteAddr; chosen route, status, Allow and queue delta compared with the model; the byte models compared with Go's string/path functions.",
        "design_ref": "DESIGN.md section 5 C10, docs/notes/C10.md",
        "note": "Trusted: Coq kernel; net/http request parsing, url.Query and netip parsing outputs are taken from Go and handed to the model; the harness. Two property-preserving variants (trailing dot stripped after the port; see notes) are accepted either way.",
        "technique": "Coq proof (first-match characterisation, channel isolation, path/host lemmas) + differential run of the real resolver and handler",
    },
    "C11": {
        "category": "proof",
        "text": "Coq theorems (Properties/C11.v): what an HTTP Authorization value / gRPC metadata presents (iff shapes); authorized against a non-empty effective allowlist implies the presented token is a byte-equal member (near-miss prefix/suffix/case variants, empty, wrong scheme, malformed are rejected); a route's own tokens replace the global list; an unauthorized pull/worker/admin request answers 401/Unauthenticated with the store untouched and no store call (authorize is the first step of every handler, every admin path); a configuration that compiles leaves every pull endpoint with a non-empty allowlist (given that loading a secret never yields an empty value, which the harness checks on the real loader). Tied to the code by generated token configurations through the real Compile/loadAuth/startServers, real pullapi / workerapi (loopback gRPC and in-process) / admin servers, every operation and every admin path extracted from admin/http.go, header shapes incl. near-miss tokens; status/code and full store snapshot compared.",
        "design_ref": "DESIGN.md section 5 C11, docs/notes/C11.md",
        "note": "Trusted: Coq kernel; gRPC/HTTP transports; constant-time compare modelled as equality; the harness. Observation outside the statement: lease ids are not bound to routes (a token for endpoint A can ack a lease of endpoint B if it knows the lease id).",
        "technique": "Coq proof (token membership, override, authorize-first, compile rule) + differential run of the real API servers",
    },
    "C12": {
        "category": "proof",
        "text": "Queue part - Coq theorems: a refused enqueue (full, duplicate, pressure) returns exactly the pruned input state (nothing evicted, stored or touched); a successful enqueue leaves active <= max_depth; along every history without operator requeue/resume active <= max_depth (invariant); only enqueue and operator requeue/resume raise the active count; SQLite evicts exactly max(0, need - max_depth) distinct queued messages, the memory plan evicts distinct queued messages until not full; the victim is an oldest queued message on both backends; evictions only for a successful enqueue under drop_oldest (C02 removal relation). Rate-limit and size part (Properties/C12rl.v, lib/c12rl.py): token-bucket invariant 0 <= tokens <= burst, the window bound #admitted in [a,c] <= burst + rps*(c-a) for every call sequence with non-decreasing times (induction via an accounting lemma, exact rationals), no refill when the clock steps back, limiter choice (route override else global else admit), 413 for bodies/headers over the route limits and queue untouched on every refusal; tied to the code by white-box AllowAt/allowIngress runs with injected clock (binary64 twin bit-exact, window bound evaluated on the real decisions for all windows), concurrent hammering, rate_limit directives through the real Compile and loopback HTTP requests around the size limits. Tied to the code by per-step correspondence on small-max_depth histories (duplicates, over-sized batches) on both stores.",
        "design_ref": "DESIGN.md section 5 C12, section 12",
        "note": "Trusted: Coq kernel (coqc 8.16.1, vm_compute; no axioms: every Print Assumptions is closed); the correspondence harness (Go harness mounted with -overlay, Python driver, checksum comparison of result + complete stored state after every step); store methods are treated as atomic steps (one mutex / one SQLite transaction on one pooled connection) and histories are sequential; the SQLite engine itself; Postgres backend cannot run here (read only). Payload/headers/trace are opaque handles in this model. Nondeterministic choices of the store (which ready messages a dequeue picks, generated ids, victims among equally old messages) are oracle inputs validated by the model, not predicted.",
        "technique": "Coq proof + per-step differential correspondence with both real stores",
    },
    "C13": {
        "category": "proof",
        "text": "Coq theorems locating every place the two backend flavours of the model can differ: all lease, operator, listing, lookup and stats operations are flavour-free (same result, same observable state for all arguments); dequeue agrees whenever the SQLite call sweeps (else: the bounded delay of C05); enqueue agrees without a limit or under reject as long as the memory-only resource rules do not fire (partial: under drop_oldest agreement is up to the choice of victim, both proved oldest). Tied to the code twice: each real backend is compared step by step with the model of its own flavour, and the two real stores are compared with each other directly on the same histories (every return value and the full stored state after every step, generated ids and lease ids canonically renamed; comparison of a history stops at a sanctioned different choice among eligible messages).",
        "design_ref": "DESIGN.md section 5 C13, section 12",
        "note": "Trusted: Coq kernel (coqc 8.16.1, vm_compute; no axioms: every Print Assumptions is closed); the correspondence harness (Go harness mounted with -overlay, Python driver, checksum comparison of result + complete stored state after every step); store methods are treated as atomic steps (one mutex / one SQLite transaction on one pooled connection) and histories are sequential; the SQLite engine itself; Postgres backend cannot run here (read only). Payload/headers/trace are opaque handles in this model. Nondeterministic choices of the store (which ready messages a dequeue picks, generated ids, victims among equally old messages) are oracle inputs validated by the model, not predicted. Postgres is not executed. The drop_oldest victim-choice case of the enqueue agreement is not a theorem (named _partial).",
        "technique": "Coq proof (flavour agreement lemmas) + double differential: store vs model per flavour, memory store vs SQLite store directly",
    },
    "C14": {
        "category": "proof",
        "text": "Coq theorems: by-id mutations change exactly the named messages that are in an allowed state (allowed sets proved equal to the documented ones), exactly as defined, leave every other message identical, create nothing, and report the number changed; cancel voids the lease; the by-filter selection is a newest-first (received_at, id descending; sortedness and permutation of insertion sort proved) prefix of at most limit (default 100, cap 1000) of exactly the matching messages from allowed states; contradictory state selects nothing; preview changes nothing and reports the count a real run matches; a real run changes exactly what it matched. Tied to the code by per-step correspondence on populations with many received_at ties, every id-list/filter shape (limits 0, 1, 1000, 1001, negative; cursors on ties), both backends.",
        "design_ref": "DESIGN.md section 5 C14, section 12",
        "note": "Trusted: Coq kernel (coqc 8.16.1, vm_compute; no axioms: every Print Assumptions is closed); the correspondence harness (Go harness mounted with -overlay, Python driver, checksum comparison of result + complete stored state after every step); store methods are treated as atomic steps (one mutex / one SQLite transaction on one pooled connection) and histories are sequential; the SQLite engine itself; Postgres backend cannot run here (read only). Payload/headers/trace are opaque handles in this model. Nondeterministic choices of the store (which ready messages a dequeue picks, generated ids, victims among equally old messages) are oracle inputs validated by the model, not predicted. The HTTP/MCP request parsing in front of the store (id-list caps, unknown fields) is not modelled in this revision.",
        "technique": "Coq proof + per-step differential correspondence with both real stores",
    },
    "C06": {
        "category": "proof",
        "text": "Coq theorems (Properties/C06.v): the complete classification table for every status code and error kind (2xx ack; network/timeout/other errors, 5xx, 429, 408 retry iff attempt <= max else dead max_retries; other 4xx, 1xx, 3xx dead no_retry; policy denial dead policy_denied, never retried), including the computed 500-row table; for every stream of target behaviours the number of deliveries per enqueue/requeue cycle is at most max+1 and the cycle ends delivered or dead with one of the three reasons (induction on the measure max+1-attempt); delay bounds d(1-j) <= delay <= d(1+j) over exact rationals for every compile-accepted config; one attempt record per classify path; the dispatcher lease TTL covers its micro-batch. Tied to the code by an exhaustive run of all 500 codes x attempts x error kinds through the real classifyDelivery, bit-exact comparison of retryDelay with a primitive-float twin on seeded draws (incl. saturation and +Inf), whole-loop runs of the real PushDispatcher on both stores with scripted targets, and retry directives through the real Compile.",
        "design_ref": "DESIGN.md section 5 C06, docs/notes/C06.md",
        "note": "The link between the binary64 twin and the rational model is checked on generated inputs only (no Flocq lemma); no primitive-float axiom is used by any theorem. Trusted: Coq kernel; math/rand draw observation (//go:debug randseednop=0); time.Sleep/HTTP client timing.",
        "technique": "Coq proof (total classification, bounded retries by induction, rational delay bounds) + exhaustive differential table and whole-loop runs",
    },
    "C07": {
        "category": "proof",
        "text": "Coq theorems (Properties/C07.v): byte-level models of Go's CanonicalMIMEHeaderKey and of copyHeadersWithExtra - Authorization, Proxy-Authorization and Cookie are never stored for any header list and any spelling (a stored stripped key can only be a configured forward-auth extra), every other received name is stored under its canonical form with the comma-join of all its values in order, extras override, size <= max_headers when accepted and 413 otherwise; base64 StdEncoding round-trips every byte string of every length; payload, headers and trace of a stored message are unchanged by every operation of the queue model on both flavours (proved from Model/Queue.v), so what a dequeue returns is what the acknowledged enqueue stored; the stored payload of a published item is the decoded payload_b64. Tied to the code end to end: random bodies (empty, NUL, invalid UTF-8, sizes around max_body) and header sets over a real loopback HTTP connection into the real ingress.Server (the very r.Header net/http parsed is what the model is applied to), memory and SQLite, then pull HTTP dequeue (base64), gRPC dequeue (bytes), real PushDispatcher+HTTPDeliverer to a recording target, Admin listing; after nack/redelivery and after reopening the SQLite file.",
        "design_ref": "DESIGN.md section 5 C07, docs/notes/C07.md",
        "note": "Trusted: Coq kernel; net/http header parsing, encoding/json of the header map in SQLite, gRPC codec (validated end to end, not modelled); the harness.",
        "technique": "Coq proof (header copy specification, base64 round trip, content immutability over the queue model) + end-to-end byte-exact differential run",
    },
    "C08": {
        "category": "proof",
        "text": "Coq theorems (Properties/C08.v, parametric in sha256/hmac as Section variables): HMAC verification is characterised by an iff (three headers present after trimming, ParseInt grammar, |now-ts| <= tolerance, nonce admitted, even-length non-empty hex of either case, signature = HMAC over ts\\nmethod\\ncleaned-path\\nhex(sha256 body) under a secret valid at the signed timestamp or an inline secret); every 202 of the handler model implies the route's authentication succeeded (basic: configured user with exactly its password; forward: the service answered 2xx); every failure answers 401 / 401,403,503 and enqueues nothing (fan-out prefix stated); an accepted tampered request needs an HMAC/SHA-256/hex collision; the compile rules for auth blocks. Tied to the code by raw-socket requests against the real ingress.Server wired by the real loadAuth from Parse/Compile output, a scripted forward-auth service, every single-field and single-bit mutation of valid signed requests, clock offsets at ts+-tol+-1ns, rotating secret windows; status and queue delta compared with the model; the Gallina SHA-256/HMAC oracle compared with Go on every input.",
        "design_ref": "DESIGN.md section 5 C08, docs/notes/C08.md",
        "note": "Trusted: Coq kernel; net/http parsing, crypto/hmac, crypto/sha256, strconv, encoding/hex (compared value by value with their Gallina twins on generated inputs, not proved); the harness. Assumes tolerance < 2^63-1 ns (Time.Sub saturates). The Gallina Sha256/Hmac functions are a test oracle, theorems are parametric.",
        "technique": "Coq proof (parametric in the hash functions) + differential run of the real ingress handler on mutated signed requests",
    },
    "C09": {
        "category": "proof",
        "text": "Coq theorems (Properties/C09.v): for every history of Verify calls, reloads (including routes dropped and re-added) and other requests with a non-decreasing clock, a nonce accepted once is refused for as long as its signed timestamp passes the tolerance check (no_double_accept, replay_never_twice by an invariant over the cache), reload inheritance keeps nonces, and k concurrent identical requests admit exactly one (each admit is one atomic step: clock reading, tolerance test, clean-up, lookup, insert under the cache lock). The enlarged-tolerance-after-clean-up case is REFUTED with a witness and listed as a known finding. Tied to the code by white-box histories through the real HMACAuth.Verify with injected clock (1 ns steps around both window edges, thousands of interleaved nonces), black-box scenarios through the real runtimeState.reloadConfig + ingress.Server, 32 goroutines replaying one request, a deterministic blocked-clock schedule; the executable predicate P_C09 is evaluated on every implementation trace.",
        "design_ref": "DESIGN.md section 5 C09, docs/notes/C09.md",
        "note": "Known finding (known_findings.jsonl): reload-tolerance-grown-after-cleanup. Trusted: Coq kernel; sync.Mutex atomicity; monotone clock is an explicit hypothesis of the theorems; the harness.",
        "technique": "Coq proof over histories (cache invariant) + white-box and black-box differential replay histories",
    },
    "C15": {
        "category": "proof",
        "text": "Coq theorems (Properties/C15.v) over a model of the publish preflight composed with the queue model's EnqueueBatch (both flavours): 200 implies published = |items| and every item stored queued; any other status leaves the queue unchanged (up to the retention prune every store call runs first); the error names the first offending item with the pass structure explicit (parse incl. in-batch duplicate ids over all items, managed-selector pass, semantic per-item pass, then the existing-id lookup); published messages are queued, attempt 0, unleased, one target of the route, payload <= max_body, headers valid and <= max_headers; the per-item fallback for a store without BatchEnqueuer is REFUTED (witness) and listed as a known finding. Tied to the code by generated batches (first invalid item at every position, every kind of invalidity, combined causes, 130/1000-item batches, pre-filled and near-full queues, every publish policy and managed-endpoint mapping, global and scoped paths) through the real admin.Server wired by the real startServers on memory, SQLite and a non-batching wrapper; status, code, item_index, published and before/after listing compared with the model.",
        "design_ref": "DESIGN.md section 5 C15, docs/notes/C15.md",
        "note": "Known finding (known_findings.jsonl): publish-nonbatch-store-partial (PostgresStore shape; Postgres itself cannot run here). Trusted: Coq kernel; base64/RFC3339/JSON verdicts are inputs of the model (library behaviour); the harness.",
        "technique": "Coq proof (atomicity, first offender, shape) + differential run of the real admin publish handlers",
    },
    "C16": {
        "category": "proof",
        "text": "Coq theorems (Properties/C16.v): with dns_rebind_protection an allowed URL resolves only to addresses outside the loopback, private, link-local, multicast and unspecified classes, the classes being INDEPENDENT RFC-range definitions for IPv4, IPv6 and IPv4-mapped addresses (the model of Go's class predicates is proved equal to them); deny rules win; a non-empty allowlist is closed; rule matching (exact host, *, *.domain for proper sub-domains only, IP, CIDR on unmapped addresses) has an exact specification; only http/https, https when https_only; over arbitrary redirect chains a request is sent to hop i only if hops 0..i all pass the check, nothing beyond hop 0 when redirects are off, at most the hop limit; a denial is reported as policy_denied, dead-lettered and never retried, with nothing sent. Tied to the code by the real HTTPDeliverer with a fake resolver and scripted 3xx chains (which hops received a request), isAllowedIP compared on range boundaries and random addresses, policies from the real Compile, and the real PushDispatcher for the DLQ reason.",
        "design_ref": "DESIGN.md section 5 C16, docs/notes/C16.md",
        "note": "Trusted: Coq kernel; url.Parse/Hostname/netip.ParseAddr outputs taken from Go; resolver timing (check-to-dial TOCTOU) is outside the statement; the harness.",
        "technique": "Coq proof (RFC-range soundness of the IP classes, rule semantics, hop-by-hop send condition) + differential run of the real deliverer",
    },
    "C17": {
        "category": "proof",
        "text": "Coq theorems (Properties/C17.v, parametric in sha256/hmac): version validity is valid_from <= t < valid_until (edges proved); the selected version is characterised by an iff against a strict total order (newest_valid / oldest_valid, ties by id) among the versions valid at signing time; the signature header equals hex HMAC over METHOD, escaped path, unix seconds and hex sha256 of the body, the timestamp header the seconds; nothing is sent when no version is valid or the secret cannot be loaded; inbound verification accepts exactly the inline secrets and the versions valid at the signed timestamp. Tied to the code by the real HTTPDeliverer.Deliver with injected clock to a loopback target recording the received method, raw path, headers and body (signature recomputed independently), version sets with adjacent/overlapping/nested windows and equal valid_from, clock at every edge, and requests signed with each version at each time through the real ingress verification.",
        "design_ref": "DESIGN.md section 5 C17, docs/notes/C17.md",
        "note": "Known finding (known_findings.jsonl): redirect-hop-signature-not-recomputed. Trusted: Coq kernel; crypto/hmac, crypto/sha256, url escaping (the expected signature is computed from what the target received); the harness.",
        "technique": "Coq proof (selection iff, window edges, signature equation) + end-to-end differential run of the real deliverer and ingress verification",
    },
    "C18": {
        "category": "proof",
        "text": "Coq theorems (Properties/C18.v): a failed reload (read/parse/compile/restart-required/secret loading) leaves the runtime record unchanged for arbitrary external behaviours; the reload publishes all fields in one write so every reachable runtime state is uniformly one version (single-write theorem, after fix 337ce64); per-request atomicity is REFUTED for the code's separately locked per-request reads (witness schedules) and PROVED for a one-snapshot design; a verified checker replace_ok of file-system traces is sound for every crash prefix and persistence choice (content is OLD or NEW); mutation validation/rollback model. Tied to the code by running the real reloadConfig with injected failures and fingerprinting 98 decisions before/after, by forcing reloads between every pair of per-request accessors on the real runtimeState/ingress.Server, by strace traces of the real writeFileAtomic (app and mcp) fed to replace_ok plus SIGKILL at every syscall, and by failure injection into the real config mutations.",
        "design_ref": "DESIGN.md section 5 C18, docs/notes/C18.md",
        "note": "Known findings (known_findings.jsonl): 11 pairs of per-request accessors between which a completed reload yields a mixed-configuration request; printed as KNOWN-FINDING. Trusted: Coq kernel; strace trace parser; the file-system semantics of Model/FsAtomic.v (atomic rename, fsync durability); source lint comparing accessor/lock structure with the model. Admin and gRPC handlers are covered by the decision fingerprint and the model theorems only.",
        "technique": "Coq proof (frame, single-write, verified fs-trace checker) + schedule-forcing differential run + syscall-trace validation",
    },
    "C19": {
        "category": "proof",
        "text": "What is a theorem (all rune sequences, unbounded): the spelling layer - quote_string/next_token round trip, every identifier token the lexer can produce is identifier-shaped, identifier-shaped text followed by a delimiter lexes back as one identifier, a lexer-produced value formatted by format_value and re-lexed is the same token with the same quotedness (token-level idempotence), route paths likewise, a quoted value never lexes as an identifier and a keyword-valued value keeps its quotedness, a whole line of formatted values lexes back to exactly those tokens; the formatter's 'unquoted-safe' test is refuted for brace-led values with the argument why the parser never produces them. What is NOT a theorem: the directive layer (recursive-descent parser, write* functions of the formatter, Compile) - it is decided by differential equivalence: for generated and corpus programs t that parse, Format(Parse t) parses, Compile(Parse t) and Compile(Parse(Format(Parse t))) are deep-equal incl. errors/warnings, and Format is idempotent. The Coq lexer and helpers are compared with the Go ones on every text.",
        "design_ref": "DESIGN.md section 5 C19, docs/notes/C19.md",
        "note": "Only the lexer/quoting layer is proved; the claim for the directive layer rests on grammar-directed differential testing (196 of 196 directive kinds exercised; distribution in the evidence). Trusted: Coq kernel; encoding of Go strings as DecodeRuneInString step sequences; the generator's grammar table (lib/hkgrammar.py); LexerGlue.v uses primitive Uint63 only to ship inputs (no theorem depends on it).",
        "technique": "Coq proof of the lexer/formatter spelling layer + differential Parse/Format/Compile equivalence on generated programs",
    },
    "C20": {
        "category": "proof",
        "text": "Coq theorems (Properties/C20.v) over the gate model whose tables and check order are regenerated from internal/mcp/server.go on every run: the gate is exactly the documented conjunction for every string and setting, list = call, dispatch only behind the gate, one audit record per mutating call, actor binding and config-path confinement; the code tables equal the documented spec.md table. Tied to the code by the translator plus an exhaustive run of the complete finite gating table through the real server (tools/list, tools/call frames, toolAccessError) and confinement/actor cases.",
        "design_ref": "DESIGN.md section 5 C20",
        "note": "Trusted: Coq kernel; translator (go/ast) extracting the switch tables and the order of the checks in toolAccessError; Python/Go harness. Tool bodies are not modelled (only the gate, audit skeleton, actor binding, path resolution); confinement of the bodies is checked on the implementation with foreign/unconfigured paths and invalid contents. write_and_reload (needs a running instance) is exercised only up to its validation.",
        "technique": "Coq proof over generated tables + exhaustive differential run of the finite gate table",
    },
}

NOT_APPLICABLE = []

ALL = ["C%02d" % i for i in range(1, 21)]


# second pass (DESIGN.md 12.7/12.8): what each check gained; appended to the texts above
ADDENDA = {
    "C01": (" Workloads also contain lease batches that name no live lease (a leaked write transaction after such a batch loses every later acknowledged write), and the redelivery probe waits for leases extended just before the kill.", ""),
    "C02": (" Monitor soundness: Properties/C02.v also proves that the executable monitor P_C02 itself holds on every trace of the model (both flavours, every configuration, history and oracle; premise: no successful enqueue re-uses a stored id), so the monitor evaluated on the Go stores demands nothing the model does not deliver. The stores under test are built by run.go's own newQueueStore; scenario fragments (batch lease + extend + expiry, restart with live leases, nack schedule, retention ages) run before the random histories.", ""),
    "C03": (" Properties/C03conc.v: an overlap monitor over concurrent histories (calls with invocation/response stamps) is proved to raise no alarm on any linearizable history of Model/Queue.step; lib/c03conc.py drives 8-16 goroutines against the real stores, the pull HTTP handler, the worker gRPC service and a real PushDispatcher and evaluates the monitor in Coq. P_C03 is proved to hold on every model trace (P_C03_holds_on_model). Lease TTLs that push now+ttl beyond the int64 nanosecond horizon (outside what the correspondence can feed the integer model) are judged on both stores directly.", " The note above about sequential histories is superseded for C03: atomicity of the store methods is now exercised by the concurrent stress (a mutation releasing the mutex between select and lease is caught on every run), not only assumed."),
    "C04": (" Pull layer: Model/PullOps.v + Properties/C04pull.v (14 theorems) model the HTTP and gRPC handlers in front of the store - idempotent-answer cache (key, exclusive TTL window, capacity, refresh), status mapping, batch partition, dequeue clamps - compared call by call with the real handlers on both backends. P_C04 is proved to hold on every model trace; a lease batch settles exactly the stored messages whose current lease it presents (C04_batch_counts_exact).", ""),
    "C05": (" A consumer already waiting inside Dequeue(MaxWait>0) when a message becomes ready (lease runs out, nack delay matures, enqueue) is judged on both stores directly (the model has no waiting calls). P_C05 is proved to hold on every model trace (must-offer <= offered <= may-offer per message; SQLite flavour under a monotone clock via the swept invariant).", ""),
    "C06": (" Sends are also counted ON THE WIRE: the real HTTPDeliverer with a real http.Transport delivers to a raw TCP target that reads the message and drops a re-used keep-alive connection; one attempt must be one send.", " Known findings wire-replay:producer-header:{Idempotency-Key,X-Idempotency-Key}: net/http re-sends such a POST inside one attempt."),
    "C07": (" Header values include the valid UTF-8 that encoders treat specially (tag/format characters outside the BMP, zero-width, BOM, U+2028/9, C1 controls, non-characters).", ""),
    "C08": (" Timestamps further from the clock than a time.Duration can express, and final forward-auth statuses below 200 written on the raw connection, are part of the request families.", ""),
    "C10": (" The criteria the model receives come from the compiled configuration; compile itself is tied by a second spelling of the same meaning: a configuration whose routes reference shared named matchers and the same configuration with the references expanded inline must compile to the same criteria and route every request alike.", ""),
    "C11": (" Unloadable token references (empty/missing env, empty/blank file) are placed in pull_api, admin_api and route pull blocks: a start that succeeds without the token is reported.", ""),
    "C12": (" P_C12 is proved to hold on every model trace; C12_successful_enqueue_evicts_exactly states what a successful enqueue evicts on either backend (distinct queued messages, exactly max 0 (A + k - max_depth) of them, each no younger than every queued message that stays).", ""),
    "C13": (" Postgres: Properties/C13pg.v (74 theorems) ties postgres.go to sqlite.go statically - a go/ast translator regenerates statement/control skeletons of both files on every run (Gen/PgTie.v), a Gallina normaliser (Model/SqlNorm.v, proved idempotent and guard-preserving for all token lists) maps both dialects to one form, and every Store method's normal forms must be equal modulo the reviewed table Model/PgAllowedDiffs.v.", " The Postgres tie is syntactic (engine/pgx semantics and each listed structural equivalence are reviewed, not proved); its 15 observable divergences are known findings pgtie:divergence:*."),
    "C14": (" Request layer: Model/ManageGlue.v + Properties/C14admin.v (26 theorems) model the Admin API handlers and MCP tools in front of the mutations (id-list parser, filter glue with limit default/clamp, refusals without effect, response counts, allowed-state sets), compared request by request with the real servers. P_C14 is proved to hold on every model trace.", ""),
    "C17": (" Sequences of deliveries through ONE deliverer and ONE signing configuration with the clock moving forwards, backwards and shuffled: the version signed with is a function of the signing instant alone.", ""),
    "C18": (" File replacement is also run through a symlinked configuration path (strace trace judged by replace_ok, SIGKILL at every syscall).", ""),
}
ADDENDA2 = {
    "C01": " Ingress bodies are also streamed without a Content-Length, within and three times over the route's max_body.",
    "C05": " Hundreds to thousands of messages becoming ready at one instant (leases expiring together, also across a restart; nack delays and scheduled deliveries maturing together) must be handed out min(batch, ready) per dequeue by calls 1 us / 1 ms apart (closed form of C05_dequeue_count; model-evaluated in the thorough tier).",
    "C06": " Micro-batch: Model/PushLoop.v models what runRoute does with the messages one Dequeue hands it (batched / single lease mutations grouped by delay and reason, unknown targets, stop); Properties/C06loop.v proves that every leased message gets exactly one settlement of the prescribed kind and, on the queue model, ends as lease_effect of its own settlement while every other message is untouched; the harness mode dispatch-stop records the store calls of the real PushDispatcher (Drain during the k-th delivery) and compares them with the model per micro-batch. Resolver failures through the real deliverer must be retried, not dead-lettered.",
    "C08": " The caller may reset its connection while the forward-auth service is still deciding: the queue stays untouched.",
    "C11": " A staged pull-auth edit followed by an Admin managed-endpoint mutation: every pull endpoint answers by the allowlists of the file in force.",
    "C14": " MCP Admin-proxy mode: Model/ManageProxy.v + Properties/C14proxy.v (request faithful, counts faithful, a write is served at most once under every fault script of the transport; the retry policy is read from the source by translate/adminproxy.go).",
    "C16": " A host is the same host in Unicode and in punycode spelling (net/http dials the IDNA form): every rule spelling x every URL spelling, target and redirect hop; deliveries whose outbound signing cannot succeed stay policy_denied when the policy denies them.",
    "C17": " The clock may move WHILE one delivery is signed (2 s per reading around every window edge): the secret is the one the rule picks at the instant the request is stamped with.",
    "C20": " One long-lived server through 3-8 mutating calls with an audit sink that fails once (or writes short) and recovers: every other call is audited, in order; Admin-proxy mode forwards the audit identity.",
}
for _pid, _t in ADDENDA2.items():
    if _pid in ADDENDA:
        ADDENDA[_pid] = (ADDENDA[_pid][0] + _t, ADDENDA[_pid][1])
    else:
        ADDENDA[_pid] = (_t, "")
for _pid, (_t, _n) in ADDENDA.items():
    CHECKS[_pid]["text"] = CHECKS[_pid]["text"] + _t
    CHECKS[_pid]["note"] = CHECKS[_pid]["note"] + _n


def main():
    checks = []
    for pid in ALL:
        if pid not in CHECKS:
            continue
        c = CHECKS[pid]
        checks.append({
            "property_id": pid,
            "quick_cmd": "./check %s --tier quick" % pid,
            "thorough_cmd": "./check %s --tier thorough" % pid,
            "evidence_file": "/verif/evidence/%s.json" % pid,
            "replay_cmd_template": "./check %s --replay {path}" % pid,
            "engine": "coq+harness",
            "level_claimed": {"category": c["category"], "text": c["text"], "design_ref": c["design_ref"]},
            "level_note": c["note"],
            "technique": c["technique"],
        })
    na = list(NOT_APPLICABLE)
    claimed = set(CHECKS)
    listed = set(x["property_id"] for x in na)
    for pid in ALL:
        if pid not in claimed and pid not in listed:
            na.append({"property_id": pid, "reason": "check not built yet in this revision (work in progress; the property is within reach of the technique, see DESIGN.md section 5)"})
    m = {
        "version": 1,
        "setup_cmd": "./setup.sh",
        "hooks": {
            "guard": "verif",
            "enable": "cd /repo && GOFLAGS=-mod=mod GOPROXY=off go build -tags verif -overlay <generated overlay.json> ./cmd/verifharness  (harness main package and white-box zz_verif.go shims are mounted from /verif/harness with -overlay; nothing is committed to /repo)",
            "baseline_off_cmd": "cd /repo && GOFLAGS=-mod=mod GOPROXY=off go test -vet=off -count=1 ./...",
            "source_commits": [],
            "add_only": True,
        },
        "engines": [
            {"name": "coq+harness", "path": "/verif/check", "serves_properties": sorted(claimed),
             "kind_free_text": "Coq 8.16.1 development under /verif/coq (models, proofs, property theorems; Gen/ regenerated from /repo by /verif/translate on every run) + Go harness mounted into /repo with -overlay + Python driver that evaluates the model inside Coq (vm_compute) on the cases the implementation ran"},
        ],
        "checks": checks,
        "notes": "Every check rebuilds the harness from /repo's working tree, regenerates coq/Gen from the source, rebuilds the Coq development, re-checks Properties/<id>.v and then runs the correspondence. See DESIGN.md.",
        "not_applicable": na,
    }
    json.dump(m, open(os.path.join(VERIF, "MANIFEST.json"), "w"), indent=1)
    print("wrote MANIFEST.json with", len(checks), "checks")


if __name__ == "__main__":
    main()
