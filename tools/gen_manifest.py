#!/usr/bin/env python3
"""Writes /verif/MANIFEST.json from the table below (kept valid against the schema)."""
import json
import os

VERIF = os.path.dirname(os.path.dirname(os.path.abspath(__file__)))

CHECKS = {
    "C20": {
        "category": "proof",
        "text": "Coq theorems (Properties/C20.v) over the gate model whose tables and check order are regenerated from internal/mcp/server.go on every run: the gate is exactly the documented conjunction for every string and setting, list = call, dispatch only behind the gate, one audit record per mutating call, actor binding and config-path confinement; the code tables equal the documented spec.md table. Tied to the code by the translator plus an exhaustive run of the complete finite gating table through the real server (tools/list, tools/call frames, toolAccessError) and confinement/actor cases.",
        "design_ref": "DESIGN.md section 5 C20",
        "note": "Trusted: Coq kernel; translator (go/ast) extracting the switch tables and the order of the checks in toolAccessError; Python/Go harness. Tool bodies are not modelled (only the gate, audit skeleton, actor binding, path resolution); confinement of the bodies is checked on the implementation with foreign/unconfigured paths and invalid contents. write_and_reload (needs a running instance) is exercised only up to its validation.",
        "technique": "Coq proof over generated tables + exhaustive differential run of the finite gate table",
    },
}

NOT_APPLICABLE = []

ALL = ["C%02d" % i for i in range(1, 21)]


def main():
    checks = []
    for pid in ALL:
        if pid not in CHECKS:
            continue
        c = CHECKS[pid]
        checks.append({
            "property_id": pid,
            "quick_cmd": "./check %s --tier quick" % pid,
            "thorough_cmd": "./check %s --tier thorough" % pid,
            "evidence_file": "/verif/evidence/%s.json" % pid,
            "replay_cmd_template": "./check %s --replay {path}" % pid,
            "engine": "coq+harness",
            "level_claimed": {"category": c["category"], "text": c["text"], "design_ref": c["design_ref"]},
            "level_note": c["note"],
            "technique": c["technique"],
        })
    na = list(NOT_APPLICABLE)
    claimed = set(CHECKS)
    listed = set(x["property_id"] for x in na)
    for pid in ALL:
        if pid not in claimed and pid not in listed:
            na.append({"property_id": pid, "reason": "check not built yet in this revision (work in progress; the property is within reach of the technique, see DESIGN.md section 5)"})
    m = {
        "version": 1,
        "setup_cmd": "./setup.sh",
        "hooks": {
            "guard": "verif",
            "enable": "cd /repo && GOFLAGS=-mod=mod GOPROXY=off go build -tags verif -overlay <generated overlay.json> ./cmd/verifharness  (harness main package and white-box zz_verif.go shims are mounted from /verif/harness with -overlay; nothing is committed to /repo)",
            "baseline_off_cmd": "cd /repo && GOFLAGS=-mod=mod GOPROXY=off go test -vet=off -count=1 ./...",
            "source_commits": [],
            "add_only": True,
        },
        "engines": [
            {"name": "coq+harness", "path": "/verif/check", "serves_properties": sorted(claimed),
             "kind_free_text": "Coq 8.16.1 development under /verif/coq (models, proofs, property theorems; Gen/ regenerated from /repo by /verif/translate on every run) + Go harness mounted into /repo with -overlay + Python driver that evaluates the model inside Coq (vm_compute) on the cases the implementation ran"},
        ],
        "checks": checks,
        "notes": "Every check rebuilds the harness from /repo's working tree, regenerates coq/Gen from the source, rebuilds the Coq development, re-checks Properties/<id>.v and then runs the correspondence. See DESIGN.md.",
        "not_applicable": na,
    }
    json.dump(m, open(os.path.join(VERIF, "MANIFEST.json"), "w"), indent=1)
    print("wrote MANIFEST.json with", len(checks), "checks")


if __name__ == "__main__":
    main()
