#!/bin/bash
# refresh_evidence.sh [P]  -- run every quick check on the unchanged tree (P at a time, default 3) so that evidence/ describes it
cd /verif
P=${1:-3}
printf "%s\n" C01 C02 C03 C04 C05 C06 C07 C08 C09 C10 C11 C12 C13 C14 C15 C16 C17 C18 C19 C20 | \
  xargs -P $P -I{} sh -c './check {} > /tmp/refresh-{}.log 2>&1; echo "{} rc=$? $(grep -c ^VIOLATION /tmp/refresh-{}.log) violations"'
# a record written by a failing run must never be committed (C14.json once was: the run against an intermediate /repo
# commit had a broken obligation, and only C02/C13 were re-run after the repair)
python3-vt tools/validate_evidence.py
