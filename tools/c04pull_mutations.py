"""Self-test of the C04 pull-layer check: 12 property-breaking edits of internal/pullapi + internal/workerapi.
Usage: git -C /repo worktree add --detach /tmp/wt-mut HEAD; python3 tools/c04pull_mutations.py [names]; git -C /repo worktree remove --force /tmp/wt-mut
Each edit is applied to the scratch worktree, compiled, and `VERIF_REPO=/tmp/wt-mut ./check C04 --tier quick` is run (see docs/notes/C04pull.md)."""
import sys, subprocess, re, json, os, time
WT = "/tmp/wt-mut"
def rep(path, old, new, count=1):
    p = os.path.join(WT, path)
    t = open(p).read()
    assert old in t, (path, old[:60])
    t = t.replace(old, new, count)
    open(p, "w").write(t)

MUT = {}
def m(name):
    def d(f):
        MUT[name] = f
        return f
    return d

@m("M1-any-op-kind")
def _():
    rep("internal/pullapi/http.go", '''	elem, ok := s.recentLeaseOps[key]
	if !ok {
		return false
	}
''', '''	elem, ok := s.recentLeaseOps[key]
	if !ok {
		for k, e := range s.recentLeaseOps {
			if k.leaseID == leaseID {
				elem, ok = e, true
			}
		}
	}
	if !ok {
		return false
	}
''')

@m("M2-remember-before-store")
def _():
    rep("internal/pullapi/ops.go", '''	if err := s.Store.Ack(leaseID); err != nil {
		if errors.Is(err, queue.ErrLeaseNotFound) || errors.Is(err, queue.ErrLeaseExpired) {
			s.observeAck(route, 409, leaseID, errors.Is(err, queue.ErrLeaseExpired))''', '''	s.rememberCompletedLease(leaseID, recentLeaseOpAck)
	if err := s.Store.Ack(leaseID); err != nil {
		if errors.Is(err, queue.ErrLeaseNotFound) || errors.Is(err, queue.ErrLeaseExpired) {
			s.observeAck(route, 409, leaseID, errors.Is(err, queue.ErrLeaseExpired))''')

@m("M3-never-expires")
def _():
    rep("internal/pullapi/http.go", '''	if entry == nil || !now.Before(entry.expiresAt) {
		s.removeRecentLeaseOpLocked(elem)
		return false
	}
	return true''', '''	if entry == nil {
		s.removeRecentLeaseOpLocked(elem)
		return false
	}
	return true''')
    rep("internal/pullapi/http.go", '''		if entry == nil || now.Before(entry.expiresAt) {
			return
		}
		s.removeRecentLeaseOpLocked(front)''', '''		if entry == nil || now.Before(entry.expiresAt) || true {
			return
		}
		s.removeRecentLeaseOpLocked(front)''')

@m("M4-expired-is-204")
def _():
    rep("internal/pullapi/ops.go", '''	if err := s.Store.Ack(leaseID); err != nil {
		if errors.Is(err, queue.ErrLeaseNotFound) || errors.Is(err, queue.ErrLeaseExpired) {''', '''	if err := s.Store.Ack(leaseID); err != nil {
		if errors.Is(err, queue.ErrLeaseExpired) {
			s.observeAck(route, 204, leaseID, true)
			return nil
		}
		if errors.Is(err, queue.ErrLeaseNotFound) || errors.Is(err, queue.ErrLeaseExpired) {''')

@m("M5-batch-ignores-conflicts")
def _():
    rep("internal/pullapi/ops.go", '''		observeBatchAck(s, route, pendingLeaseIDs, res)
		for _, leaseID := range s.successfulLeaseIDs(pendingLeaseIDs, res.Conflicts) {
			s.rememberCompletedLease(leaseID, recentLeaseOpAck)
		}
		return LeaseBatchResult{
			Succeeded: ackedFromCompleted + res.Succeeded,
			Conflicts: append([]queue.LeaseBatchConflict(nil), res.Conflicts...),
		}, nil''', '''		observeBatchAck(s, route, pendingLeaseIDs, res)
		for _, leaseID := range pendingLeaseIDs {
			s.rememberCompletedLease(leaseID, recentLeaseOpAck)
		}
		return LeaseBatchResult{
			Succeeded: ackedFromCompleted + len(pendingLeaseIDs),
		}, nil''')

@m("M6-extend-idempotent")
def _():
    rep("internal/pullapi/ops.go", '''	if err := s.Store.Extend(leaseID, extendBy); err != nil {
		if errors.Is(err, queue.ErrLeaseNotFound) || errors.Is(err, queue.ErrLeaseExpired) {''', '''	if err := s.Store.Extend(leaseID, extendBy); err != nil {
		if s.isRecentlyCompletedLease(leaseID, recentLeaseOpAck) || s.isRecentlyCompletedLease(leaseID, recentLeaseOpNack) {
			s.observeExtend(route, 204, leaseID, extendBy, false)
			return nil
		}
		if errors.Is(err, queue.ErrLeaseNotFound) || errors.Is(err, queue.ErrLeaseExpired) {''')

@m("M7-nack-recorded-as-ack")
def _():
    rep("internal/pullapi/ops.go", '''	s.observeNack(route, 204, leaseID, false)
	s.rememberCompletedLease(leaseID, recentLeaseOpNack)
	return nil
}

func (s *Server) NackBatch''', '''	s.observeNack(route, 204, leaseID, false)
	s.rememberCompletedLease(leaseID, recentLeaseOpAck)
	return nil
}

func (s *Server) NackBatch''')

@m("M8-ttl-off-by-one")
def _():
    rep("internal/pullapi/http.go", '''	if entry == nil || !now.Before(entry.expiresAt) {
		s.removeRecentLeaseOpLocked(elem)''', '''	if entry == nil || now.After(entry.expiresAt) {
		s.removeRecentLeaseOpLocked(elem)''')
    rep("internal/pullapi/http.go", '''		if entry == nil || now.Before(entry.expiresAt) {
			return
		}''', '''		if entry == nil || !now.After(entry.expiresAt) {
			return
		}''')

@m("M9-grpc-409-aborted")
def _():
    rep("internal/workerapi/server.go", '''		return status.Error(codes.FailedPrecondition, opErr.Detail)''', '''		return status.Error(codes.Aborted, opErr.Detail)''')

@m("M10-maxbatch-ignored")
def _():
    rep("internal/pullapi/ops.go", '''	if s.MaxBatch > 0 && batch > s.MaxBatch {
		batch = s.MaxBatch
	}''', '''	if s.MaxBatch > 0 && batch > s.MaxBatch+1 {
		batch = s.MaxBatch
	}''')

@m("M11-nack-delay-ignored-when-cached-elsewhere")
def _():
    # stale nack touches the message: a duplicate nack that hits the cache re-schedules the message through the operator API
    rep("internal/pullapi/ops.go", '''	if s.isRecentlyCompletedLease(leaseID, recentLeaseOpNack) {
		s.observeNack(route, 204, leaseID, false)
		return nil
	}''', '''	if s.isRecentlyCompletedLease(leaseID, recentLeaseOpNack) {
		s.observeNack(route, 204, leaseID, false)
		if resp, err := s.Store.ListMessages(queue.MessageListRequest{Route: route, State: queue.StateQueued, Limit: 1}); err == nil && len(resp.Items) > 0 {
			_, _ = s.Store.CancelMessages(queue.MessageCancelRequest{IDs: []string{resp.Items[0].ID}})
			_, _ = s.Store.RequeueMessages(queue.MessageRequeueRequest{IDs: []string{resp.Items[0].ID}})
		}
		return nil
	}''')

@m("M12-ttl-max-ignored")
def _():
    rep("internal/pullapi/ops.go", '''	if s.MaxLeaseTTL > 0 && leaseTTL > s.MaxLeaseTTL {
		leaseTTL = s.MaxLeaseTTL
	}''', '''	if s.MaxLeaseTTL > 0 && leaseTTL > 2*s.MaxLeaseTTL {
		leaseTTL = s.MaxLeaseTTL
	}''')

names = sys.argv[1:] or sorted(MUT)
out = {}
for n in names:
    subprocess.run(["git", "-C", WT, "checkout", "-q", "."], check=True)
    MUT[n]()
    b = subprocess.run(["go", "build", "./internal/..."], cwd=WT, env=dict(os.environ, GOFLAGS="-mod=mod", GOPROXY="off"), capture_output=True, text=True)
    if b.returncode != 0:
        print(n, "DOES NOT COMPILE", b.stderr[-500:]); continue
    t0 = time.time()
    p = subprocess.run(["./check", "C04", "--tier", "quick"], cwd=os.path.dirname(os.path.dirname(os.path.abspath(__file__))), env=dict(os.environ, VERIF_REPO=WT), capture_output=True, text=True)
    lines = [l for l in p.stdout.splitlines() if l.startswith("VIOLATION")]
    keys = []
    for l in lines:
        mm = re.search(r"replay=(\S+)", l)
        if mm and os.path.exists(mm.group(1)):
            keys.append(json.load(open(mm.group(1))).get("key"))
    ev = json.load(open(os.path.join(os.path.dirname(os.path.dirname(os.path.abspath(__file__))), "evidence", "C04.json")))
    print("%s rc=%d wall=%.0fs violations=%d keys=%s" % (n, p.returncode, time.time() - t0, ev["violations"], sorted(set(ev["violation_keys"]))), flush=True)
    if lines:
        print("   ", lines[0])
    if p.returncode == 2:
        print(p.stderr[-1500:])
subprocess.run(["git", "-C", WT, "checkout", "-q", "."], check=True)
