#!/bin/bash
# recheck_seed.sh <seed-dir-name> <PROP> [note] -- run the check against a seeded change again and record the outcome in its meta.json
set -u
NAME=$1; PROP=$2; NOTE=${3:-}
OUT=$(tools/try_seed.sh $NAME $PROP 2>&1)
echo "$OUT" | tail -6
python3 - "$NAME" "$PROP" "$NOTE" <<PY
import json,sys
name,prop,note=sys.argv[1:4]
out='''$OUT'''
p='/verif/seeded/%s/meta.json'%name
m=json.load(open(p))
rc=[l for l in out.splitlines() if l.startswith('rc=')][-1][3:]
first=m.get('detected_by')
lines=[l[:200] for l in out.splitlines() if l.startswith('VIOLATION')][:6]
if first and first.get('exit') in ('0',0) and 'first_run' not in m:
    m['first_run']={'exit':first.get('exit'),'note':'missed by the checks as they were when the change was produced'}
m['detected_by']={'check':'./check %s --tier quick'%prop,'exit':rc,'lines':lines}
if note: m['strengthening']=note
json.dump(m,open(p,'w'),indent=1)
PY
