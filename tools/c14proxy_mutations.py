"""Self-test of the C14 Admin-proxy layer (lib/c14proxy.py): property-breaking edits of internal/mcp/server.go.
Usage: git -C /repo worktree add --detach /tmp/wt-bproxy-mut HEAD; python3 tools/c14proxy_mutations.py [names];
       git -C /repo worktree remove --force /tmp/wt-bproxy-mut
Each edit is applied to the scratch worktree, compiled, and `VERIF_REPO=<wt> ./check C14 --tier quick` (C20 for the audit
mutations) is run from this worktree (see docs/notes/C14proxy.md)."""
import sys, subprocess, re, json, os, time
WT = os.environ.get("MUT_WT", "/tmp/wt-bproxy-mut")
HERE = os.path.dirname(os.path.dirname(os.path.abspath(__file__)))
SRV = "internal/mcp/server.go"


def rep(path, old, new, count=1):
    p = os.path.join(WT, path)
    t = open(p).read()
    assert old in t, (path, old[:60])
    t = t.replace(old, new, count)
    open(p, "w").write(t)


MUT = {}
PROP = {}


def m(name, prop="C14"):
    def d(f):
        MUT[name] = f
        PROP[name] = prop
        return f
    return d


@m("M01-seed-write-retry")
def _():
    subprocess.run(["git", "apply", os.path.join(HERE, "seeded", "C14d-admin-proxy-write-retry", "patch.diff")], cwd=WT, check=True)


@m("M02-limit-not-forwarded")
def _():
    rep(SRV, '''func messageManageFilterPayload(req queue.MessageManageFilterRequest, application, endpointName string) map[string]any {
	out := map[string]any{
		"limit":        req.Limit,
		"preview_only": req.PreviewOnly,
	}''', '''func messageManageFilterPayload(req queue.MessageManageFilterRequest, application, endpointName string) map[string]any {
	out := map[string]any{
		"preview_only": req.PreviewOnly,
	}''')


@m("M03-preview-flag-dropped")
def _():
    rep(SRV, '''func messageManageFilterPayload(req queue.MessageManageFilterRequest, application, endpointName string) map[string]any {
	out := map[string]any{
		"limit":        req.Limit,
		"preview_only": req.PreviewOnly,
	}''', '''func messageManageFilterPayload(req queue.MessageManageFilterRequest, application, endpointName string) map[string]any {
	out := map[string]any{
		"limit": req.Limit,
	}''')


@m("M04-actor-header-not-forwarded")
def _():
    rep(SRV, '''	if audit.Actor != "" {
		headers[adminAuditActorHeader] = audit.Actor
	}
	if audit.RequestID != "" {
		headers[adminAuditRequestIDHeader] = audit.RequestID
	}
	return headers''', '''	if audit.RequestID != "" {
		headers[adminAuditRequestIDHeader] = audit.RequestID
	}
	return headers''')


@m("M05-request-id-header-not-forwarded")
def _():
    rep(SRV, '''	if audit.RequestID != "" {
		headers[adminAuditRequestIDHeader] = audit.RequestID
	}
	return headers''', '''	return headers''')


@m("M06-matched-reported-as-canceled")
def _():
    rep(SRV, '''		if err != nil {
			return nil, err
		}
		return withAuditPrincipal(out, s.auditPrincipal()), nil
	}

	var resolvedRoute string
	if application != "" {
		compiled, res, err := s.loadCompiledConfig()
		if err != nil {
			return nil, err
		}
		if !res.OK {
			return nil, fmt.Errorf("config compile failed: %s", strings.Join(res.Errors, "; "))
		}
		if err := validateScopedManagedAuditPolicyForFilterMutation(audit, req.Route, application, endpointName, compiled); err != nil {
			return nil, err
		}
		resolvedRoute, err = resolveManagedRouteFilterWithCompiled(req.Route, application, endpointName, compiled)
		if err != nil {
			return nil, err
		}
	} else {
		if err := s.validateRouteScopedManagedAuditPolicyForFilterMutation(audit, req.Route); err != nil {
			return nil, err
		}
		var err error
		resolvedRoute, err = s.resolveManagedRouteFilter(req.Route, application, endpointName)
		if err != nil {
			return nil, err
		}
	}
	req.Route = resolvedRoute

	store, err := s.openSQLiteStore()
	if err != nil {
		return nil, err
	}
	defer func() { _ = store.Close() }()

	resp, err := store.CancelMessagesByFilter(req)''', '''		if err != nil {
			return nil, err
		}
		out["canceled"] = out["matched"]
		return withAuditPrincipal(out, s.auditPrincipal()), nil
	}

	var resolvedRoute string
	if application != "" {
		compiled, res, err := s.loadCompiledConfig()
		if err != nil {
			return nil, err
		}
		if !res.OK {
			return nil, fmt.Errorf("config compile failed: %s", strings.Join(res.Errors, "; "))
		}
		if err := validateScopedManagedAuditPolicyForFilterMutation(audit, req.Route, application, endpointName, compiled); err != nil {
			return nil, err
		}
		resolvedRoute, err = resolveManagedRouteFilterWithCompiled(req.Route, application, endpointName, compiled)
		if err != nil {
			return nil, err
		}
	} else {
		if err := s.validateRouteScopedManagedAuditPolicyForFilterMutation(audit, req.Route); err != nil {
			return nil, err
		}
		var err error
		resolvedRoute, err = s.resolveManagedRouteFilter(req.Route, application, endpointName)
		if err != nil {
			return nil, err
		}
	}
	req.Route = resolvedRoute

	store, err := s.openSQLiteStore()
	if err != nil {
		return nil, err
	}
	defer func() { _ = store.Close() }()

	resp, err := store.CancelMessagesByFilter(req)''')


@m("M07-get-retry-count-applied-to-post")
def _():
    rep(SRV, '''	maxAttempts := 1
	if strings.EqualFold(method, http.MethodGet) {
		maxAttempts = adminProxyRetryMaxGET
	}''', '''	maxAttempts := adminProxyRetryMaxGET''')


@m("M08-count-field-renamed")
def _():
    rep(SRV, '''		out, err := s.callAdminJSON(ctx.compiled, http.MethodPost, "/messages/requeue", nil, map[string]any{"ids": ids}, mutationAuditHeaders(audit), defaultAdminProxyTimeout)
		if err != nil {
			return nil, err
		}''', '''		out, err := s.callAdminJSON(ctx.compiled, http.MethodPost, "/messages/requeue", nil, map[string]any{"ids": ids}, mutationAuditHeaders(audit), defaultAdminProxyTimeout)
		if err != nil {
			return nil, err
		}
		out["requeued_count"] = out["requeued"]
		delete(out, "requeued")''')


@m("M09-proxy-used-for-sqlite")
def _():
    rep(SRV, '''	case "", "sqlite", "mixed":
		return false
	default:
		return true''', '''	case "", "mixed":
		return false
	default:
		return true''')


@m("M10-direct-mode-used-for-memory")
def _():
    rep(SRV, '''	case "", "sqlite", "mixed":
		return false
	default:
		return true''', '''	case "", "sqlite", "mixed", "memory":
		return false
	default:
		return true''')


@m("M11-allowlist-not-enforced")
def _():
    rep(SRV, '''		if ok {
			return nil
		}
	}
	return fmt.Errorf("admin endpoint %q is not allowed by admin endpoint allowlist", endpointURL)''', '''		if ok {
			return nil
		}
	}
	return nil''')


@m("M12-dlq-delete-proxied-to-requeue")
def _():
    rep(SRV, '''s.callAdminJSON(ctx.compiled, http.MethodPost, "/dlq/delete", nil,''', '''s.callAdminJSON(ctx.compiled, http.MethodPost, "/dlq/requeue", nil,''')


@m("M13-proxy-error-swallowed")
def _():
    rep(SRV, '''		out, err := s.callAdminJSON(ctx.compiled, http.MethodPost, "/messages/resume", nil, map[string]any{"ids": ids}, mutationAuditHeaders(audit), defaultAdminProxyTimeout)
		if err != nil {
			return nil, err
		}''', '''		out, err := s.callAdminJSON(ctx.compiled, http.MethodPost, "/messages/resume", nil, map[string]any{"ids": ids}, mutationAuditHeaders(audit), defaultAdminProxyTimeout)
		if err != nil {
			return map[string]any{"resumed": 0}, nil
		}''')


@m("M14-before-cursor-not-forwarded")
def _():
    rep(SRV, '''	if req.State != "" {
		out["state"] = string(req.State)
	}
	if !req.Before.IsZero() {
		out["before"] = req.Before.UTC().Format(time.RFC3339Nano)
	}
	return out
}

func scopedMessageManageFilterPayload''', '''	if req.State != "" {
		out["state"] = string(req.State)
	}
	return out
}

func scopedMessageManageFilterPayload''')


@m("M15-post-retried-on-503")
def _():
    rep(SRV, '''func shouldRetryAdminProxyCall(attempt, maxAttempts, statusCode int, err error) bool {
	if attempt >= maxAttempts {
		return false
	}''', '''func shouldRetryAdminProxyCall(attempt, maxAttempts, statusCode int, err error) bool {
	if attempt >= maxAttempts && !(statusCode == http.StatusServiceUnavailable && attempt < 2) {
		return false
	}''')
    rep(SRV, '''	for attempt := 1; attempt <= maxAttempts; attempt++ {
		var reqBody io.Reader''', '''	for attempt := 1; attempt <= maxAttempts+1; attempt++ {
		var reqBody io.Reader''')


@m("M16-raw-ids-forwarded-scoped-route-lost")
def _():
    # the endpoint-scoped path is not used: the selector travels in the body of the global endpoint, but the route the
    # tool resolved is dropped - with a selector the Admin API resolves it again (equivalent), so only the request differs
    rep(SRV, '''			endpointPath = managedEndpointMessageActionPath(application, endpointName, "cancel_by_filter")
			payload = scopedMessageManageFilterPayload(req)''', '''			_ = managedEndpointMessageActionPath''')


@m("M17-state-criterion-not-forwarded")
def _():
    rep(SRV, '''	if req.Target != "" {
		out["target"] = req.Target
	}
	if req.State != "" {
		out["state"] = string(req.State)
	}
	if !req.Before.IsZero() {
		out["before"] = req.Before.UTC().Format(time.RFC3339Nano)
	}
	return out
}

func scopedMessageManageFilterPayload''', '''	if req.Target != "" {
		out["target"] = req.Target
	}
	if !req.Before.IsZero() {
		out["before"] = req.Before.UTC().Format(time.RFC3339Nano)
	}
	return out
}

func scopedMessageManageFilterPayload''')


@m("A01-no-audit-for-5xx-proxy-errors", "C20")
def _():
    rep(SRV, '''	if s == nil || s.AuditWriter == nil {
		return
	}

	event := map[string]any{''', '''	if s == nil || s.AuditWriter == nil {
		return
	}
	var proxyErr *adminProxyHTTPError
	if errors.As(callErr, &proxyErr) && proxyErr.statusCode >= 500 {
		return
	}

	event := map[string]any{''')


@m("A02-audit-success-before-proxy-call", "C20")
def _():
    rep(SRV, '''	client := adminProxyClient(compiled.AdminAPI, timeout)
	maxAttempts := 1''', '''	client := adminProxyClient(compiled.AdminAPI, timeout)
	if !strings.EqualFold(method, http.MethodGet) && strings.HasPrefix(endpointPath, "/messages/cancel") {
		s.emitMutationAuditEvent("messages_cancel", nil, time.Now(), "success", nil, nil)
	}
	maxAttempts := 1''')


names = sys.argv[1:] or sorted(MUT)
for n in names:
    subprocess.run(["git", "-C", WT, "checkout", "-q", "."], check=True)
    MUT[n]()
    b = subprocess.run(["go", "build", "./internal/..."], cwd=WT, env=dict(os.environ, GOFLAGS="-mod=mod", GOPROXY="off"), capture_output=True, text=True)
    if b.returncode != 0:
        print(n, "DOES NOT COMPILE", b.stderr[-500:])
        continue
    t0 = time.time()
    prop = PROP[n]
    p = subprocess.run(["./check", prop, "--tier", "quick"], cwd=HERE, env=dict(os.environ, VERIF_REPO=WT, GOFLAGS="-mod=mod", GOPROXY="off"), capture_output=True, text=True)
    lines = [l for l in p.stdout.splitlines() if l.startswith("VIOLATION")]
    ev = json.load(open(os.path.join(HERE, "evidence", prop + ".json")))
    keys = sorted(set(ev["violation_keys"]))
    print("%s %s rc=%d wall=%.0fs violations=%d keys=%s" % (n, prop, p.returncode, time.time() - t0, ev["violations"], keys[:14]), flush=True)
    whats = []
    for l in lines[:3]:
        mm = re.search(r"replay=(\S+)", l)
        if mm and os.path.exists(mm.group(1)):
            whats.append(json.load(open(mm.group(1))).get("what", "")[:260])
    for w in whats:
        print("    ", w)
    if p.returncode == 2:
        print(p.stderr[-1500:])
subprocess.run(["git", "-C", WT, "checkout", "-q", "."], check=True)
subprocess.run(["git", "-C", HERE, "checkout", "-q", "--", "coq/Gen", "evidence"], check=False)
