#!/bin/bash
# adopt_seed.sh <ID> <seed-name>  -- confirm /tmp/seed-out/<ID> in a scratch worktree, store it under seeded/<seed-name>, run the check against it
set -u
ID=$1; NAME=$2
SRC=/tmp/seed-out/$ID
DEMO_REL=$(head -1 $SRC/zz_seed_demo_test.go | sed -n 's#^// place at: *##p' | tr -d '\r ')
[ -z "$DEMO_REL" ] && { echo "no '// place at:' line"; exit 2; }
PKG=./$(dirname $DEMO_REL)/
/verif/tools/confirm_seed.sh $ID $NAME $DEMO_REL "TestSeedDemo_$ID" $PKG || exit 3
[ -d /verif/seeded/$NAME ] || exit 4
OUT=$(/verif/tools/try_seed.sh $NAME $ID 2>&1)
echo "$OUT" | cut -c1-180 | head -8
RC=$(echo "$OUT" | sed -n 's/^rc=//p')
python3 - "$NAME" "$RC" "$OUT" <<'PY'
import json,sys
name,rc,out=sys.argv[1],sys.argv[2],sys.argv[3]
p='/verif/seeded/%s/meta.json'%name
m=json.load(open(p))
m['detected_by']={'check':'./check %s --tier quick'%m['property'],'exit':rc,'lines':[l[:200] for l in out.splitlines() if l.startswith(('VIOLATION','KNOWN'))][:6]}
m['needs']=open('/verif/seeded/%s/notes.md'%name).read()[:1500]
json.dump(m,open(p,'w'),indent=1)
PY
