#!/bin/bash
# try_seed.sh <seed-dir-name> <PROP> [tier]  -- apply a seeded patch in a scratch worktree of /repo and run the check against it
set -u
NAME=$1; PROP=$2; TIER=${3:-quick}
WT=/tmp/wts-$NAME-$$
git -C /repo worktree add -q --detach $WT HEAD || exit 2
# the run regenerates coq/Gen from the patched tree and rewrites the property's evidence file: put both back afterwards
# (evidence under /verif/evidence describes the UNCHANGED tree; the seeded run's record goes to /tmp)
EVB=/tmp/try_seed.$$.evidence
[ -f /verif/evidence/$PROP.json ] && cp /verif/evidence/$PROP.json $EVB
trap 'git -C /repo worktree remove --force $WT; git -C /verif checkout -- coq/Gen 2>/dev/null; if [ -f $EVB ]; then cp /verif/evidence/$PROP.json /tmp/seed-evidence-$NAME.json 2>/dev/null; mv $EVB /verif/evidence/$PROP.json; fi' EXIT
( cd $WT && ( git apply /verif/seeded/$NAME/patch.diff 2>/dev/null || git apply -3 /verif/seeded/$NAME/patch.diff ) ) || { echo "PATCH-DOES-NOT-APPLY"; exit 3; }
cd /verif && VERIF_REPO=$WT ./check $PROP --tier $TIER > /tmp/try_seed.$$.out 2>&1
RC=$?
grep -E "^(VIOLATION|REPLAY|Traceback|RuntimeError)" /tmp/try_seed.$$.out | head -10
grep -cE "^KNOWN-FINDING" /tmp/try_seed.$$.out | sed 's/^/known-finding lines: /'
rm -f /tmp/try_seed.$$.out
echo "rc=$RC"
