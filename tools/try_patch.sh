#!/bin/bash
# try_patch.sh <patch-file> <PROP> [tier] -- apply a patch in a scratch worktree of /repo and run the check against it
set -u
PATCH=$1; PROP=$2; TIER=${3:-quick}
WT=/tmp/wtp-$$
git -C /repo worktree add -q --detach $WT HEAD || exit 2
trap 'git -C /repo worktree remove --force $WT' EXIT
( cd $WT && git apply $PATCH ) || { echo "PATCH-DOES-NOT-APPLY"; exit 3; }
( cd $WT && GOFLAGS=-mod=mod GOPROXY=off go build ./... ) || { echo "DOES-NOT-BUILD"; exit 4; }
cd /verif && VERIF_REPO=$WT ./check $PROP --tier $TIER 2>&1 | grep -E "^(VIOLATION|KNOWN-FINDING|REPLAY|Traceback|RuntimeError)" | cut -c1-220 | head -12
echo "rc=${PIPESTATUS[0]}"
