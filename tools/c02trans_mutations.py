"""Self-test of the C02 state-machine translator tie: property-breaking edits of internal/queue/{memory,sqlite,postgres}.go.
Usage: git -C /repo worktree add --detach /tmp/wt-trans HEAD; python3 tools/c02trans_mutations.py [names];
       git -C /repo worktree remove --force /tmp/wt-trans
Each edit is applied to the scratch worktree, compiled, and `VERIF_REPO=/tmp/wt-trans ./check C02 --tier quick` is run
(see docs/notes/C02trans.md).  Afterwards coq/Gen is regenerated from /repo."""
import json, os, re, subprocess, sys, time
WT = "/tmp/wt-trans"
VERIF = os.path.dirname(os.path.dirname(os.path.abspath(__file__)))
ENV = dict(os.environ, GOFLAGS="-mod=mod", GOPROXY="off")


def rep(path, old, new, count=1):
    p = os.path.join(WT, path)
    t = open(p).read()
    assert old in t, (path, old[:60])
    t = t.replace(old, new, count)
    open(p, "w").write(t)


MUT = {}


def m(name):
    def d(f):
        MUT[name] = f
        return f
    return d


MEM, SQL, PG = "internal/queue/memory.go", "internal/queue/sqlite.go", "internal/queue/postgres.go"


@m("T01-sqlite-cancel-accepts-delivered")
def _():
    rep(SQL, """		string(StateQueued),
		string(StateLeased),
		string(StateDead),
	)
	for _, id := range ids {""", """		string(StateQueued),
		string(StateLeased),
		string(StateDead),
		string(StateDelivered),
	)
	for _, id := range ids {""")
    rep(SQL, "WHERE state IN (?, ?, ?)\n  AND id IN (` + placeholders + `);`", "WHERE state IN (?, ?, ?, ?)\n  AND id IN (` + placeholders + `);`")
    rep(SQL, "args := make([]any, 0, 6+len(ids))", "args := make([]any, 0, 7+len(ids))")


@m("T02-memory-requeue-from-queued")
def _():
    rep(MEM, "if env.State != StateDead && env.State != StateCanceled {", "if env.State != StateDead && env.State != StateCanceled && env.State != StateQueued {")


@m("T03-postgres-deletedead-unguarded")
def _():
    rep(PG, """DELETE FROM queue_items
WHERE id = $1
  AND state = $2
`,
				id,
				string(StateDead),
			)
			if err != nil {
				return DeadDeleteResponse{}, err""", """DELETE FROM queue_items
WHERE id = $1
`,
				id,
			)
			if err != nil {
				return DeadDeleteResponse{}, err""")


@m("T04-memory-nack-keeps-lease-until")
def _():
    rep(MEM, """	env.State = StateQueued
	env.LeaseID = ""
	env.LeaseUntil = time.Time{}
	env.DeadReason = ""
	if delay < 0 {""", """	env.State = StateQueued
	env.LeaseID = ""
	env.DeadReason = ""
	if delay < 0 {""")


@m("T05-sqlite-nack-keeps-lease-until")
def _():
    rep(SQL, """SET state = ?, lease_id = NULL, lease_until = NULL, next_run_at = ?, dead_reason = NULL
WHERE lease_id = ?
  AND state = ?
  AND (lease_until IS NULL OR lease_until > ?);
`,
			string(StateQueued),
			saturatingUnixNanoAfter(now, delay),""", """SET state = ?, lease_id = NULL, next_run_at = ?, dead_reason = NULL
WHERE lease_id = ?
  AND state = ?
  AND (lease_until IS NULL OR lease_until > ?);
`,
			string(StateQueued),
			saturatingUnixNanoAfter(now, delay),""")


@m("T06-sqlite-prune-deletes-leased")
def _():
    rep(SQL, """DELETE FROM queue_items
WHERE state = ?
  AND received_at <= ?;
`, string(StateQueued), cutoff.UnixNano())""", """DELETE FROM queue_items
WHERE state IN (?, ?)
  AND received_at <= ?;
`, string(StateQueued), string(StateLeased), cutoff.UnixNano())""")


@m("T07-memory-new-method-writes-state")
def _():
    rep(MEM, "func (s *MemoryStore) Stats() (Stats, error) {", """// Quarantine parks a message (new operation, unknown to the model).
func (s *MemoryStore) Quarantine(id string) bool {
	s.mu.Lock()
	defer s.mu.Unlock()
	env := s.items[id]
	if env == nil || env.State != StateQueued {
		return false
	}
	env.State = StateDead
	env.DeadReason = "quarantine"
	return true
}

func (s *MemoryStore) Stats() (Stats, error) {""")


@m("T08-sqlite-new-method-writes-state")
def _():
    rep(SQL, "func (s *SQLiteStore) Stats() (Stats, error) {", """// Quarantine parks a message (new operation, unknown to the model).
func (s *SQLiteStore) Quarantine(id string) error {
	_, err := s.db.ExecContext(context.Background(), `UPDATE queue_items SET state = ? WHERE id = ?;`, string(StateDead), id)
	return err
}

func (s *SQLiteStore) Stats() (Stats, error) {""")


@m("T09-postgres-cancel-accepts-delivered")
def _():
    rep(PG, "[]string{string(StateQueued), string(StateLeased), string(StateDead)},", "[]string{string(StateQueued), string(StateLeased), string(StateDead), string(StateDelivered)},")


@m("T10-postgres-requeuedead-keeps-reason")
def _():
    rep(PG, """SET state = $1, lease_id = NULL, lease_until = NULL, next_run_at = $2, dead_reason = NULL
WHERE id = $3
  AND state = $4
`,
				string(StateQueued),
				now,
				id,
				string(StateDead),""", """SET state = $1, lease_id = NULL, lease_until = NULL, next_run_at = $2
WHERE id = $3
  AND state = $4
`,
				string(StateQueued),
				now,
				id,
				string(StateDead),""")


@m("T11-memory-filter-ignores-allowed-states")
def _():
    rep(MEM, """		if _, ok := allowedSet[env.State]; !ok {
			continue
		}
		if req.Route != "" && env.Route != req.Route {""", """		if req.Route != "" && env.Route != req.Route {""")


@m("T12-sqlite-batch-lookup-unguarded")
def _():
    rep(SQL, """		if state != string(StateLeased) {
			continue
		}
		if leaseUntilNanos.Valid {
			item.leaseUntil""", """		if leaseUntilNanos.Valid {
			item.leaseUntil""")


@m("T13-memory-dequeue-from-dead-too")
def _():
    rep(MEM, """			if env.State != StateQueued {
				continue
			}
			if req.Route != "" && env.Route != req.Route {""", """			if env.State != StateQueued && env.State != StateDead {
				continue
			}
			if req.Route != "" && env.Route != req.Route {""")


@m("T14-sqlite-markdead-to-canceled")
def _():
    rep(SQL, """			string(StateDead),
			now.UnixNano(),
			deadReason,
			leaseID,""", """			string(StateCanceled),
			now.UnixNano(),
			deadReason,
			leaseID,""")


@m("T15-memory-cancel-rewrites-route")
def _():
    rep(MEM, """		env.State = StateCanceled
		env.LeaseID = ""
		env.LeaseUntil = time.Time{}
		env.NextRunAt = now
		env.DeadReason = ""
		canceled++
	}

	return MessageCancelResponse{Canceled: canceled, Matched: canceled}, nil""", """		env.State = StateCanceled
		env.Route = ""
		env.LeaseID = ""
		env.LeaseUntil = time.Time{}
		env.NextRunAt = now
		env.DeadReason = ""
		canceled++
	}

	return MessageCancelResponse{Canceled: canceled, Matched: canceled}, nil""")


@m("T16-postgres-sweep-requeues-everything-expired")
def _():
    rep(PG, """WHERE state = $3
  AND lease_until IS NOT NULL
  AND lease_until <= $2
`,
		string(StateQueued),
		now.UTC(),
		string(StateLeased),
	)""", """WHERE lease_until IS NOT NULL
  AND lease_until <= $2
`,
		string(StateQueued),
		now.UTC(),
	)""")


@m("T17-new-state-constant")
def _():
    rep("internal/queue/queue.go", '	StateCanceled  State = "canceled"', '	StateCanceled  State = "canceled"\n	StatePaused    State = "paused"')


def run(name):
    subprocess.run(["git", "-C", WT, "checkout", "-q", "."], check=True)
    MUT[name]()
    b = subprocess.run(["go", "build", "./internal/..."], cwd=WT, env=ENV, capture_output=True, text=True)
    if b.returncode != 0:
        return name, "DOES-NOT-COMPILE", b.stderr[-400:], 0
    t0 = time.time()
    p = subprocess.run(["./check", "C02", "--tier", "quick"], cwd=VERIF, env=dict(os.environ, VERIF_REPO=WT), capture_output=True, text=True)
    keys = []
    try:
        keys = json.load(open(os.path.join(VERIF, "evidence", "C02.json")))["violation_keys"]
    except Exception:
        pass
    lines = [l for l in p.stdout.split("\n") if l.startswith("VIOLATION")]
    return name, "caught" if p.returncode == 1 else "MISSED rc=%d" % p.returncode, "%s | %s" % (keys[:6], "; ".join(l.split("replay=")[1][-40:] for l in lines[:3])), time.time() - t0


if __name__ == "__main__":
    names = sys.argv[1:] or sorted(MUT)
    for n in names:
        r = run(n)
        print("%-48s %-10s %5.0fs  %s" % (r[0], r[1], r[3], r[2]), flush=True)
    subprocess.run(["git", "-C", WT, "checkout", "-q", "."], check=True)
    # back to the tables of the unchanged tree
    subprocess.run(["go", "run", ".", "/repo", os.path.join(VERIF, "coq", "Gen")], cwd=os.path.join(VERIF, "translate"), env=ENV)
