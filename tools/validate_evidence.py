#!/usr/bin/env python3
"""validate_evidence.py -- run before committing evidence/: every evidence file must validate against
/root/.vp/EVIDENCE.schema.json and describe a quiet run (violations 0, discharged == obligations >= 1).
Exit 1 and name the files otherwise (a record written by a failing run must not be committed)."""
import glob, json, os, sys
here = os.path.dirname(os.path.dirname(os.path.abspath(__file__)))
try:
    import jsonschema
    schema = json.load(open("/root/.vp/EVIDENCE.schema.json"))
except Exception as e:      # schema or module absent: the structural rules below still run
    jsonschema, schema = None, None
    print("note: schema validation skipped (%r); run with python3-vt" % (e,))
bad = []
claimed = [c["property_id"] for c in json.load(open(os.path.join(here, "MANIFEST.json")))["checks"]]
for p in claimed:
    if not os.path.exists(os.path.join(here, "evidence", p + ".json")):
        bad.append((p, "evidence file missing"))
for f in sorted(glob.glob(os.path.join(here, "evidence", "*.json"))):
    name = os.path.basename(f)
    try:
        e = json.load(open(f))
        if jsonschema:
            jsonschema.validate(e, schema)
        c = e["coverage"]
        if e.get("violations"):
            bad.append((name, "violations = %r (record of a failing run)" % e["violations"]))
        if e["level"] == "proof" and not (c.get("obligations", 0) >= 1 and c.get("discharged") == c.get("obligations")):
            bad.append((name, "discharged %r != obligations %r" % (c.get("discharged"), c.get("obligations"))))
    except Exception as ex:
        bad.append((name, "invalid: %s" % str(ex)[:200]))
for n, why in bad:
    print("BAD %s: %s" % (n, why))
print("evidence files ok" if not bad else "%d problem(s)" % len(bad))
sys.exit(1 if bad else 0)
