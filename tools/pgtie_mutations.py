#!/usr/bin/env python3
"""Self-test of the static Postgres tie (C13pg): apply each edit to a scratch worktree of /repo, check that it
compiles, run the tie on it (python3 lib/pgtie.py check) and print the keys it reports.
Usage: python3 tools/pgtie_mutations.py [name ...]      (--full: run ./check C13 instead of the tie alone)"""
import os
import subprocess
import sys

VERIF = os.path.dirname(os.path.dirname(os.path.abspath(__file__)))
ENV = dict(os.environ, GOFLAGS="-mod=mod", GOPROXY="off")
PG, SQ = "internal/queue/postgres.go", "internal/queue/sqlite.go"

M = [
 ("delete-dead-without-state-guard", PG,
  "DELETE FROM queue_items\nWHERE id = $1\n  AND state = $2\n`,\n\t\t\t\tid,\n\t\t\t\tstring(StateDead),\n\t\t\t)\n\t\t\tif err != nil {\n\t\t\t\treturn DeadDeleteResponse{}, err",
  "DELETE FROM queue_items\nWHERE id = $1\n`,\n\t\t\t\tid,\n\t\t\t)\n\t\t\tif err != nil {\n\t\t\t\treturn DeadDeleteResponse{}, err"),
 ("dequeue-order-by-id", PG, "ORDER BY next_run_at ASC, received_at ASC, id ASC", "ORDER BY id ASC"),
 ("expired-lease-answered-not-found", PG, "\t\t\tcommitted = true\n\t\t\treturn ErrLeaseExpired", "\t\t\tcommitted = true\n\t\t\treturn ErrLeaseNotFound"),
 ("dequeue-without-expired-requeue", PG,
  "\tif err := s.requeueExpiredLeasesTx(ctx, tx, now); err != nil {\n\t\treturn DequeueResponse{}, err\n\t}\n", ""),
 ("batch-cap-1000", PG, "postgresMaxDequeueBatch = 100", "postgresMaxDequeueBatch = 1000"),
 ("lease-ttl-default-60s", PG, "leaseTTL = 30 * time.Second", "leaseTTL = 60 * time.Second"),
 ("list-limit-default-50", PG, "\t\tlimit := req.Limit\n\t\tif limit <= 0 {\n\t\t\tlimit = 100\n\t\t}\n\t\tif limit > postgresMaxListLimit {\n\t\t\tlimit = postgresMaxListLimit\n\t\t}\n\n\t\targs := make([]any, 0, 4)",
  "\t\tlimit := req.Limit\n\t\tif limit <= 0 {\n\t\t\tlimit = 50\n\t\t}\n\t\tif limit > postgresMaxListLimit {\n\t\t\tlimit = postgresMaxListLimit\n\t\t}\n\n\t\targs := make([]any, 0, 4)"),
 ("new-exported-method-with-sql", PG, "func (s *PostgresStore) now() time.Time {",
  "func (s *PostgresStore) PurgeDelivered() error {\n\t_, err := s.db.ExecContext(context.Background(), `DELETE FROM queue_items WHERE state = $1`, string(StateDelivered))\n\treturn err\n}\n\nfunc (s *PostgresStore) now() time.Time {"),
 ("new-unexported-helper-with-sql", PG, "func (s *PostgresStore) now() time.Time {",
  "func (s *PostgresStore) vacuumDead() error {\n\t_, err := s.db.ExecContext(context.Background(), `DELETE FROM queue_items WHERE state = 'dead'`)\n\treturn err\n}\n\nfunc (s *PostgresStore) now() time.Time {"),
 ("cancel-does-not-touch-dead", PG, "[]string{string(StateQueued), string(StateLeased), string(StateDead)},\n\t\t\tids,", "[]string{string(StateQueued), string(StateLeased)},\n\t\t\tids,"),
 ("requeue-dead-never-commits", PG, "\t\tif err := tx.Commit(); err != nil {\n\t\t\treturn DeadRequeueResponse{}, err\n\t\t}", "\t\tif err := error(nil); err != nil {\n\t\t\treturn DeadRequeueResponse{}, err\n\t\t}"),
 ("mark-dead-writes-canceled", PG, "\t\t\t\tstring(StateDead),\n\t\t\t\tnow,\n\t\t\t\tstrings.TrimSpace(reason),", "\t\t\t\tstring(StateCanceled),\n\t\t\t\tnow,\n\t\t\t\tstrings.TrimSpace(reason),"),
 ("expired-sweep-boundary", PG, "  AND lease_until <= $2\n", "  AND lease_until < $2\n"),
 ("queue-full-ignored", PG, "\t\t\t\tdefault:\n\t\t\t\t\treturn ErrQueueFull", "\t\t\t\tdefault:\n\t\t\t\t\treturn nil"),
 ("option-max-depth-zero-ignored", PG, "func WithPostgresQueueLimits(maxDepth int, dropPolicy string) PostgresOption {\n\treturn func(s *PostgresStore) {\n\t\tif maxDepth >= 0 {",
  "func WithPostgresQueueLimits(maxDepth int, dropPolicy string) PostgresOption {\n\treturn func(s *PostgresStore) {\n\t\tif maxDepth > 0 {"),
 ("sql-built-by-an-opaque-function", PG, "\t\trows, err := s.db.QueryContext(context.Background(), `\nSELECT id, route, state\nFROM queue_items\nWHERE id = ANY($1)\n`,\n\t\t\tids,",
  "\t\trows, err := s.db.QueryContext(context.Background(), strings.ToUpper(`\nSELECT id, route, state\nFROM queue_items\nWHERE id = ANY($1)\n`),\n\t\t\tids,"),
 ("sqlite-nack-accepts-expired-instant", SQ,
  "\t\t\tstring(StateQueued),\n\t\t\tsaturatingUnixNanoAfter(now, delay),", None),   # placeholder replaced below
 ("sqlite-dead-retention-boundary-like-postgres", SQ, "WHERE state = ?\n  AND received_at <= ?;\n`, string(StateDead), cutoff.UnixNano())", "WHERE state = ?\n  AND received_at < ?;\n`, string(StateDead), cutoff.UnixNano())"),
 ("sqlite-requeue-dead-any-state", SQ, "\targs = append(args, string(StateQueued), s.now().UnixNano(), string(StateDead))", "\targs = append(args, string(StateQueued), s.now().UnixNano(), string(StateCanceled))"),
]
# the SQLite Nack guard: lease_until > ?  ->  lease_until >= ?   (only the Nack statement)
NACK_OLD = "SET state = ?, lease_id = NULL, lease_until = NULL, next_run_at = ?, dead_reason = NULL\nWHERE lease_id = ?\n  AND state = ?\n  AND (lease_until IS NULL OR lease_until > ?);\n`,\n\t\t\tstring(StateQueued),"
NACK_NEW = "SET state = ?, lease_id = NULL, lease_until = NULL, next_run_at = ?, dead_reason = NULL\nWHERE lease_id = ?\n  AND state = ?\n  AND (lease_until IS NULL OR lease_until >= ?);\n`,\n\t\t\tstring(StateQueued),"
M = [(n, f, (NACK_OLD if new is None else old), (NACK_NEW if new is None else new)) for (n, f, old, new) in M]


def sh(cmd, **kw):
    return subprocess.run(cmd, stdout=subprocess.PIPE, stderr=subprocess.STDOUT, text=True, **kw)


def main():
    args = [a for a in sys.argv[1:] if not a.startswith("--")]
    full = "--full" in sys.argv
    results = []
    for (name, rel, old, new) in M:
        if args and name not in args:
            continue
        wt = "/tmp/wt-pgtie-%s" % name[:40]
        sh(["git", "-C", "/repo", "worktree", "remove", "--force", wt])
        r = sh(["git", "-C", "/repo", "worktree", "add", "--detach", wt, "HEAD"])
        try:
            p = os.path.join(wt, rel)
            src = open(p).read()
            if src.count(old) != 1:
                results.append((name, "EDIT-DOES-NOT-APPLY (%d matches)" % src.count(old), []))
                continue
            open(p, "w").write(src.replace(old, new))
            b = sh(["go", "build", "./internal/queue/"], cwd=wt, env=ENV)
            if b.returncode != 0:
                results.append((name, "DOES-NOT-COMPILE " + b.stdout[-300:], []))
                continue
            env = dict(ENV, VERIF_REPO=wt)
            if full:
                c = sh([os.path.join(VERIF, "check"), "C13", "--tier", "quick"], cwd=VERIF, env=env)
                lines = [l for l in c.stdout.split("\n") if l.startswith(("VIOLATION", "KNOWN"))]
                results.append((name, "exit=%d" % c.returncode, lines))
            else:
                c = sh([sys.executable, os.path.join(VERIF, "lib", "pgtie.py"), "check"], cwd=VERIF, env=env)
                lines = [l for l in c.stdout.split("\n") if l.strip()]
                res = [l for l in lines if l.startswith("RESULT")]
                results.append((name, res[0] if res else "NO RESULT: " + c.stdout[-400:], [l for l in lines if not l.startswith(("RESULT", "translator"))]))
        finally:
            sh(["git", "-C", "/repo", "worktree", "remove", "--force", wt])
    # leave coq/Gen/PgTie.v as generated from the unchanged tree
    sh([sys.executable, os.path.join(VERIF, "lib", "pgtie.py"), "check"], cwd=VERIF, env=dict(ENV, VERIF_REPO="/repo"))
    caught = 0
    for name, res, lines in results:
        ok = ("violations=0" not in res) and ("exit=0" not in res) and not res.startswith(("EDIT", "DOES", "NO RESULT"))
        caught += ok
        print("== %-46s %s   %s" % (name, "CAUGHT" if ok else "MISSED", res))
        for l in lines[:40]:
            print("     " + l)
    print("%d/%d caught" % (caught, len(results)))


if __name__ == "__main__":
    main()
