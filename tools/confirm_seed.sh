#!/bin/bash
# confirm_seed.sh <ID> <seed-name> <demo-rel-path> <go-test-run-regex> <pkg>
# Confirms a seeded defect in a scratch worktree and stores it under /verif/seeded/<seed-name>/
set -u
ID=$1; NAME=$2; DEMO_REL=$3; RUN=$4; PKG=$5
SRC=/tmp/seed-out/$ID
WT=/tmp/wtc-$NAME
export GOFLAGS=-mod=mod GOPROXY=off
git -C /repo worktree add -q --detach $WT HEAD || exit 2
cleanup() { git -C /repo worktree remove --force $WT; }
trap cleanup EXIT
cd $WT
cp $SRC/zz_seed_demo_test.go $WT/$DEMO_REL
go test -vet=off -count=1 -run "$RUN" $PKG > $SRC/confirm_demo_nopatch.log 2>&1; D0=$?
rm $WT/$DEMO_REL
git apply $SRC/patch.diff || { echo "patch does not apply"; exit 2; }
go build ./... > $SRC/confirm_build.log 2>&1; B=$?
go test -vet=off -count=1 ./... > $SRC/confirm_suite.log 2>&1; S=$?
cp $SRC/zz_seed_demo_test.go $WT/$DEMO_REL
go test -vet=off -count=1 -run "$RUN" $PKG > $SRC/confirm_demo_patch.log 2>&1; D1=$?
echo "demo_nopatch_rc=$D0 build_rc=$B suite_rc=$S demo_patch_rc=$D1"
if [ $D0 -eq 0 ] && [ $B -eq 0 ] && [ $S -eq 0 ] && [ $D1 -ne 0 ]; then
  mkdir -p /verif/seeded/$NAME
  cp $SRC/patch.diff /verif/seeded/$NAME/patch.diff
  cp $SRC/zz_seed_demo_test.go /verif/seeded/$NAME/zz_seed_demo_test.go
  cp $SRC/notes.md /verif/seeded/$NAME/notes.md
  cat > /verif/seeded/$NAME/meta.json <<EOF
{"property": "$ID", "name": "$NAME", "demo_path": "$DEMO_REL", "demo_cmd": "go test -vet=off -count=1 -run '$RUN' $PKG",
 "confirmed": {"demo_without_patch_rc": $D0, "build_rc": $B, "suite_with_patch_rc": $S, "demo_with_patch_rc": $D1},
 "needs": "see notes.md", "detected_by": "pending"}
EOF
  echo CONFIRMED
else
  echo NOT-CONFIRMED
fi
