#!/bin/bash
# thorough_group.sh CXX ... : thorough tier of each listed property, one summary line each (used with `vp run`)
./setup.sh > setup.log 2>&1
for p in "$@"; do
  echo "== $p"
  ./check $p --tier thorough > thorough-$p.out 2>&1
  rc=$?
  grep -E '^(VIOLATION|Traceback|RuntimeError)' thorough-$p.out | head -8
  python3 - "$p" "$rc" <<'PY'
import json,sys
p,rc=sys.argv[1],sys.argv[2]
try:
    e=json.load(open('evidence/%s.json'%p)); c=e.get('coverage',{})
    print('rc=%s wall=%s evaluations=%s nontrivial=%s violations=%s known=%s'%(rc,e.get('wall_s') or c.get('wall_s'),c.get('evaluations'),c.get('distinct_nontrivial'),len(e.get('violations',[])) if isinstance(e.get('violations'),list) else e.get('violations'),len(e.get('known_findings',[])) if isinstance(e.get('known_findings'),list) else ''))
except Exception as ex:
    print('rc=%s (no evidence: %r)'%(rc,ex))
PY
done
