"""C06: the store calls of the REAL PushDispatcher.runRoute per micro-batch (harness mode dispatch-stop), judged twice:
  (1) by the property: every message that was SENT gets exactly one settlement of the kind its answer and attempt number prescribe
      (ack / nack with the back-off of ITS attempt / mark-dead with the reason), a leased message whose target the route does not
      configure is retried after a second, a message leased but not reached before Drain is handed back at once - nothing is left
      leased, nothing settled twice;
  (2) against the op program of the Coq model (Model/PushLoop.v run_items), per micro-batch, up to the order of calls.
The stop index is a schedule outcome: every index consistent with the set of messages that were sent is tried."""
import json
import os

from lib import common as C
from lib import fpq

KIND_NUM = {"status": 0, "net": 1, "timeout": 2, "policy": 3, "policy_wrapped": 4, "other": 5}
REASONS = {"no_retry": 1, "policy_denied": 2, "max_retries": 3}

DEFS = """From HK Require Import Model.Queue Model.Retry Model.Dispatcher Model.PushLoop."""


def gen_cases(rng, tier):
    cases = []
    n = 36 if tier == "quick" else 240
    results = [("status", 200), ("status", 204), ("status", 503), ("status", 500), ("status", 429), ("status", 408), ("status", 404),
               ("status", 400), ("status", 302), ("status", 101), ("net", 0), ("timeout", 0), ("policy", 0), ("policy_wrapped", 0), ("other", 0)]
    for i in range(n):
        conc = rng.choice([1, 2, 2, 3, 4, 4, 8])
        targets = 2 if i % 4 == 3 else 1
        nm = rng.randint(2, 9)
        mx = rng.choice([1, 2, 3])
        msgs = []
        for m in range(nm):
            kind, code = rng.choice(results)
            tgt = rng.randrange(targets)
            if rng.random() < 0.12:
                tgt = -1
            msgs.append({"id": "m%02d" % m, "target": tgt, "pre": rng.choice([0, 0, 0, 1, mx - 1, mx, mx + 1]), "kind": kind, "code": code})
        # half of the cases stop while a delivery is in flight (any position), the rest run to quiescence
        stop_at = rng.randrange(nm) if i % 2 == 0 else -1
        cases.append({"concurrency": conc, "targets": targets, "batch_store": (i % 3 != 2), "backend": "sqlite" if i % 5 == 4 else "memory",
                      "retry_max": mx, "base_ns": 10 ** 9, "cap_ns": 8 * 10 ** 9, "stop_at": stop_at, "messages": msgs})
    # messages that left the active set (dead-lettered / canceled) while a thousand others passed through, and were then brought back by
    # the operator: a new cycle starts - they are sent and settled like any other (memory and SQLite)
    for backend in ("memory", "sqlite"):
        for conc in (1, 2):
            msgs = [{"id": "d%02d" % m, "target": 0, "pre": 0, "kind": k, "code": cd, "detour": dt}
                    for m, (k, cd, dt) in enumerate([("status", 200, "dead-requeue"), ("status", 503, "cancel-resume"), ("status", 404, "cancel-requeue"),
                                                     ("status", 200, ""), ("status", 200, "dead-requeue")])]
            cases.append({"concurrency": conc, "targets": 1, "batch_store": True, "backend": backend, "retry_max": 2, "base_ns": 10 ** 9, "cap_ns": 8 * 10 ** 9,
                          "stop_at": -1, "warmup": 1300 if backend == "memory" else 300, "messages": msgs, "_fixed": True})
    # fixed shapes: Drain during the first delivery of a full micro-batch of every settlement kind
    for bs in (True, False):
        for (kind, code, pre) in (("status", 200, 0), ("status", 503, 0), ("status", 503, 5), ("status", 404, 0), ("policy", 0, 0)):
            for conc in (2, 4):
                msgs = [{"id": "f%02d" % m, "target": 0, "pre": pre, "kind": kind, "code": code} for m in range(4)]
                for stop_at in (0, 1, 2):
                    cases.append({"concurrency": conc, "targets": 1, "batch_store": bs, "backend": "memory", "retry_max": 2, "base_ns": 10 ** 9,
                                  "cap_ns": 8 * 10 ** 9, "stop_at": stop_at, "messages": msgs, "_fixed": True})
    return cases


def prop_action(kind, code, attempt, mx):
    """0 ack, 1 nack, 2 dead no_retry, 3 dead policy_denied, 4 dead max_retries (the property's table)"""
    if kind in (3, 4):
        return 3
    if kind in (1, 2, 5):
        return 1 if attempt <= mx else 4
    if 200 <= code <= 299:
        return 0
    if code in (408, 429) or code >= 500:
        return 1 if attempt <= mx else 4
    return 2


def backoff(base, cap, attempt):
    return min(base * 2 ** (attempt - 1), cap)


def canon_call(c, lease_no):
    """('one'|'batch', kind, arg, sorted lease numbers)"""
    op = c["op"]
    batch = op.endswith("_batch")
    k = op[:-6] if batch else op
    if k == "ack":
        kd = (0, 0)
    elif k == "nack":
        kd = (1, c.get("delay_ns", 0))
    else:
        kd = (2, REASONS.get(c.get("reason", ""), 99))
    return (1 if batch else 0, kd[0], kd[1], tuple(sorted(lease_no[l] for l in c["leases"] if l in lease_no)))


def judge(case, out, report, stats):
    """property-level judgement of one run; returns the micro-batches for the model comparison"""
    mx, base, cap = case["retry_max"], case["base_ns"], case["cap_ns"]
    script = {m["id"]: m for m in case["messages"]}
    for k in ("sends", "calls", "final"):
        out[k] = out.get(k) or []
    if out.get("err"):
        report("harness", "the dispatch-stop harness failed: %s" % out["err"], {})
        return []
    sent_leases = {}
    for s_ in out["sends"]:
        sent_leases[s_["lease"]] = sent_leases.get(s_["lease"], 0) + 1
    batches = []
    for c in out["calls"]:
        if c["op"] == "dequeue":
            batches.append(c["items"])
    settle = {}
    for c in out["calls"]:
        if c["op"] == "dequeue":
            continue
        for l in c["leases"]:
            settle.setdefault(l, []).append(c)
    stats["batches"] += len(batches)
    for items in batches:
        stats["batch_sizes"][len(items)] = stats["batch_sizes"].get(len(items), 0) + 1
        for it in items:
            m = script[it["id"]]
            known = m["target"] >= 0
            calls = settle.get(it["lease"], [])
            was_sent = sent_leases.get(it["lease"], 0) > 0
            if sent_leases.get(it["lease"], 0) > 1:
                report("loop-settlement:sent-twice-under-one-lease", "message %s was sent %d times under one lease" % (it["id"], sent_leases[it["lease"]]),
                       {"kind": "request", "case": {k: v for k, v in case.items() if not k.startswith("_")}, "all_calls": out["calls"], "sends": out["sends"]})
            if was_sent and not known:
                report("loop-settlement:sent-to-unconfigured-target", "message %s was sent although the route does not configure its target" % it["id"],
                       {"kind": "request", "case": {k: v for k, v in case.items() if not k.startswith("_")}, "all_calls": out["calls"], "sends": out["sends"]})
            stats["items"] += 1
            what = "sent" if was_sent else ("unknown-target" if not known else "not-reached")
            stats["item_kinds"][what] = stats["item_kinds"].get(what, 0) + 1
            detail = {"kind": "request", "case": {k: v for k, v in case.items() if not k.startswith("_")}, "message": it, "store_calls_for_its_lease": calls,
                      "all_calls": out["calls"], "sends": out["sends"], "final": out["final"]}
            if len(calls) == 0:
                act = prop_action(KIND_NUM[m["kind"]], m["code"], it["attempt"], mx) if was_sent else None
                cls = {None: "handed-back", 0: "ack", 1: "nack", 2: "dead", 3: "dead", 4: "dead"}[act]
                report("loop-settlement:%s-never-settled:%s" % (what, cls),
                       "message %s (attempt %d) was leased by the dispatcher%s but no lease mutation was ever issued for its lease: it stays leased until the "
                       "lease runs out and is then delivered again" % (it["id"], it["attempt"], " and SENT to its target" if was_sent else ""), detail)
                continue
            if len(calls) > 1:
                report("loop-settlement:%s-settled-twice" % what, "message %s: %d lease mutations for one lease" % (it["id"], len(calls)), detail)
                continue
            c = calls[0]
            k = c["op"][:-6] if c["op"].endswith("_batch") else c["op"]
            if was_sent:
                act = prop_action(KIND_NUM[m["kind"]], m["code"], it["attempt"], mx)
                want = {0: ("ack", None), 1: ("nack", backoff(base, cap, it["attempt"])), 2: ("dead", "no_retry"), 3: ("dead", "policy_denied"),
                        4: ("dead", "max_retries")}[act]
                got = (k, c.get("delay_ns", 0) if k == "nack" else (c.get("reason") if k == "dead" else None))
                if got != want:
                    report("loop-settlement:sent-wrong-settlement:%s" % want[0],
                           "message %s (attempt %d, answer %s/%s, retry.max %d) was settled with %s, the property prescribes %s" %
                           (it["id"], it["attempt"], m["kind"], m["code"], mx, got, want), detail)
            elif not known:
                # retried after the missing-target back-off, or handed back at once when the dispatcher was stopping
                if k != "nack" or c.get("delay_ns", 0) not in (0, 10 ** 9):
                    report("loop-settlement:unknown-target", "message %s for a target the route does not configure was settled with %s" % (it["id"], c), detail)
            else:
                if k != "nack" or c.get("delay_ns", 0) != 0:
                    report("loop-settlement:not-reached", "message %s was never sent but was settled with %s instead of being handed back" % (it["id"], c), detail)
    # every attempt is recorded with its outcome: one record per send - carrying the message's attempt number, the answered status and the
    # outcome (and dead reason) of the settlement the answer prescribes -, none for a message that was not sent
    recs = {}
    for a in out.get("attempts") or []:
        recs.setdefault((a["event"], a["attempt"]), []).append(a)
    stats["attempt_records"] = stats.get("attempt_records", 0) + len(out.get("attempts") or [])
    cdict = {k: v for k, v in case.items() if not k.startswith("_")}
    for items in batches:
        for it in items:
            m = script[it["id"]]
            was_sent = sent_leases.get(it["lease"], 0) > 0
            got = recs.get((it["id"], it["attempt"]), [])
            detail = {"kind": "request", "case": cdict, "message": it, "attempt_records_for_it": got, "all_attempt_records": (out.get("attempts") or [])[:60],
                      "sends": out["sends"]}
            if not was_sent:
                if got:
                    report("loop-attempt-record:recorded-without-send", "message %s (attempt %d) was not sent, yet %d attempt record(s) exist for it: %s" %
                           (it["id"], it["attempt"], len(got), got), detail)
                continue
            if len(got) != 1:
                report("loop-attempt-record:%s" % ("missing" if not got else "recorded-twice"),
                       "message %s was sent on attempt %d; %d attempt record(s) were written for that send" % (it["id"], it["attempt"], len(got)), detail)
                continue
            act = prop_action(KIND_NUM[m["kind"]], m["code"], it["attempt"], mx)
            want_out = {0: "acked", 1: "retry", 2: "dead", 3: "dead", 4: "dead"}[act]
            want_reason = {2: "no_retry", 3: "policy_denied", 4: "max_retries"}.get(act, "")
            g = got[0]
            if g["outcome"] != want_out or (g.get("reason") or "") != want_reason or (m["kind"] == "status" and g["status"] != m["code"]) or \
                    g["has_err"] != (m["kind"] != "status"):
                report("loop-attempt-record:wrong-outcome:%s" % want_out,
                       "message %s (attempt %d, answer %s/%s, retry.max %d) was recorded as %s; the settlement the answer prescribes is recorded as outcome %s "
                       "reason %r with the answered status" % (it["id"], it["attempt"], m["kind"], m["code"], mx, g, want_out, want_reason), detail)
    # a run to quiescence: every message of the route that the route's targets cover has been leased (and hence settled) at least once
    if case["stop_at"] < 0:
        leased_ids = {it["id"] for items in batches for it in items}
        for m in case["messages"]:
            if m["target"] >= 0 and m["id"] not in leased_ids:
                f = next((x for x in out["final"] if x["id"] == m["id"]), None)
                report("loop-settlement:never-dequeued:%s" % (m.get("detour") or "plain"),
                       "message %s (%s) is ready on the route but the dispatcher was never handed it: final state %s - it is neither delivered nor dead-lettered" %
                       (m["id"], m.get("detour") or "enqueued", f),
                       {"kind": "request", "case": {k: v for k, v in case.items() if not k.startswith("_")}, "final": out["final"], "all_calls": out["calls"][:40]})
    # nothing may stay leased once the dispatcher has drained
    for f in out["final"]:
        if f["state"] == "leased" and out.get("drained"):
            stats["left_leased"] += 1
    return batches, settle, sent_leases


def run(ctx, H, rng, tier, model_ok, report):
    cases = gen_cases(rng, tier)
    stats = {"cases": len(cases), "batches": 0, "items": 0, "batch_sizes": {}, "item_kinds": {}, "left_leased": 0, "model_batches": 0,
             "model_mismatches": 0, "stop_cases": sum(1 for c in cases if c["stop_at"] >= 0)}
    req = {"dir": os.path.join(ctx.scratch, "stores"), "cases": [{k: v for k, v in c.items() if not k.startswith("_")} for c in cases]}
    rc, out, err = C.harness_run(H, ["dispatch-stop"], req, timeout=1200)
    if rc != 0:
        ctx.notes.append("dispatch-stop not available: " + err[-300:])
        return stats, None
    outs = json.loads(out)["cases"]
    terms, meta = [], []
    rterms, rmeta = [], []
    for case, o in zip(cases, outs):
        res = judge(case, o, report, stats)
        if not res:
            continue
        batches, settle, sent_leases = res
        script = {m["id"]: m for m in case["messages"]}
        use_batch = case["targets"] == 1
        for items in batches:
            lease_no = {it["lease"]: i + 1 for i, it in enumerate(items)}
            impl = sorted(set(canon_call(c, lease_no) for it in items for c in settle.get(it["lease"], [])))
            # every stop index consistent with which of the items were sent
            known = [script[it["id"]]["target"] >= 0 for it in items]
            sent = [sent_leases.get(it["lease"], 0) > 0 for it in items]
            cands = []
            for s in range(len(items) + 1):
                if all(sent[i] for i in range(s) if known[i]) and not any(sent[i] for i in range(s, len(items))):
                    cands.append(s)
            xs = []
            for it in items:
                m = script[it["id"]]
                xs.append("(%d, %d, %s, (%d, %d))" % (lease_no[it["lease"]], it["attempt"], "true" if m["target"] >= 0 else "false", KIND_NUM[m["kind"]], m["code"]))
            order = {(a["event"], a["attempt"]): i for i, a in enumerate(o.get("attempts") or [])}
            impl_recs = []
            for it in sorted((it for it in items if (it["id"], it["attempt"]) in order), key=lambda it: order[(it["id"], it["attempt"])]):
                a = (o.get("attempts") or [])[order[(it["id"], it["attempt"])]]
                m = script[it["id"]]
                impl_recs.append([lease_no[it["lease"]], a["attempt"], {"retry": 1, "acked": 2, "dead": 3}.get(a["outcome"], 9), REASONS.get(a.get("reason") or "", 0),
                                  a["status"] if m["kind"] == "status" else 0])
            for s in cands:
                rterms.append("((%d, %d, %d), %d, [%s])" % (case["retry_max"], case["base_ns"], case["cap_ns"], s, "; ".join(xs)))
                rmeta.append((case, o, items, impl_recs, s))
            for s in cands:
                terms.append("((%d, %d, %d), %s, %s, %d, %d, [%s])" % (case["retry_max"], case["base_ns"], case["cap_ns"], "true" if use_batch else "false",
                                                                     "true" if case["batch_store"] else "false", o["mutation_batch"], s, "; ".join(xs)))
                meta.append((case, o, items, impl, s, len(cands)))
    mres = None
    if model_ok and terms:
        mres, log = fpq.coq_map_eval(ctx, "c06loopcalls", DEFS, "loop_case", terms)
        if mres is None:
            ctx.notes.append("model evaluation c06loopcalls failed: %s" % log[-600:])
    if mres is not None:
        # group candidates of one micro-batch: it agrees when any candidate stop index reproduces the calls
        by_batch = {}
        for (case, o, items, impl, s, ncand), calls in zip(meta, mres):
            model = sorted(set((c[0], c[1], c[2], tuple(sorted(c[3:]))) for c in calls))
            key = id(items)
            e = by_batch.setdefault(key, {"case": case, "items": items, "impl": impl, "models": [], "out": o})
            e["models"].append((s, model))
        for e in by_batch.values():
            stats["model_batches"] += 1
            if not any(m == e["impl"] for _, m in e["models"]):
                stats["model_mismatches"] += 1
                report("loop-model:calls-differ",
                       "the store calls the dispatcher made for one micro-batch are not the ones Model/PushLoop.v run_items gives for any stop index "
                       "consistent with the messages that were sent (calls as (batched?, kind, delay|reason, lease numbers)): implementation %s, model %s" %
                       (e["impl"], e["models"]),
                       {"kind": "request", "case": {k: v for k, v in e["case"].items() if not k.startswith("_")}, "items": e["items"],
                        "implementation_calls": e["impl"], "model_calls_by_stop_index": e["models"], "all_calls": e["out"]["calls"], "sends": e["out"]["sends"]})
    # the attempt records of every micro-batch against Model/PushLoop.v run_records
    rres = None
    if model_ok and rterms:
        rres, log = fpq.coq_map_eval(ctx, "c06looprecs", DEFS, "records_case", rterms)
        if rres is None:
            ctx.notes.append("model evaluation c06looprecs failed: %s" % log[-600:])
    if rres is not None:
        by_batch = {}
        for (case, o, items, impl_recs, s), rows in zip(rmeta, rres):
            e = by_batch.setdefault(id(items), {"case": case, "items": items, "impl": impl_recs, "models": [], "out": o})
            e["models"].append((s, [list(r) for r in rows]))
        stats["model_record_batches"] = len(by_batch)
        for e in by_batch.values():
            if not any(m == e["impl"] for _, m in e["models"]):
                stats["model_mismatches"] += 1
                report("loop-model:records-differ",
                       "the attempt records the dispatcher wrote for one micro-batch are not the ones Model/PushLoop.v run_records gives for any stop index "
                       "consistent with the messages that were sent (records as lease number, attempt, outcome 1 retry 2 acked 3 dead, reason, status): "
                       "implementation %s, model %s" % (e["impl"], e["models"]),
                       {"kind": "request", "case": {k: v for k, v in e["case"].items() if not k.startswith("_")}, "items": e["items"],
                        "implementation_records": e["impl"], "model_records_by_stop_index": e["models"], "all_attempt_records": (e["out"].get("attempts") or [])[:60]})
    return stats, mres
