"""Helpers shared by props/c10.py and props/c11.py: hex <-> Coq byte lists, parsing of
nested number lists printed by coqc, the strfuncs correspondence (Coq byte models vs the
Go functions they mirror)."""
import re

from lib import common as C


def hx(s):
    if isinstance(s, str):
        s = s.encode("utf-8", "surrogateescape")
    return s.hex()


def unhx(h):
    return bytes.fromhex(h)


def show(h):
    """printable form of a hex string (for replay files / messages)"""
    return unhx(h).decode("latin-1").encode("unicode_escape").decode("ascii")


def cb(h):
    """hex string -> Coq bytes literal"""
    return "[" + ";".join(str(x) for x in unhx(h)) + "]"


def cbs(hs):
    return "[" + "; ".join(cb(h) for h in (hs or [])) + "]"


def cpairs(ps):
    return "[" + "; ".join("(%s, %s)" % (cb(a), cb(b)) for a, b in (ps or [])) + "]"


def ckv(kvs):
    """[{k:hex, v:[hex]}] -> list (bytes * list bytes)"""
    return "[" + "; ".join("(%s, %s)" % (cb(e["k"]), cbs(e["v"])) for e in (kvs or [])) + "]"


def parse_nested(out, name):
    """Find '<name> = <nested list of numbers>' in coqc output; returns python nested lists of int."""
    flat = " ".join(out.split())
    m = re.search(r"\b" + re.escape(name) + r"\s*=\s*(\[.*?\])\s*:\s*list", flat)
    if not m:
        return None
    txt = m.group(1).replace("%N", "").replace("%nat", "")
    pos = 0

    def parse():
        nonlocal pos
        assert txt[pos] == "["
        pos += 1
        items = []
        while True:
            while txt[pos] in " ;":
                pos += 1
            if txt[pos] == "]":
                pos += 1
                return items
            if txt[pos] == "[":
                items.append(parse())
            else:
                j = pos
                while txt[j].isdigit():
                    j += 1
                items.append(int(txt[pos:j]))
                pos = j
    return parse()


PRELUDE = """From Coq Require Import List NArith Bool.
From HK Require Import Model.RBytes Model.PathClean Model.PathMatch Model.HostMatch Model.Resolve Model.Bearer Model.PullAuthCompile.
Import ListNotations.
Open Scope N_scope.
"""


def strfuncs_model_body(inp):
    """Coq file evaluating the byte models on the strfuncs input (hex strings)."""
    b = [PRELUDE]
    b.append("Definition o2l (o : option bytes) : list N := match o with Some x => 1 :: x | None => [0] end.")
    b.append("Definition b2n (x : bool) : N := if x then 1 else 0.")
    b.append("Definition S_clean := Eval vm_compute in map clean %s.\nPrint S_clean." % cbs(inp["paths"]))
    b.append("Definition S_base := Eval vm_compute in map base %s.\nPrint S_base." % cbs(inp["paths"]))
    b.append("Definition S_norm := Eval vm_compute in map normalize_host %s.\nPrint S_norm." % cbs(inp["hosts"]))
    b.append("Definition S_trim := Eval vm_compute in map trim %s.\nPrint S_trim." % cbs(inp["trims"]))
    b.append("Definition S_split := Eval vm_compute in map (fun s => o2l (split_host_port s)) %s.\nPrint S_split." % cbs(inp["hostports"]))
    b.append("Definition S_canon := Eval vm_compute in map canon_key %s.\nPrint S_canon." % cbs(inp["keys"]))
    b.append("Definition S_mpath := Eval vm_compute in map (fun pr => b2n (match_path (fst pr) (snd pr))) %s.\nPrint S_mpath." % cpairs(inp["path_pairs"]))
    b.append("Definition S_mhost := Eval vm_compute in map (fun pr => b2n (match_hosts (fst pr) [snd pr])) %s.\nPrint S_mhost." % cpairs(inp["host_pairs"]))
    return "\n".join(b) + "\n"


def strfuncs_compare(ctx, info, inp, report_prefix, replay_extra=None):
    """Run Go and the Coq models on the same strings. Returns (evaluations, mismatches list)."""
    import json
    rc, out, err = C.harness_run(info["hbin"], ["strfuncs"], inp)
    if rc != 0:
        raise RuntimeError("strfuncs failed: " + err[-2000:])
    go = json.loads(out)
    rc, cout = C.coq_eval_cases(ctx, "strfuncs_" + report_prefix, strfuncs_model_body(inp))
    if rc != 0:
        raise RuntimeError("strfuncs model evaluation failed: " + cout[-2000:])
    mism = []
    n = 0

    def hexl(nums):
        return bytes(nums).hex()

    def cmp_list(name, inputs, model, impl, conv):
        nonlocal n
        impl = impl or []
        if model is None or len(model) != len(inputs) or len(impl) != len(inputs):
            raise RuntimeError("strfuncs: bad lengths for %s (%s / %s / %s)" % (name, len(inputs), None if model is None else len(model), len(impl)))
        for x, m, g in zip(inputs, model, impl):
            n += 1
            if conv(m) != g:
                mism.append({"func": name, "input": x, "model": conv(m), "impl": g})

    cmp_list("path.Clean", inp["paths"], parse_nested(cout, "S_clean"), go["clean"], hexl)
    cmp_list("path.Base", inp["paths"], parse_nested(cout, "S_base"), go["base"], hexl)
    if "normalizeHost" in (go.get("helpers_missing") or []):
        # the helper twin is gone from the source: its model is then tied through matchHosts/resolveIngress only
        C.report(ctx, "helper-twin-missing:normalizeHost", "run.go no longer has a function normalizeHost(string) string: Model normalize_host is compared "
                 "through the resolver's host matching only", {"kind": "obligation", "no_failing_input_found": True, "names": "correspondence normalizeHost <-> Model normalize_host"})
    else:
        cmp_list("normalizeHost", inp["hosts"], parse_nested(cout, "S_norm"), go["norm_host"], hexl)

    cmp_list("strings.TrimSpace", inp["trims"], parse_nested(cout, "S_trim"), go["trim"], hexl)
    cmp_list("net.SplitHostPort", inp["hostports"], parse_nested(cout, "S_split"), go["split_host"],
             lambda m: (hexl(m[1:]) if m[0] == 1 else None))
    cmp_list("CanonicalHeaderKey", inp["keys"], parse_nested(cout, "S_canon"), go["canon"], hexl)
    cmp_list("router.MatchPath", inp["path_pairs"], parse_nested(cout, "S_mpath"), go["match_path"], lambda m: m == 1)
    if "matchHosts" in (go.get("helpers_missing") or []):
        C.report(ctx, "helper-twin-missing:matchHosts", "run.go no longer has a function matchHosts(string, []string) bool: Model match_hosts is compared "
                 "through the resolver (configuration x request runs) only", {"kind": "obligation", "no_failing_input_found": True, "names": "correspondence matchHosts <-> Model match_hosts"})
    else:
        cmp_list("matchHosts", inp["host_pairs"], parse_nested(cout, "S_mhost"), go["match_host"], lambda m: m == 1)
    return n, mism


class Collector:
    """Collect violations, then report only the smallest few cases per key (cheap minimisation:
    the failing case with the fewest routes / shortest configuration is the replay)."""

    def __init__(self):
        self.items = {}
        self.count = {}

    def add(self, key, size, what, obj):
        self.count[key] = self.count.get(key, 0) + 1
        lst = self.items.setdefault(key, [])
        lst.append((size, len(lst), what, obj))
        if len(lst) > 64:
            lst.sort(key=lambda t: (t[0], t[1]))
            del lst[8:]

    def flush(self, ctx, per_key=2, priority=None):
        prio = priority or (lambda k: 0)
        for key in sorted(self.items, key=lambda k: (prio(k), k)):
            lst = sorted(self.items[key], key=lambda t: (t[0], t[1]))[:per_key]
            for size, _, what, obj in lst:
                obj = dict(obj)
                obj["failing_cases_with_this_key"] = self.count[key]
                C.report(ctx, key, what, obj)


def read_redirect(ctx, name):
    """text written by `Redirect "<name>" Print x.` in a scratch case file (coqc runs with cwd = <scratch>/cases)"""
    import os
    p = os.path.join(ctx.scratch, "cases", name + ".out")
    try:
        return open(p).read()
    except OSError:
        return ""
