"""C14 (and the audit clause of C20): the MCP queue tools in Admin-proxy mode.

When the compiled queue backend is not SQLite the MCP server does not open a database: messages_cancel / requeue /
resume, the *_by_filter forms, dlq_requeue / dlq_delete and the listing tools call the Admin API over HTTP
(internal/mcp/server.go callAdminJSON).  Harness command `manageproxy`: the REAL admin.Server wired by the real
app.startServers on a memory store behind its real listener, the real MCP server reading a configuration file with
`queue { backend memory }` (so it picks the proxy path by itself), and between the two a forwarder that does, per HTTP
request, what the call's script says: pass / close or reset before reading / forward, let the handler finish and drop
the answer / cut the answer short / answer 4xx-5xx itself / hold the request beyond the client's timeout (and then drop
or deliver it) / nobody listens.  Model side: Model/ManageProxy.v (proxy_request = MCP validation ; callAdminJSON's
attempt loop ; admin_request of Model/ManageGlue.v), evaluated by coqc on the same populations, calls and fault scripts.

Judgements per call:
  (a) the property on what the implementation did (no model): at most one state-changing request is served per call
      whatever the faults; an error result changed nothing - or, when the script lost an answer, exactly what the one
      request selects; an accepted call changes exactly the selection, at most `limit`, and reports the number of rows
      changed; previews change nothing; every failure is visible as isError; listings change nothing and show stored rows;
  (b) tool result, number of requests sent / served, the request itself (endpoint, selector, ids, filter fields, limit,
      preview flag, audit headers, bearer token) and the changed rows against the model;
  (c) exactly one MCP audit record per call of a mutating tool (reported by audit_probe_proxy for C20)."""
import json
import os
import random
import re
import threading
import time as _time
import calendar

from lib import common as C
from lib import queuecheck as Q
from lib import c14admin as A

PREFIX = "/adm"
HZM = 1000000007
KIND_N = {"cancel": 1, "requeue": 2, "resume": 3, "requeue_dead": 4, "delete_dead": 5}
FKIND_N = {"cancel": 1, "requeue": 2, "resume": 3}
PATH_IDS = {v: k for k, v in A.IDS_PATH.items()}
MODEL_FAULT = {"pass": "FtPass", "close": "FtNoReach", "reset": "FtNoReach", "delay_drop": "FtNoReach", "refuse": "FtNoReach",
               "lost": "FtLost", "delay_late": "FtLost", "truncated": "FtGarbled"}
DELIVERING = ("pass", "lost", "truncated", "delay_late")       # behaviours under which the handler runs
LIST_TOOLS = ("messages_list", "dlq_list")


def model_fault(b):
    if b in MODEL_FAULT:
        return MODEL_FAULT[b]
    return "(FtStatus %d)" % int(b[1:])


def proxy_config(cf, token=None):
    text, intent = A.make_config(cf)
    text = text.replace('  pull { path', '  queue { backend memory }\n  pull { path')
    if token is not None:
        text = text.replace('raw:%s' % A.ADMIN_TOKEN, 'raw:%s' % token)
    return text, intent


def hz(xs):
    a = 7
    for x in xs:
        a = (a * 131 + x + 1) % HZM
    return a


def hbytes(s):
    return hz(list(s.encode()))


def coq_paudit(args):
    wf = all(isinstance(args[k], str) for k in ("reason", "actor", "request_id") if k in args)
    g = lambda k: args[k].strip() if isinstance(args.get(k), str) else ""
    reason, actor, reqid = g("reason"), g("actor"), g("request_id")
    if len(reason) > 512 or len(actor or A.PRINCIPAL) > 256 or len(reqid) > 256:
        wf = False
    return "(mkPA %s %s %s %s)" % (C.coq_bool(wf), A.cbytes(reason), A.cbytes(actor), A.cbytes(reqid))


def proxy_term(c):
    p = c["parts"]
    if c["kind"] == "ids":
        return "(PtIds %s (mkXI %s %s %s))" % (A.KIND[c["verb"]], C.coq_bool(p["unknown"]), coq_paudit(c["args"]), p["body"])
    return "(PtFilter %s (mkXF %s %s %s %s %s %s %s %s %s %s %s))" % (
        A.FKIND[c["verb"]], C.coq_bool(p["unknown"]), C.coq_bool(p["wf"]), coq_paudit(c["args"]), p["route"], p["app"], p["ep"],
        p["target"], p["state"], p["before"], p["limit"], C.coq_bool(p["preview"]))


# ---------------------------------------------------------------------------
# groups

def candidates(pop_rows, verb, route=None, state=None):
    return [m for m in pop_rows if m["st"] in A.ALLOWED[verb] and (route is None or m["route"] == route) and (state is None or m["st"] == state)]


def forced_fault_calls(rng, intent, pop, recvs, tier):
    """calls placed first (the population is still the generated one): accepted, state-changing, with more candidates
    than `limit`, under scripts that lose or refuse the one request and would let a second one through"""
    rows = [dict(m, st={"retried": "queued", "canceled_dead": "canceled"}.get(m["want"], m["want"])) for m in pop]
    unmanaged = [r for r in intent["routes"] if r not in intent["owners"]]
    calls = []
    scripts = [["lost", "pass"], ["truncated", "pass"], ["reset", "pass"], ["close", "pass"], ["s503", "pass"], ["lost"], ["s500"],
               ["s429", "pass"], ["refuse"]]
    if tier != "quick":
        scripts += [["s502", "pass"], ["s504", "lost"], ["s408", "pass"], ["lost", "lost"], ["truncated"], ["close"]]
    rng.shuffle(scripts)
    k = 0
    for verb in ("cancel", "requeue", "resume"):
        best = None
        for route in unmanaged:
            for state in A.ALLOWED[verb]:
                n = len(candidates(rows, verb, route, state))
                if best is None or n > best[0]:
                    best = (n, route, state)
        n, route, state = best
        for lim in ((1, 2) if tier == "quick" else (1, 2, 3)):
            f = dict(route=route, state=state, limit=lim)
            calls.append(filter_call_exact(verb, f, scripts[k % len(scripts)], "fault-filter"))
            k += 1
            # whatever the script did, the selection changes state: rows leave `state`
            for m in sorted(candidates(rows, verb, route, state), key=lambda m: (m["recv"], m["id"]), reverse=True)[:lim]:
                m["st"] = "moved"
    for verb in A.IDS_PATH:
        pool = [m["id"] for m in candidates(rows, verb) if m["route"] in unmanaged]
        if len(pool) >= 2:
            ids = rng.sample(pool, 2) + ["zz%06d" % rng.randrange(1, 50)]
            calls.append(ids_call_exact(verb, ids, scripts[k % len(scripts)], "fault-ids"))
            k += 1
            for m in rows:
                if m["id"] in ids:
                    m["st"] = "moved"
    return calls


def ids_call_exact(verb, ids, script, tag, extra_args=None):
    args = {"reason": "verif", "ids": list(ids)}
    if extra_args:
        args.update(extra_args)
    body = "(IBIds [%s])" % "; ".join(A.coq_rid(s) for s in ids)
    return dict(transport="mcp", kind="ids", verb=verb, tool=A.IDS_TOOL[verb], args=args, tag=tag, expect=None, spec=dict(raw=list(ids)),
                parts=dict(unknown=False, body=body), faults=script)


def filter_call_exact(verb, f, script, tag, extra_args=None):
    args = {"reason": "verif"}
    args.update(A.filter_wire(f))
    if extra_args:
        args.update(extra_args)
    refuse, crit = A.filter_facts(f, verb, "mcp")
    lterm, _ = A.mcp_limit_term(args)
    return dict(transport="mcp", kind="filter", verb=verb, tool="messages_%s_by_filter" % verb, args=args, tag=tag,
                expect="refuse" if refuse else None, spec=dict(crit=crit, fields=dict(f)),
                parts=dict(unknown=False, wf=True, route=A.coq_rroute(f.get("route", "")), app=A.coq_label(f.get("application", "")),
                           ep=A.coq_label(f.get("endpoint_name", "")), target=A.coq_target(f.get("target", "")),
                           state=A.coq_rstate(f.get("state", "")), before=A.coq_before(f), limit=lterm,
                           preview=bool(f.get("preview_only", False))), faults=script)


def list_calls(rng, intent, tier):
    scripts = [["pass"], ["s503", "s503", "pass"], ["s503", "s500", "s502"], ["lost", "pass"], ["close", "reset", "pass"], ["s400"],
               ["truncated", "pass"], ["refuse"]]
    if tier != "quick":
        scripts += [["s404", "pass"], ["s429", "s408", "s504"], ["lost", "lost", "lost"], ["s401"], ["s503", "truncated"], ["reset"]]
    out = []
    for sc in scripts:
        tool = rng.choice(LIST_TOOLS)
        args = {"limit": rng.choice([3, 10, 100, 1000])}
        unmanaged = [r for r in intent["routes"] if r not in intent["owners"]]
        if rng.random() < 0.7 or intent["owners"]:
            args["route"] = rng.choice(unmanaged)
        if tool == "messages_list" and rng.random() < 0.5:
            args["state"] = rng.choice(A.STATES)
        out.append(dict(transport="mcp", kind="list", verb="list", tool=tool, args=args, tag="list:" + ",".join(sc), expect=None, spec={}, faults=sc))
    return out


SOFT_SCRIPTS = [["lost"], ["lost", "pass"], ["truncated"], ["close"], ["reset", "pass"], ["s503"], ["s503", "pass"], ["s500", "pass"],
                ["s400"], ["s404"], ["s409", "pass"], ["refuse"]]


def make_groups(rng, tier):
    """quick: no managed routes; managed routes; token + require_actor; actor allow-list that excludes the MCP principal +
    require_request_id; plus three small groups: bearer token the Admin server does not accept, an allowlist that does not
    cover the Admin endpoint, and the two slow behaviours (request held beyond the 5 s timeout)."""
    groups = []
    order = [0, 1, 2, 5] if tier == "quick" else list(range(len(A.CONFIGS) - 1)) * 3
    for gi, ci in enumerate(order):
        cf = A.CONFIGS[ci]
        text, intent = proxy_config(cf)
        pop, steps, recvs = A.make_population(rng, intent)
        first = forced_fault_calls(rng, intent, pop, recvs, tier)
        rest = A.mcp_calls(rng, intent, pop, recvs, True, tier)
        for c in rest:
            c["faults"] = rng.choice(SOFT_SCRIPTS) if rng.random() < 0.22 else []
            if c.get("pair_with_previous") or c["tag"] == "preview-then-real:preview":
                c["faults"] = []
        rest += list_calls(rng, intent, tier)
        rest = A.shuffle_units(rng, rest)
        allow = None
        if gi % 2 == 1:
            allow = rng.choice([["%FWD%"], ["http://%FWD%/adm"], ["127.0.0.1:1", " http://%FWD% "], ["http://%FWD%/adm/", "http://%FWD%/other"]])
        groups.append(dict(config=text, mcp_config="", now=A.T0, setup=steps, intent=intent, pop=pop, calls=first + rest,
                           allowlist=allow, auth=True, allowed=True, name=cf["name"]))
    # bearer token skew: every request is answered 401, every tool call is an error, nothing changes
    text, intent = proxy_config(A.CONFIGS[2])
    skew, _ = proxy_config(A.CONFIGS[2], token="some-other-token")
    pop, steps, recvs = A.make_population(rng, intent)
    calls = [c for c in forced_fault_calls(rng, intent, pop, recvs, "quick")]
    for c in calls:
        c["faults"] = []
    calls += list_calls(rng, intent, "quick")[:2]
    groups.append(dict(config=text, mcp_config=skew, now=A.T0, setup=steps, intent=intent, pop=pop, calls=calls, allowlist=None,
                       auth=False, allowed=True, name="token_skew"))
    # allowlist that does not cover the Admin endpoint: no request may leave the MCP server
    text, intent = proxy_config(A.CONFIGS[0])
    pop, steps, recvs = A.make_population(rng, intent)
    calls = [c for c in forced_fault_calls(rng, intent, pop, recvs, "quick")]
    for c in calls:
        c["faults"] = []
        c["expect"] = "refuse"
        c["tag"] = "allowlist-miss"
    calls += list_calls(rng, intent, "quick")[:2]
    groups.append(dict(config=text, mcp_config="", now=A.T0, setup=steps, intent=intent, pop=pop, calls=calls,
                       allowlist=rng.choice([["127.0.0.1:1"], ["http://%FWD%/other"], ["https://%FWD%"], ["http://%FWD%/ad"]]),
                       auth=True, allowed=False, name="allowlist_miss"))
    # the slow behaviours, one call each in its own group (5 s each, in parallel)
    for beh in (["delay_late", "pass"], ["delay_drop", "pass"]):
        text, intent = proxy_config(A.CONFIGS[0])
        pop, steps, recvs = A.make_population(rng, intent)
        calls = forced_fault_calls(rng, intent, pop, recvs, "quick")[:3]
        for c in calls:
            c["faults"] = []
        calls[0]["faults"] = beh
        calls[0]["tag"] = "fault-" + beh[0]
        groups.append(dict(config=text, mcp_config="", now=A.T0, setup=steps, intent=intent, pop=pop, calls=calls, allowlist=None,
                           auth=True, allowed=True, name="slow:" + beh[0]))
    return groups


def wire_groups(groups):
    wire = []
    for g in groups:
        calls = []
        for c in g["calls"]:
            refuse = c["faults"] == ["refuse"]
            calls.append(dict(tool=c["tool"], args=c["args"], faults=[] if refuse else c["faults"], refuse=refuse))
        wire.append(dict(config=g["config"], mcp_config=g["mcp_config"], now=g["now"], setup=g["setup"], principal=A.PRINCIPAL,
                         role="operate", mutations=True, allowlist=g["allowlist"] or [], calls=calls))
    return wire


# ---------------------------------------------------------------------------
# model

HEADER = A.HEADER.replace("Model.ManageGlue.", "Model.ManageGlue Model.ManageProxy.")


def coq_group(g, out, mp):
    lines = [HEADER]
    lines.append("Definition pop : list msg := [%s]." % ";\n  ".join(A.coq_msg(mp, r) for r in out["setup"]))
    lines.append("Definition x : ctx := %s." % A.coq_ctx(g["intent"]))
    lines.append("Definition xe : xenv := mkXEnv true %s x %s %s." % (A.cbytes(A.PRINCIPAL), C.coq_bool(g["auth"]), C.coq_bool(g["allowed"])))
    terms = []
    for k, c in enumerate(g["calls"]):
        fs = "[" + "; ".join(model_fault(b) for b in (c["faults"] * 3 if c["faults"] == ["refuse"] else c["faults"])) + "]"
        if c["kind"] == "list":
            terms.append("PcRead %s" % fs)
        else:
            terms.append("PcTool %s %s %s" % (A.ctime(g["now"] + (k + 1) * 1000000), proxy_term(c), fs))
    lines.append("Definition calls : list pcall := [%s]." % ";\n  ".join(terms))
    lines.append("Definition out := Eval vm_compute in run_proxy xe pop calls.")
    lines.append("Print out.")
    return "\n".join(lines) + "\n"


def split_model_row(mo):
    """model output of one call -> (obs6, sent, seen, sent_obs, changed rows) or None"""
    if len(mo) < 10:
        return None
    n = mo[8]
    so = mo[9:9 + n]
    rest = mo[9 + n:]
    if len(so) != n or not rest:
        return None
    if rest[0] < 0:
        rows = ("sums", -rest[0], rest[1:]) if len(rest) == 15 else None
    else:
        if len(rest) != 1 + 13 * rest[0]:
            return None
        rows = sorted(rest[1 + 13 * j: 14 + 13 * j] for j in range(rest[0]))
    if rows is None:
        return None
    return mo[:6], mo[6], mo[7], so, rows


# ---------------------------------------------------------------------------
# the request the MCP server sent, as the numbers Model/ManageProxy.v sent_obs prints

def parse_rfc3339ns(s):
    m = re.match(r"^(\d{4})-(\d\d)-(\d\d)T(\d\d):(\d\d):(\d\d)(?:\.(\d{1,9}))?Z$", s)
    if not m:
        return None
    sec = calendar.timegm((int(m.group(1)), int(m.group(2)), int(m.group(3)), int(m.group(4)), int(m.group(5)), int(m.group(6)), 0, 0, 0))
    frac = int((m.group(7) or "0").ljust(9, "0"))
    return sec * A.SEC + frac


def rid_num(s):
    t = s.strip()
    if t == "":
        return 0
    return A.Maps.idn(t) if t == s else -A.Maps.idn(t)


def observed_sent(g, fr):
    """numbers for one request as the forwarder read it; None when a part cannot be expressed (reported as a mismatch)"""
    intent = g["intent"]
    path = fr["path"]
    if not path.startswith(PREFIX + "/"):
        return None
    path = path[len(PREFIX):]
    m2 = re.match(r"^/applications/([^/]+)/endpoints/([^/]+)/messages/(cancel|requeue|resume)_by_filter$", path)
    m1 = re.match(r"^/messages/(cancel|requeue|resume)_by_filter$", path)
    if path in PATH_IDS:
        ep = [0, KIND_N[PATH_IDS[path]], 0, 0]
        kind = "ids"
    elif m1:
        ep = [1, FKIND_N[m1.group(1)], 0, 0]
        kind = "filter"
    elif m2:
        ep = [2, FKIND_N[m2.group(3)], A.LABEL_N.get(m2.group(1), 900), A.LABEL_N.get(m2.group(2), 900)]
        kind = "filter"
    else:
        return None
    tok = "Bearer " + A.ADMIN_TOKEN if intent.get("token") else ""
    out = [1] + ep + [1 if fr["auth"] == tok else 0, 1 if fr["method"] == "POST" else 0,
                      hbytes(fr["reason"]), hbytes(fr["actor"]), hbytes(fr["request_id"])]
    try:
        body = json.loads(fr["body"])
    except ValueError:
        return out + [-1]
    if not isinstance(body, dict) or fr["ctype"] != "application/json":
        return out + [-1]
    if kind == "ids":
        ids = body.get("ids")
        if set(body) != {"ids"} or not isinstance(ids, list) or not all(isinstance(s, str) for s in ids):
            return out + [-1]
        return out + [len(ids), hz([rid_num(s) for s in ids])]
    if not set(body) <= {"route", "application", "endpoint_name", "target", "state", "before", "limit", "preview_only"}:
        return out + [-1]
    for k in ("route", "application", "endpoint_name", "target", "state", "before"):
        if k in body and not isinstance(body[k], str):
            return out + [-1]
    if not isinstance(body.get("limit"), int) or isinstance(body.get("limit"), bool) or not isinstance(body.get("preview_only"), bool):
        return out + [-1]       # both keys are always present in the payloads the tools build
    rt = body.get("route", "")
    rn = 0 if rt.strip() == "" else (-1 if not rt.strip().startswith("/") else
                                    (A.ROUTE_N.get(rt.strip(), A.UNKNOWN_ROUTE) * (1 if rt == rt.strip() else -1)))
    lab = lambda s: 0 if s.strip() == "" else (A.LABEL_N.get(s.strip(), 900) if A.LABEL_RE.match(s.strip()) else -1)
    tg = body.get("target", "")
    tn = 0 if tg.strip() == "" else A.TARGET_N.get(tg.strip(), A.UNKNOWN_TARGET) * (1 if tg == tg.strip() else -1)
    st = body.get("state", "").strip().lower()
    sn = 0 if st == "" else Q.ST.get(st, -1)
    if "before" in body:
        bn = parse_rfc3339ns(body["before"])
        bn = -2 if bn is None else bn
    else:
        bn = -1
    return out + [rn, lab(body.get("application", "")), lab(body.get("endpoint_name", "")), tn, sn, bn, body["limit"], 1 if body["preview_only"] else 0]


# ---------------------------------------------------------------------------
# the property on the implementation's observations

def judge_call(g, c, resp, before, after, now):
    """list of (class, text)"""
    out = []
    ok = resp["status"] == 200
    fwd = resp.get("fwd") or []
    seen = resp.get("seen") or []
    writes_seen = [s for s in seen if s["method"] != "GET"]
    writes_sent = [f for f in fwd if f["read"] and f["method"] != "GET"]
    ch = A.changed_ids(before, after)
    if resp["status"] == -1:
        out.append(("rpc-error", "tools/call was answered with a JSON-RPC error: %s" % resp["body"][:160]))
    if c["kind"] == "list":
        if ch:
            out.append(("listing-changed", "a listing tool changed stored rows: %s" % sorted(ch)[:6]))
        if writes_seen:
            out.append(("listing-wrote", "a listing tool sent %s" % writes_seen[:3]))
        if ok:
            rows = {r["id"]: r for r in before}
            args = c["args"]
            want = [r for r in before if ("route" not in args or r["route"] == args["route"])
                    and (r["state"] == "dead" if c["tool"] == "dlq_list" else ("state" not in args or r["state"] == args["state"]))]
            if not resp.get("has_items"):
                out.append(("listing-shape", "listing result without items: %s" % resp["body"][:120]))
            else:
                items = resp.get("items") or []
                for it in items:
                    i, rt, tg, st = it.split("|")
                    r = rows.get(i)
                    if r is None or (rt and rt != r["route"]) or (tg and tg != r["target"]) or (st and st != r["state"]) or r not in want:
                        out.append(("listing-content", "listed %s is not a stored row matching %s" % (it, args)))
                        break
                if len(items) != min(len(want), args.get("limit", 100)):
                    out.append(("listing-count", "listing shows %d items, %d stored rows match (limit %s)" % (len(items), len(want), args.get("limit"))))
        return out
    # ---- a mutating tool
    if len(writes_seen) > 1:
        out.append(("write-served-twice", "one call of %s made the Admin API serve %d state-changing requests: %s (script %s)" % (
            c["tool"], len(writes_seen), writes_seen, c["faults"])))
    if len(writes_sent) > 1:
        out.append(("write-sent-twice", "one call of %s sent %d POST requests (script %s)" % (c["tool"], len(writes_sent), c["faults"])))
    if c["expect"] == "refuse" and (fwd or seen):
        out.append(("refused-but-sent", "a call the tool must refuse (%s) reached the network: %d connection(s), %d served" % (c["tag"], len(fwd), len(seen))))
    # the audit identity of the call travels with the request: reason and request id as given (trimmed), actor = the MCP principal
    for fr in writes_sent[:1]:
        a = c["args"]
        want = {"reason": a["reason"].strip() if isinstance(a.get("reason"), str) else None, "actor": A.PRINCIPAL,
                "request_id": a["request_id"].strip() if isinstance(a.get("request_id"), str) else ""}
        got = {"reason": fr["reason"], "actor": fr["actor"], "request_id": fr["request_id"]}
        if want["reason"] is not None and got != want:
            out.append(("audit-not-forwarded", "the Admin request carries audit headers %s, the call was made with %s" % (got, want)))
        tok = "Bearer " + A.ADMIN_TOKEN if g["intent"].get("token") and g["auth"] else None
        if tok is not None and fr["auth"] != tok:
            out.append(("token-not-sent", "the Admin request carries Authorization %r, the configuration has the token" % fr["auth"][:20]))
    lossy = any(b in ("lost", "truncated", "delay_late") for b in c["faults"])
    if ok:
        out += A.judge_property(dict(c, transport="proxy"), resp, before, after, now)
        return out
    if not ch:
        return out
    if not lossy:
        out.append(("refused-but-changed", "error result (%s) without a lost answer in the script %s, but stored rows changed: %s" % (
            resp["body"][:100], c["faults"], sorted(ch)[:6])))
        return out
    # an answer was lost: the one request may have been applied - exactly once, to exactly what it selects
    verb = c["verb"]
    if c["kind"] == "ids":
        names = set(s.strip() for s in c["spec"]["raw"])
        sel = [r["id"] for r in before if r["id"] in names and r["state"] in A.ALLOWED[verb]]
    else:
        crit = c["spec"]["crit"]
        sel = [] if crit["preview"] else A.select_by_filter(verb, crit, before)
    for p in A.check_effect(verb, sel, before, after, len(ch), None, now):
        out.append(("lost-answer-effect", "the answer was lost (script %s); the rows changed are not what one request selects: %s" % (c["faults"], p)))
    return out


def gen_consts():
    """the integer definitions of Gen/AdminProxy.v as the translator wrote them on this run"""
    try:
        txt = open(os.path.join(C.COQ, "Gen", "AdminProxy.v")).read()
    except OSError:
        return {}
    return {m.group(1): int(m.group(2)) for m in re.finditer(r"Definition (ap_\w+) : Z := (-?\d+)\.", txt)}


def expected_audit(resp):
    return ["success"] if resp["status"] == 200 else ["error"]


# ---------------------------------------------------------------------------

class Handle:
    pass


def start(ctx, info, seed_salt=14, tier=None, only=None, model=True):
    """generate the groups and run harness + model in a background thread (the two slow behaviours take 5 s of wall
    clock; the direct-mode layer runs meanwhile)"""
    h = Handle()
    h.ctx, h.info = ctx, info
    h.t0 = _time.time()
    h.tier = tier or ctx.tier
    rng = random.Random(ctx.seed * 7919 + seed_salt)
    h.groups = make_groups(rng, h.tier)
    if only is not None:
        h.groups = [g for g in h.groups if only(g)]
    h.error = None
    h.outs = None
    h.results = None

    def work():
        try:
            rc, out, err = C.harness_run(info["hbin"], ["manageproxy"],
                                         {"dir": os.path.join(ctx.scratch, "mpx%d" % seed_salt), "groups": wire_groups(h.groups), "par": 16}, timeout=1500)
            if rc != 0:
                h.error = "manageproxy harness failed: " + err[-3000:]
                return
            h.outs = json.loads(out)
            h.t_impl = _time.time()
            bodies, h.todo = [], []
            for gi, (g, o) in enumerate(zip(h.groups, h.outs)):
                if o.get("err") or not o.get("setup"):
                    continue
                mp = A.Maps(o["setup"])
                bodies.append(coq_group(g, o, mp))
                h.todo.append((gi, g, o, mp))
            h.results = C.coq_eval_shards(ctx, "c14proxy%d" % seed_salt, bodies) if bodies and h.model else []
            if not h.model:
                h.todo = []
            h.t_model = _time.time()
        except Exception as e:      # reported by finish()
            h.error = "c14proxy worker: %r" % (e,)

    h.model = model
    h.thread = threading.Thread(target=work, daemon=True)
    h.thread.start()
    return h


def call_public(c):
    a = json.dumps(c["args"])
    return dict(tool=c["tool"], arguments=c["args"] if len(a) < 4000 else "<long>", forwarder_script=c["faults"], tag=c["tag"])


def replay_obj(g, c, resp, before, after, cls, mo=None):
    ch = sorted(A.changed_ids(before, after))
    bb, aa = A.by_id(before), A.by_id(after)
    return {"kind": "request", "mode": "mcp-admin-proxy", "backend": "memory", "config": g["config"], "mcp_config": g["mcp_config"] or "(same)",
            "allowlist": g["allowlist"], "setup": g["setup"], "request": call_public(c), "class": cls,
            "observed": {"status": resp["status"], "fields": resp["fields"], "preview_only": resp["preview_only"], "body": resp["body"],
                         "audit_results": resp.get("audit"), "requests_sent": resp.get("fwd"), "requests_served": resp.get("seen"),
                         "rows_changed": [{"before": bb.get(i), "after": aa.get(i)} for i in ch[:8]], "n_rows_changed": len(ch)},
            "expected": {"model": mo, "statement": "at most one state-changing Admin request per tool call whatever the transport does; only the "
                         "selected messages change, at most `limit`; counts = rows changed; failures are error results"},
            "stored_before": before if len(before) <= 60 else before[:60],
            "how_to_replay": "./check C14 --replay <this file>  (re-runs the seeded proxy groups on the servers built from the current tree)"}


def finish(h, report_prefix="C14proxy", audit_only=False):
    """judge; returns the coverage fragment"""
    ctx = h.ctx
    h.thread.join()
    if h.error:
        raise RuntimeError(h.error)
    stats = dict(groups=len(h.groups), calls=0, tool_calls=0, list_calls=0, faulted_calls=0, accepted=0, errors=0, state_changing=0,
                 rows_changed=0, requests_sent=0, requests_served=0, lost_answer_applied=0, retried_reads=0, model_mismatches=0,
                 property_failures=0, audit_records=0, by_script={}, by_tag={}, groups_run=[])
    nontrivial = set()
    samples = []
    models = {}
    if not audit_only:
        for (gi, g, o, mp), (crc, txt) in zip(h.todo, h.results):
            model = A.parse_out(txt) if crc == 0 else None
            if model is None or len(model) != len(g["calls"]) + 1 or any(split_model_row(m) is None for m in model[:-1]):
                C.report(ctx, "%s:model-eval-failed" % report_prefix, "Model/ManageProxy.v could not be evaluated on a group: %s" % txt[-600:],
                         {"kind": "obligation", "group": gi, "log": txt[-2000:], "no_failing_input_found": True})
                continue
            models[gi] = ([split_model_row(m) for m in model[:-1]], model[-1][0] if model[-1] else None, mp)
    for gi, (g, o) in enumerate(zip(h.groups, h.outs)):
        if o.get("err"):
            C.report(ctx, "%s:harness" % report_prefix, "the proxy set-up of a group could not be built: " + o["err"],
                     {"kind": "request", "config": g["config"], "observed": o["err"], "no_failing_input_found": True})
            continue
        if audit_only:
            for c, resp in zip(g["calls"], o["resps"]):
                if c["kind"] == "list":
                    if resp.get("audit"):
                        C.report(ctx, "mcp-mutation-audit:proxy:%s:read-tool-audited" % c["tool"], "a listing tool appended audit records %s" % resp["audit"],
                                 {"kind": "request", "case": call_public(c), "config": g["config"], "observed": resp.get("audit")})
                    continue
                stats["calls"] += 1
                stats["audit_records"] += len(resp.get("audit") or [])
                kind = ("applied" if resp["status"] == 200 and not resp["preview_only"] else "preview" if resp["status"] == 200 else
                        "refused-by-tool" if not (resp.get("fwd") or c["faults"] == ["refuse"]) else
                        "request-failed" if c["faults"] else "refused-by-admin")
                stats["by_tag"][kind] = stats["by_tag"].get(kind, 0) + 1
                if c["faults"]:
                    stats["faulted_calls"] += 1
                if (resp.get("audit") or []) != expected_audit(resp) or not resp.get("audit_fields_ok"):
                    C.report(ctx, "mcp-mutation-audit:proxy:%s:%s" % (c["tool"], kind),
                             "Admin-proxy mode: the %s call of the mutating tool %s (forwarder script %s, %d request(s) sent) appended audit records %s, want exactly %s with tool and principal" % (
                                 kind, c["tool"], c["faults"], len(resp.get("fwd") or []), resp.get("audit"), expected_audit(resp)),
                             {"kind": "request", "mode": "mcp-admin-proxy", "case": call_public(c), "config": g["config"], "setup": g["setup"],
                              "observed": {"status": resp["status"], "audit_results": resp.get("audit"), "audit_fields_ok": resp.get("audit_fields_ok"),
                                           "requests_sent": resp.get("fwd"), "body": resp["body"]}})
            continue
        gen = gen_consts()
        for k, gk, div in (("admin_proxy_retry_max_get", "ap_retry_max_get", 1), ("admin_proxy_retry_backoff_ms", "ap_retry_backoff_ns", 1000000),
                           ("admin_proxy_timeout_ms", "ap_timeout_ns", 1000000)):
            if gen.get(gk) is None or o["consts"].get(k) != gen[gk] // div:
                C.report(ctx, "%s:constant:%s" % (report_prefix, k), "Go constant %s = %s, Gen/AdminProxy.v %s = %s" % (k, o["consts"].get(k), gk, gen.get(gk)),
                         {"kind": "obligation", "constant": k, "observed": o["consts"].get(k), "expected": gen.get(gk), "no_failing_input_found": True})
        probs = A.check_compiled(g["intent"], o["compiled"])
        if o.get("mcp_backend") != "memory":
            probs.append("the MCP configuration compiles to queue backend %r, intended memory" % o.get("mcp_backend"))
        if probs:
            C.report(ctx, "%s:config-not-as-intended" % report_prefix, "; ".join(probs), {"kind": "program", "config": g["config"], "problems": probs, "no_failing_input_found": True})
            continue
        want = {m["id"]: {"retried": "queued", "canceled_dead": "canceled"}.get(m["want"], m["want"]) for m in g["pop"]}
        got = {r["id"]: r["state"] for r in o["setup"]}
        if want != got:
            C.report(ctx, "%s:population" % report_prefix, "the population built through the Store API is not the intended one",
                     {"kind": "history", "setup": g["setup"], "observed": got, "expected": want, "no_failing_input_found": True})
            continue
        stats["groups_run"].append(dict(name=g["name"], messages=len(o["setup"]), calls=len(g["calls"]), allowlist=g["allowlist"]))
        mrows, final_hash, mp = models.get(gi, (None, None, None))
        before = o["setup"]
        diverged = mrows is None
        prev_preview = None
        for k, (c, resp) in enumerate(zip(g["calls"], o["resps"])):
            after = before if resp["same"] else resp["after"]
            now = g["now"] + (k + 1) * 1000000
            stats["calls"] += 1
            stats["list_calls" if c["kind"] == "list" else "tool_calls"] += 1
            sk = ",".join(c["faults"]) or "-"
            stats["by_script"][sk] = stats["by_script"].get(sk, 0) + 1
            stats["by_tag"][c["tag"].split(":")[0]] = stats["by_tag"].get(c["tag"].split(":")[0], 0) + 1
            if c["faults"]:
                stats["faulted_calls"] += 1
            ok = resp["status"] == 200
            stats["accepted" if ok else "errors"] += 1
            nch = len(A.changed_ids(before, after))
            if nch:
                stats["state_changing"] += 1
                stats["rows_changed"] += nch
                if not ok:
                    stats["lost_answer_applied"] += 1
            fwd = resp.get("fwd") or []
            seen = resp.get("seen") or []
            stats["requests_sent"] += len(fwd)
            stats["requests_served"] += len(seen)
            if c["kind"] == "list" and len(fwd) > 1:
                stats["retried_reads"] += 1
            if resp.get("err"):
                C.report(ctx, "%s:transport" % report_prefix, "tool call failed at the JSON-RPC level: %s" % resp["err"],
                         {"kind": "request", "request": call_public(c), "observed": resp, "no_failing_input_found": True})
            # (a) the property
            pf = judge_call(g, c, resp, before, after, now)
            if c.get("pair_with_previous") and prev_preview is not None and ok and prev_preview[1]["status"] == 200:
                if prev_preview[1]["fields"].get("matched") != resp["fields"].get("matched"):
                    pf.append(("preview-differs-from-real", "preview matched %s, the real run on the same queue matched %s" % (
                        prev_preview[1]["fields"].get("matched"), resp["fields"].get("matched"))))
            prev_preview = (c, resp) if c["tag"] == "preview-then-real:preview" else None
            mo = mrows[k] if mrows is not None else None
            for cls, text in pf[:3]:
                stats["property_failures"] += 1
                key = "%s:%s:%s:%s" % (report_prefix, c["kind"], c["verb"], cls)
                C.report(ctx, key, "mcp(admin-proxy) %s (%s, script %s): %s" % (c["tool"], c["tag"], c["faults"], text),
                         replay_obj(g, c, resp, before, after, cls, mo))
            # (b) the model
            if not diverged:
                if c["kind"] == "list":
                    obs = [200, 0, 0, 0, 0, 0] if ok else [0, 15, 0, 0, 0, 0]
                else:
                    obs = A.observed_obs(dict(c, transport="mcp"), resp)
                drows = A.summarise_rows(A.diff_rows(mp, before, after, True))
                refuse_call = c["faults"] == ["refuse"]
                what = None
                if obs != mo[0]:
                    what = "tool result: observed %s, model %s" % (obs, mo[0])
                elif drows != mo[4]:
                    what = "stored rows changed: observed %s, model %s" % (str(drows)[:200], str(mo[4])[:200])
                elif len(seen) != mo[2]:
                    what = "requests served by the Admin handler: observed %d, model %d" % (len(seen), mo[2])
                elif not refuse_call and len(fwd) != mo[1]:
                    what = "requests sent: observed %d, model %d (script %s)" % (len(fwd), mo[1], c["faults"])
                elif c["kind"] != "list":
                    readable = [f for f in fwd if f["read"]]
                    if mo[3] == [0] and (fwd or seen):
                        what = "the model sends nothing, the implementation sent %d request(s)" % len(fwd)
                    elif mo[3] != [0] and not fwd and not refuse_call:
                        what = "the model sends a request, the implementation sent none"
                    elif readable:
                        so = observed_sent(g, readable[0])
                        if so != mo[3]:
                            what = "the request sent: observed %s (%s %s %s), model %s" % (so, readable[0]["method"], readable[0]["path"], readable[0]["body"][:160], mo[3])
                if what:
                    stats["model_mismatches"] += 1
                    diverged = True
                    if not pf:
                        key = "%s-corr:%s:%s:%s" % (report_prefix, c["kind"], c["verb"], c["tag"].split(":")[0])
                        C.report(ctx, key, "Model/ManageProxy.v and the implementation disagree on %s %s (%s, script %s): %s; the property itself held on this call" % (
                            c["tool"], "", c["tag"], c["faults"], what),
                            dict(replay_obj(g, c, resp, before, after, "model", mo), no_failing_input_found=True,
                                 names="correspondence Model/ManageProxy.v <-> internal/mcp/server.go (Admin-proxy branches, callAdminJSON); theorems in Properties/C14proxy.v rest on it"))
                elif not pf:
                    if nch or not ok or c["faults"]:
                        nontrivial.add(C.sha({"g": gi, "k": k, "rq": call_public(c)}))
                    if len(samples) < 4 and nch and c["faults"]:
                        samples.append(dict(call_public(c), status=resp["status"], fields=resp["fields"], rows_changed=nch,
                                            requests_sent=len(fwd), requests_served=len(seen)))
            before = after
        if not diverged and final_hash != A.hash_rows(mp, before, with_next=True):
            stats["model_mismatches"] += 1
            C.report(ctx, "%s-corr:final-state" % report_prefix, "after all calls of a group the checksum of the stored rows differs from the model's",
                     {"kind": "request", "config": g["config"], "setup": g["setup"], "no_failing_input_found": True})
    if audit_only:
        return {"mcp_mutation_audit_proxy": dict(calls=stats["calls"], audit_records=stats["audit_records"], faulted_calls=stats["faulted_calls"], by_kind=stats["by_tag"])}
    wall = dict(harness=round(getattr(h, "t_impl", h.t0) - h.t0, 2), coq=round(getattr(h, "t_model", h.t0) - getattr(h, "t_impl", h.t0), 2),
                total_incl_overlap=round(_time.time() - h.t0, 2))
    return {
        "c14proxy_evaluations": stats["calls"],
        "c14proxy_distinct_nontrivial": len(nontrivial),
        "c14proxy_rule": "an MCP tool call in Admin-proxy mode (real MCP server -> scripted forwarder -> real Admin listener on a memory store) counts as "
                         "distinct non-trivial when it changed stored rows, ended in an error result or ran under a fault script, the property predicate "
                         "held on the observed rows / requests and the model agreed on the result, the requests sent and served, the request content and the rows",
        "c14proxy": dict(stats, wall_s=wall),
        "c14proxy_samples": samples,
    }


def run(ctx, info, rng=None, *_):
    return finish(start(ctx, info))
