"""C13, the delivery-attempt log (RecordAttempt / ListAttempts of the queue.Store contract): the memory and the SQLite store are
driven by the same operation sequences as Model/Attempts.v (evaluated inside Coq) and every listing is compared row by row with the
model's - hence with each other.  Sequences: small random logs (ties in created_at, blank and explicit ids, every criterion,
limits around the defaults) and long-lived logs of more than ten thousand attempts queried for their oldest entries."""
import json
import os
import re

from lib import common as C
from lib import c10c11 as L

BASE = 1_700_000_000 * 10 ** 9


def coq_att(a):
    return "(mkAtt %d%%N %d%%N %d%%N %d%%N (%d) (%d) %d%%N (%d))" % (a["id"], a["event"], a["route"], a["target"], a["attempt"], a["status"],
                                                                   a["outcome"], a["created"])


def coq_req(q):
    return "(mkAReq %d%%N %d%%N %d%%N %d%%N (%d) %s)" % (q["route"], q["target"], q["event"], q["outcome"], q["limit"],
                                                        "None" if q["before"] is None else "(Some (%d))" % q["before"])


def coq_op(o):
    if "rec" in o:
        return "ARec " + coq_att(o["rec"])
    if "gen" in o:
        return "AGen (%d) (%d)" % tuple(o["gen"])
    return "AList " + coq_req(o["list"])


def q(route=0, target=0, event=0, outcome=0, limit=0, before=None):
    return {"list": dict(route=route, target=target, event=event, outcome=outcome, limit=limit, before=before)}


def long_case(n, quick):
    """one early attempt of an event nothing else uses, then n generated attempts (40 events in rotation), then queries that reach the
    oldest entries"""
    early = dict(id=999_999_999, event=7, route=2, target=11, attempt=1, status=503, outcome=0, created=BASE - 10 ** 12)
    ops = [{"rec": early}, q(event=7), {"gen": [0, n]},
           q(event=7), q(event=7, outcome=1), q(route=2, before=BASE), q(before=BASE + 1000),
           q(event=100, limit=1000), q(event=100, limit=5), q(event=139, limit=1000, outcome=3),
           q(route=1, limit=1000, before=BASE + 300 * 1_000_000), q(outcome=3, limit=50), q(limit=0), q(limit=-3), q(limit=5000),
           q(route=2, target=10, outcome=2, limit=1000, before=BASE + (n // 4) * 1_000_000),
           q(event=101, limit=1000, before=BASE + 2_000 * 1_000_000),
           q(event=55), q(route=9),
           {"rec": dict(id=0, event=7, route=2, target=11, attempt=2, status=200, outcome=2, created=BASE + 10 ** 15)},
           q(event=7), q(limit=3), {"gen": [n, 40]}, q(event=7), q(event=100, limit=1000), q(limit=2)]
    return ops


def random_case(rng):
    ops = []
    used_created = set()
    n = rng.randrange(5, 60)
    nid = 1
    times = [BASE + rng.randrange(0, 6) * 1000 for _ in range(4)]
    for _ in range(n):
        if rng.random() < 0.3:
            # blank id: the store generates one; the model orders by (created, id), so blank ids get a created_at of their own
            while True:
                t = BASE + 10 ** 6 + rng.randrange(0, 10 ** 6)
                if t not in used_created:
                    break
            used_created.add(t)
            a = dict(id=0, created=t)
        else:
            a = dict(id=nid * rng.choice([1, 1, 7]) + rng.randrange(10 ** 6) * 1000, created=rng.choice(times))
            nid += 1
        a.update(event=rng.randrange(1, 5), route=rng.randrange(1, 4), target=rng.randrange(1, 3), attempt=rng.randrange(0, 6),
                 status=rng.choice([0, 200, 204, 500, 503, -1, -7]), outcome=rng.randrange(0, 4))
        ops.append({"rec": a})
        if rng.random() < 0.4:
            ops.append(random_query(rng, times))
    for _ in range(rng.randrange(3, 9)):
        ops.append(random_query(rng, times))
    # the id is the key of the log: now and then an explicit id is presented a second time (refused, nothing changes)
    recs = [o["rec"] for o in ops if "rec" in o and o["rec"]["id"]]
    for _ in range(rng.choice([0, 0, 1, 2])):
        if len(recs) >= 2:
            a, b = rng.sample(recs, 2)
            b["id"] = a["id"]
    return ops


def random_query(rng, times):
    def opt(hi):
        return rng.randrange(1, hi) if rng.random() < 0.4 else 0
    before = None
    if rng.random() < 0.4:
        before = rng.choice(times + [BASE + 10 ** 6 + 500_000, BASE - 1, BASE + 10 ** 9]) + rng.choice([0, 0, 1, -1])
    return q(route=opt(4), target=opt(3), event=opt(5), outcome=rng.choice([0, 0, 1, 2, 3]), limit=rng.choice([0, 1, 2, 3, 10, 100, 2000, -1]), before=before)


def run(ctx, info, rng):
    quick = ctx.tier == "quick"
    cases = [long_case(10_500, quick)]
    if not quick:
        cases += [long_case(25_000, quick), long_case(10_001, quick)]
    cases += [random_case(rng) for _ in range(40 if quick else 400)]
    d = os.path.join(ctx.scratch, "attlog")
    os.makedirs(d, exist_ok=True)
    rc, out, err = C.harness_run(info["hbin"], ["attempt-log"], {"dir": d, "backends": ["memory", "sqlite"], "cases": [{"ops": c} for c in cases]}, timeout=1800)
    if rc != 0:
        raise RuntimeError("attempt-log failed: " + err[-1500:])
    impl = json.loads(out)["cases"]
    # ---- model
    nshard = 8
    bodies = []
    shards = [[ci for ci in range(len(cases)) if ci % nshard == k] for k in range(nshard)]
    shards = [s for s in shards if s]
    for s in shards:
        b = ["From Coq Require Import ZArith NArith List.\nFrom HK Require Import Model.Attempts.\nImport ListNotations.\nOpen Scope Z_scope."]
        for ci in s:
            b.append("Definition al%d := Eval vm_compute in arun [] [%s].\nRedirect \"c13al%d\" Print al%d." % (
                ci, ";\n ".join(coq_op(o) for o in cases[ci]), ci, ci))
        bodies.append("\n".join(b) + "\n")
    results = C.coq_eval_shards(ctx, "c13attcases", bodies)
    model = {}
    model_fail = []
    for s, (rc2, o2) in zip(shards, results):
        if rc2 != 0:
            model_fail.append(o2[-1200:])
            continue
        for ci in s:
            txt = L.read_redirect(ctx, "c13al%d" % ci)
            m = re.search(r"=\s*(\[.*\])\s*:\s*list", " ".join(txt.split()))
            if not m:
                model_fail.append("could not parse al%d" % ci)
                continue
            body = m.group(1)[1:-1]
            rows = [[int(x) for x in re.findall(r"-?\d+", part)] for part in re.findall(r"\[([^\[\]]*)\]", body)]
            model[ci] = rows
    frag = {"attempt_log_cases": len(cases), "attempt_log_listings": 0, "attempt_log_rows_compared": 0, "attempt_log_nonempty_listings": 0,
            "attempt_log_longest_log": max(sum(o["gen"][1] if "gen" in o else (1 if "rec" in o else 0) for o in c) for c in cases),
            "attempt_log_model_failures": model_fail[:2], "attempt_log_mismatches": 0}
    for ci, c in enumerate(cases):
        # what each output row stands for: a listing, or a refused RecordAttempt (an explicit id presented again)
        queries, seen_ids = [], set()
        for o in c:
            if "list" in o:
                queries.append(o["list"])
            elif "rec" in o and o["rec"]["id"]:
                if o["rec"]["id"] in seen_ids:
                    queries.append({"refused_record": o["rec"]})
                seen_ids.add(o["rec"]["id"])
            elif "gen" in o:
                seen_ids.update(range(o["gen"][0] + 1, o["gen"][0] + o["gen"][1] + 1))
        for co in impl[ci]:
            if co.get("err"):
                C.report(ctx, "attempt-log-error:%s" % co["backend"], "the %s store answered an attempt-log operation with an error: %s" % (co["backend"], co["err"]),
                         {"kind": "history", "case": {"ops": c if len(c) < 200 else c[:40]}, "observed": co["err"]})
                continue
            if ci not in model:
                continue
            if len(co["results"]) != len(model[ci]):
                C.report(ctx, "attempt-log:%s:refusals" % co["backend"],
                         "the %s store produced %d observable rows (listings + refused records), the attempt log of the Store contract %d: a RecordAttempt was "
                         "refused by one and accepted by the other (store refusals: %s)" % (co["backend"], len(co["results"]), len(model[ci]), (co.get("refusals") or [])[:3]),
                         {"kind": "history", "case": {"ops": c if len(c) < 120 else c[:40]}, "observed": [r[:14] for r in co["results"][:30]],
                          "expected": [r[:14] for r in model[ci][:30]], "how_to_replay": "./check C13 --replay <this file>"})
                continue
            for k, (got, want) in enumerate(zip(co["results"], model[ci])):
                frag["attempt_log_listings"] += 1
                frag["attempt_log_refusals"] = frag.get("attempt_log_refusals", 0) + (1 if want == [-1] else 0)
                frag["attempt_log_rows_compared"] += len(want) // 7
                frag["attempt_log_nonempty_listings"] += 1 if want else 0
                if got != want:
                    frag["attempt_log_mismatches"] += 1
                    gr = [got[i:i + 7] for i in range(0, len(got), 7)]
                    wr = [want[i:i + 7] for i in range(0, len(want), 7)]
                    first = next((i for i in range(min(len(gr), len(wr))) if gr[i] != wr[i]), min(len(gr), len(wr)))
                    recorded = sum(o["gen"][1] if "gen" in o else (1 if "rec" in o else 0) for o in c)
                    if want == [-1] or got == [-1]:
                        C.report(ctx, "attempt-log:%s:duplicate-id" % co["backend"],
                                 "the %s store %s where the attempt log of the Store contract %s (output row %d: %s)" % (
                                     co["backend"], "refused a RecordAttempt" if got == [-1] else "did not refuse at this point",
                                     "refuses the attempt (its id is already recorded)" if want == [-1] else "does not", k, queries[k] if k < len(queries) else "?"),
                                 {"kind": "history", "case": {"ops": c if len(c) < 120 else c[:40], "row_index": k}, "observed": got[:21], "expected": want[:21],
                                  "how_to_replay": "./check C13 --replay <this file>"})
                        break
                    C.report(ctx, "attempt-log:%s:%s" % (co["backend"], "fewer" if len(gr) < len(wr) else "more" if len(gr) > len(wr) else "rows"),
                             "ListAttempts(%s) on the %s store lists %d attempts, the attempt log of the Store contract lists %d (first difference at row %d: "
                             "store %s, contract %s); %d attempts recorded in this history" % (
                                 queries[k], co["backend"], len(gr), len(wr), first, gr[first] if first < len(gr) else None,
                                 wr[first] if first < len(wr) else None, recorded),
                             {"kind": "history", "case": {"ops": c if len(c) < 120 else c[:40], "query_index": k, "query": queries[k]},
                              "observed": gr[:20], "expected": wr[:20], "row_format": "event, route, target, attempt, status, outcome, created_ns",
                              "how_to_replay": "./check C13 --replay <this file>"})
    if model_fail:
        frag["attempt_log_model_broken"] = model_fail[0][-600:]
    return frag
