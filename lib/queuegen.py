"""Structured generator of queue histories (shared by C02-C05, C12-C14).
Every choice comes from the random.Random passed in (seeded from VERIF_SEED)."""

BASE = 1_700_000_000_000_000_000
MS = 1_000_000
SEC = 1_000_000_000
IDS = ["m%02d" % i for i in range(12)]
ROUTES = ["r0", "r1", "r2"]
TARGETS = ["t0", "t1"]
REASONS = ["", "max_retries", "no_retry", "policy_denied", "boom"]
EXTRA_REASONS = ["\tmax_retries ", "upstream reset\r\n", " boom"]      # twin of lib/queuecheck.py EXTRA_REASONS (scenario S17 only)
STATES = ["queued", "leased", "delivered", "dead", "canceled"]


def gen_cfg(rng, profile=None):
    c = {"max_depth": 0, "drop_oldest": False, "ret_age": 0, "prune_iv": 0, "deliv_age": 0, "dlq_age": 0,
         "dlq_depth": 0, "press_items": 0}
    p = profile if profile is not None else rng.random()
    if p < 0.25:
        return c
    if rng.random() < 0.7:
        c["max_depth"] = rng.choice([1, 2, 3, 3, 5])
        c["drop_oldest"] = rng.random() < 0.6
    if rng.random() < 0.45:
        c["prune_iv"] = rng.choice([1, MS, SEC])
        if rng.random() < 0.6:
            c["ret_age"] = rng.choice([SEC, 5 * SEC, 60 * SEC])
        if rng.random() < 0.5:
            c["dlq_age"] = rng.choice([SEC, 10 * SEC])
        if rng.random() < 0.5:
            c["dlq_depth"] = rng.choice([1, 2, 3])
    if rng.random() < 0.35:
        c["deliv_age"] = rng.choice([SEC, 30 * SEC])
        if c["prune_iv"] == 0 and rng.random() < 0.5:
            c["prune_iv"] = rng.choice([1, SEC])
    if rng.random() < 0.2:
        c["press_items"] = rng.choice([2, 3, 4])
    return c


def gen_history(rng, nops=None, cfg=None, long_mode=False, weights_override=None, many_ties=False, c13=False):
    cfg = cfg if cfg is not None else gen_cfg(rng)
    if c13:
        # cross-backend profile: no memory-only admission rules, clock steps never inside the SQLite sweep interval
        cfg["press_items"] = 0
        if cfg["max_depth"] > 0:
            cfg["deliv_age"] = 0
    n = nops if nops is not None else rng.randint(6, 60)
    routes = ROUTES[:rng.choice([1, 2, 2, 3])]
    targets = TARGETS[:rng.choice([1, 1, 2])]
    ids = IDS[:rng.choice([4, 8, 12])]
    now = BASE + rng.randrange(0, 1000) * SEC
    ops = []
    deq_ops = []          # indices of dequeue ops
    ttl_pool = [0, SEC, 30 * SEC, 5 * MS, 10 * MS]
    last_ttl = 30 * SEC
    last_delay = 0
    body_ctr = [1]

    def advance():
        nonlocal now
        r = rng.random()
        if r < 0.35:
            d = 0
        elif r < 0.45:
            d = 1
        elif r < 0.55:
            d = rng.choice([10 * MS - 1, 10 * MS, 10 * MS + 1, 5 * MS])
        elif r < 0.75:
            d = rng.choice([last_ttl - 1, last_ttl, last_ttl + 1]) if last_ttl > 1 else 1
        elif r < 0.85:
            d = rng.choice([last_delay - 1, last_delay, last_delay + 1]) if last_delay > 1 else MS
        elif r < 0.95:
            d = rng.choice([SEC, 5 * SEC, 31 * SEC])
        else:
            d = rng.choice([120 * SEC, -MS])
        if c13 and 0 < d < 10 * MS:
            d = rng.choice([0, 10 * MS, 11 * MS])
        if c13 and d < 0:
            d = 0
        now += max(d, -MS)

    def enq_item(blank_ok=True):
        e = {"id": rng.choice(ids), "route": rng.choice(routes), "target": rng.choice(targets),
             "recv": None, "next": None, "body": 0, "hdr": rng.choice([0, 0, 1, 2, 3, 4, 5, 6, 7, 8, 9]), "trace": rng.choice([0, 0, 1, 2, 3, 4, 8])}
        body_ctr[0] += 1
        e["body"] = body_ctr[0]
        r = rng.random()
        if blank_ok and r < 0.06:
            e["id"] = ""
        if many_ties and rng.random() < 0.6:
            e["recv"] = BASE + rng.choice([0, SEC, 2 * SEC])
        elif rng.random() < 0.35:
            e["recv"] = now - rng.choice([0, 0, 1, SEC, 5 * SEC, 61 * SEC, 2 * SEC])
        if rng.random() < 0.2:
            e["next"] = now + rng.choice([0, 1, MS, SEC, 10 * SEC, -SEC])
        return e

    def lease_ref():
        r = rng.random()
        if not deq_ops or r < 0.06:
            return {"unknown": True}
        if r < 0.10:
            return {"raw": rng.choice(["", " ", "\t "])}
        k = deq_ops[-1] if rng.random() < 0.6 else rng.choice(deq_ops)
        j = 0 if rng.random() < 0.7 else rng.choice([1, 2, 3])
        ref = {"ref": [k, j]}
        if rng.random() < 0.05:
            ref["pad"] = True
        return ref

    def id_list():
        k = rng.choice([0, 1, 1, 2, 3, 5])
        out = []
        for _ in range(k):
            r = rng.random()
            i = rng.choice(ids)
            if r < 0.08:
                out.append("")
            elif r < 0.14:
                out.append(" " + i + " ")
            elif r < 0.2 and out:
                out.append(out[0])
            else:
                out.append(i)
        return out

    def filt(manage=True):
        f = {"route": "", "target": "", "state": "", "limit": 0, "before": None, "preview": False, "order": ""}
        if rng.random() < 0.4:
            f["route"] = rng.choice(routes + ["r9"])
        if rng.random() < 0.25:
            f["target"] = rng.choice(targets)
        if rng.random() < 0.5:
            f["state"] = rng.choice(STATES)
        f["limit"] = rng.choice([0, 0, 1, 1, 2, 3, -1, 1000, 1001])
        if rng.random() < 0.3:
            f["before"] = now - rng.choice([0, 1, SEC, 5 * SEC, -SEC])
        if manage:
            f["preview"] = rng.random() < 0.3
        else:
            f["order"] = rng.choice(["", "asc", "desc", "ASC", " desc ", "bogus"]) if rng.random() < 0.6 else "asc"
        return f

    weights = [("enqueue", 24), ("enqueue_batch", 7), ("dequeue", 20), ("lease", 17), ("lease_batch", 6),
               ("manage", 8), ("manage_f", 6), ("list", 4), ("list_dead", 2), ("lookup", 2), ("stats", 2)]
    if weights_override:
        weights = list(weights_override)
    if c13:
        weights = weights + [("reopen", 1)]
    if long_mode:
        weights = [("enqueue", 50), ("dequeue", 25), ("lease", 18), ("lease_batch", 3), ("manage", 3), ("manage_f", 1)]
    total = sum(w for _, w in weights)
    for i in range(n):
        advance()
        x = rng.randrange(total)
        for name, w in weights:
            if x < w:
                break
            x -= w
        op = {"op": name, "now": now}
        if name == "enqueue":
            op["enq"] = [enq_item()]
            if long_mode:
                op["enq"][0]["id"] = "L%05d" % i if rng.random() < 0.9 else rng.choice(ids)
        elif name == "enqueue_batch":
            k = rng.choice([0, 1, 2, 2, 3, 4, 6])
            items = [enq_item() for _ in range(k)]
            if k >= 2 and rng.random() < 0.15:
                items[-1]["id"] = items[0]["id"]
            op["enq"] = items
        elif name == "dequeue":
            op["route"] = rng.choice(routes) if rng.random() < 0.6 else ""
            op["target"] = rng.choice(targets) if rng.random() < 0.25 else ""
            op["batch"] = rng.choice([1, 1, 1, 2, 3, 5, 0, -1, 100, 101])
            if c13 and rng.random() < 0.7:
                op["batch"] = rng.choice([5, 100, 101])
            op["ttl"] = rng.choice(ttl_pool)
            last_ttl = op["ttl"] if op["ttl"] > 0 else 30 * SEC
            deq_ops.append(i)
        elif name == "lease":
            op["kind"] = rng.choice(["ack", "ack", "nack", "nack", "extend", "dead"])
            op["dur"] = rng.choice([0, 0, MS, SEC, 5 * SEC, -SEC, 1])
            if op["kind"] == "nack":
                last_delay = max(op["dur"], 0)
            op["reason"] = rng.choice(REASONS)
            op["lease"] = lease_ref()
        elif name == "lease_batch":
            op["kind"] = rng.choice(["ack", "nack", "dead"])
            op["dur"] = rng.choice([0, SEC, -1])
            op["reason"] = rng.choice(REASONS)
            k = rng.choice([0, 1, 2, 3, 4])
            ls = [lease_ref() for _ in range(k)]
            if k >= 2 and rng.random() < 0.3:
                ls[-1] = dict(ls[0])
            op["leases"] = ls
        elif name == "manage":
            op["kind"] = rng.choice(["cancel", "cancel", "requeue", "resume", "requeue_dead", "delete_dead"])
            op["ids"] = id_list()
        elif name == "manage_f":
            op["kind"] = rng.choice(["cancel", "requeue", "resume"])
            op["filt"] = filt(True)
        elif name == "list":
            op["filt"] = filt(False)
        elif name == "list_dead":
            f = filt(False)
            f["target"] = ""
            f["state"] = ""
            op["filt"] = f
        elif name == "lookup":
            op["ids"] = id_list()
        ops.append(op)
    return {"cfg": cfg, "ops": ops, "snap_every": 1}


def gen_long_history(rng):
    """> 1024 inserts on one store (memory's order-log compaction threshold), mostly
    drained, with requeue/resume of old messages afterwards; snapshots are sparse."""
    cfg = {"max_depth": 0, "drop_oldest": False, "ret_age": 0, "prune_iv": 0, "deliv_age": 0, "dlq_age": 0,
           "dlq_depth": 0, "press_items": 0}
    now = BASE
    ops = []
    n_ins = 1030 + rng.randrange(0, 60)
    keep_dead = rng.randrange(3, n_ins - 3)
    keep_cancel = rng.randrange(3, n_ins - 3)
    for i in range(n_ins):
        now += MS
        ops.append({"op": "enqueue", "now": now, "enq": [{"id": "L%05d" % i, "route": "r0", "target": "t0", "recv": None,
                                                            "next": None, "body": 5, "hdr": 0, "trace": 0}]})
        now += 1
        ops.append({"op": "dequeue", "now": now, "route": "", "target": "", "batch": 1, "ttl": 30 * SEC})
        k = len(ops) - 1
        if i == keep_dead:
            ops.append({"op": "lease", "now": now, "kind": "dead", "dur": 0, "reason": "boom", "lease": {"ref": [k, 0]}})
        elif i == keep_cancel:
            ops.append({"op": "manage", "now": now, "kind": "cancel", "ids": ["L%05d" % i]})
        else:
            ops.append({"op": "lease", "now": now, "kind": "ack", "dur": 0, "reason": "", "lease": {"ref": [k, 0]}})
    # idle polls (compaction opportunity), then bring the two survivors back
    for _ in range(2):
        now += SEC
        ops.append({"op": "dequeue", "now": now, "route": "", "target": "", "batch": 5, "ttl": SEC})
    now += SEC
    ops.append({"op": "manage", "now": now, "kind": rng.choice(["requeue_dead", "requeue"]), "ids": ["L%05d" % keep_dead]})
    now += SEC
    ops.append({"op": "manage", "now": now, "kind": rng.choice(["resume", "requeue"]), "ids": ["L%05d" % keep_cancel]})
    now += SEC
    ops.append({"op": "dequeue", "now": now, "route": "", "target": "", "batch": 5, "ttl": SEC})
    k = len(ops) - 1
    now += 2 * SEC
    ops.append({"op": "dequeue", "now": now, "route": "", "target": "", "batch": 5, "ttl": SEC})
    ops.append({"op": "lease", "now": now, "kind": "ack", "dur": 0, "reason": "", "lease": {"ref": [k, 0]}})
    ops.append({"op": "stats", "now": now})
    for o in ops[-9:]:
        o["snap"] = True        # dense snapshots over the tail, so the monitors can be evaluated on it
    return {"cfg": cfg, "ops": ops, "snap_every": 500}


def gen_bulk_expiry(rng):
    """many leases (more than any plausible per-sweep chunk) run out at the same instant: the very next dequeues, a millisecond apart
    (inside SQLite's sweep throttle), must hand out min(batch, ready) messages each until all are leased again"""
    cfg = _cfg0()
    n = rng.choice([510, 520, 540])
    now = BASE + rng.randrange(1000) * SEC
    ops = []
    i = 0
    while i < n:
        k = min(100, n - i)
        now += MS
        ops.append({"op": "enqueue_batch", "now": now, "enq": [{"id": "B%05d" % (i + j), "route": "r0", "target": "t0", "recv": None, "next": None,
                                                                  "body": 7, "hdr": 0, "trace": 0} for j in range(k)]})
        i += k
    T = rng.choice([SEC, 5 * SEC])
    rounds = (n + 99) // 100
    for _ in range(rounds):
        now += 1
        ops.append({"op": "dequeue", "now": now, "route": "", "target": "", "batch": 100, "ttl": T})
    now += T + rng.choice([SEC, 20 * MS])
    for _ in range(rounds + 1):
        now += MS
        ops.append({"op": "dequeue", "now": now, "route": "", "target": "", "batch": 100, "ttl": 30 * SEC})
    ops.append({"op": "stats", "now": now})
    for o in ops[-4:]:
        o["snap"] = True
    return {"cfg": cfg, "ops": ops, "snap_every": 500}


# ---------------------------------------------------------------------------
# scenario fragments: multi-step situations a uniform random walk meets too rarely.  Each is a short
# history with randomly chosen parameters; every queue-family check runs them before its random histories.

def _cfg0(**kw):
    c = {"max_depth": 0, "drop_oldest": False, "ret_age": 0, "prune_iv": 0, "deliv_age": 0, "dlq_age": 0,
         "dlq_depth": 0, "press_items": 0}
    c.update(kw)
    return c


def _enq(i, route="r0", target="t0", body=1, recv=None, nxt=None):
    return {"id": i, "route": route, "target": target, "recv": recv, "next": nxt, "body": body, "hdr": 0, "trace": 0}


def gen_scenarios(rng):
    hs = []
    # S1: several leases taken by ONE dequeue (same deadline), one of them extended, the others left to expire;
    #     dequeues before / at / after the original deadline and around the extended one
    for _ in range(3):
        k = rng.choice([2, 3, 4])
        T = rng.choice([5 * MS, 10 * MS, SEC, 30 * SEC])
        D = rng.choice([MS, 10 * MS, SEC, 5 * SEC])
        now = BASE + rng.randrange(1000) * SEC
        ops = []
        for i in range(k):
            now += rng.choice([0, 1, MS])
            ops.append({"op": "enqueue", "now": now, "enq": [_enq("s%d" % i, body=10 + i)]})
        now += 1
        ops.append({"op": "dequeue", "now": now, "route": "", "target": "", "batch": k, "ttl": T})
        d0, t0 = len(ops) - 1, now
        j = rng.randrange(k)
        now += rng.choice([0, 1, T // 2])
        ops.append({"op": "lease", "now": now, "kind": "extend", "dur": D, "reason": "", "lease": {"ref": [d0, j]}})
        if k > 2 and rng.random() < 0.5:
            ops.append({"op": "lease", "now": now, "kind": rng.choice(["ack", "nack", "dead"]), "dur": 0, "reason": "boom",
                        "lease": {"ref": [d0, (j + 1) % k]}})
        for at in (t0 + T - 1, t0 + T, t0 + T + rng.choice([0, 1, D // 2]), t0 + T + D - 1, t0 + T + D, t0 + T + D + 12 * MS):
            if at >= now:
                now = at
                ops.append({"op": "dequeue", "now": now, "route": "", "target": "", "batch": rng.choice([1, k, 100]), "ttl": 30 * SEC})
        ops.append({"op": "lease", "now": now, "kind": "extend", "dur": SEC, "reason": "", "lease": {"ref": [d0, j]}})
        ops.append({"op": "stats", "now": now})
        hs.append({"cfg": _cfg0(), "ops": ops, "snap_every": 1})
    # S2: the store is closed and opened again (a process restart) while leases are live
    for _ in range(2):
        now = BASE + rng.randrange(1000) * SEC
        T = rng.choice([30 * SEC, 3600 * SEC])
        ops = [{"op": "enqueue", "now": now, "enq": [_enq("p%d" % i, body=20 + i)]} for i in range(3)]
        now += MS
        ops.append({"op": "dequeue", "now": now, "route": "", "target": "", "batch": 2, "ttl": T})
        d0 = len(ops) - 1
        now += rng.choice([MS, SEC])
        ops.append({"op": "reopen", "now": now})
        now += rng.choice([0, MS, 11 * MS])
        ops.append({"op": "dequeue", "now": now, "route": "", "target": "", "batch": 5, "ttl": T})
        ops.append({"op": "lease", "now": now, "kind": "extend", "dur": SEC, "reason": "", "lease": {"ref": [d0, 0]}})
        ops.append({"op": "lease", "now": now, "kind": rng.choice(["ack", "nack"]), "dur": 0, "reason": "", "lease": {"ref": [d0, 1]}})
        now += T + 2 * SEC
        ops.append({"op": "dequeue", "now": now, "route": "", "target": "", "batch": 5, "ttl": SEC})
        ops.append({"op": "stats", "now": now})
        hs.append({"cfg": _cfg0(), "ops": ops, "snap_every": 1})
    # S3: nack with a delay, dequeues just before / at / after the scheduled instant
    for _ in range(2):
        now = BASE + rng.randrange(1000) * SEC
        delay = rng.choice([MS, SEC, 5 * SEC])
        ops = [{"op": "enqueue", "now": now, "enq": [_enq("n0", body=31)]}, {"op": "enqueue", "now": now, "enq": [_enq("n1", body=32)]}]
        now += 1
        ops.append({"op": "dequeue", "now": now, "route": "", "target": "", "batch": 2, "ttl": 30 * SEC})
        d0 = len(ops) - 1
        now += MS
        ops.append({"op": "lease", "now": now, "kind": "nack", "dur": delay, "reason": "", "lease": {"ref": [d0, 0]}})
        t0 = now
        for at in (t0 + delay - 1, t0 + delay, t0 + delay + 11 * MS):
            now = at
            ops.append({"op": "dequeue", "now": now, "route": "", "target": "", "batch": 5, "ttl": SEC})
        hs.append({"cfg": _cfg0(), "ops": ops, "snap_every": 1})
    # S4: retention ages count from the right instant (delivered: from the ack; queued / dead: from received_at)
    for kind in ("delivered", "dead", "queued"):
        D = rng.choice([SEC, 10 * SEC])
        iv = rng.choice([1, MS])
        cfg = _cfg0(prune_iv=iv, deliv_age=D if kind == "delivered" else 0, dlq_age=D if kind == "dead" else 0,
                    ret_age=D if kind == "queued" else 0)
        now = BASE + rng.randrange(1000) * SEC
        t0 = now
        ops = [{"op": "enqueue", "now": now, "enq": [_enq("a0", body=41)]}, {"op": "enqueue", "now": now, "enq": [_enq("a1", body=42)]}]
        if kind != "queued":
            now = t0 + (8 * D) // 10
            ops.append({"op": "dequeue", "now": now, "route": "", "target": "", "batch": 1, "ttl": 30 * SEC})
            ops.append({"op": "lease", "now": now, "kind": "ack" if kind == "delivered" else "dead", "dur": 0, "reason": "boom",
                        "lease": {"ref": [len(ops) - 1, 0]}})
        for at in (t0 + D - 1, t0 + D, t0 + (11 * D) // 10, t0 + (8 * D) // 10 + D - 1, t0 + (8 * D) // 10 + D, t0 + 2 * D + MS):
            if at >= now:
                now = at
                ops.append({"op": rng.choice(["stats", "list"]), "now": now,
                            "filt": {"route": "", "target": "", "state": "", "limit": 0, "before": None, "preview": False, "order": ""}})
        hs.append({"cfg": cfg, "ops": ops, "snap_every": 1})
    # S5: a DLQ depth cap with every age rule off (the prune has nothing to do by age, the cap must still be applied),
    #     and the mirror image: an age rule with the cap off.  Clock steps of whole seconds: also part of C13's cross comparison.
    for _ in range(3):
        depth = rng.choice([1, 2, 3])
        only_depth = rng.random() < 0.7
        cfg = _cfg0(prune_iv=rng.choice([1, MS, SEC]), dlq_depth=depth if only_depth else 0, dlq_age=0 if only_depth else 5 * SEC)
        now = BASE + rng.randrange(1000) * SEC
        ops = []
        n = depth + rng.choice([1, 2, 3])
        for i in range(n):
            now += SEC
            ops.append({"op": "enqueue", "now": now, "enq": [_enq("d%d" % i, body=50 + i)]})
        now += SEC
        ops.append({"op": "dequeue", "now": now, "route": "", "target": "", "batch": n, "ttl": 3600 * SEC})
        d0 = len(ops) - 1
        for i in range(n):
            now += SEC
            ops.append({"op": "lease", "now": now, "kind": "dead", "dur": 0, "reason": "boom", "lease": {"ref": [d0, i]}})
        for _k in range(3):
            now += rng.choice([SEC, 2 * SEC, 7 * SEC])
            ops.append({"op": rng.choice(["stats", "list_dead", "list"]), "now": now,
                        "filt": {"route": "", "target": "", "state": "", "limit": 0, "before": None, "preview": False, "order": ""}})
        now += SEC
        ops.append({"op": "manage", "now": now, "kind": "requeue_dead", "ids": ["d0", "d%d" % (n - 1)]})
        ops.append({"op": "stats", "now": now})
        hs.append({"cfg": cfg, "ops": ops, "snap_every": 1, "c13_ok": True})
    # S10: the memory-pressure guard is active (retained messages at the item limit) and refuses enqueues shortly AFTER a prune pass, while a
    #      queued message is within one prune interval of its max_age: a refused enqueue changes nothing, the message stays until it is due
    for k in range(2):
        age, iv = 60 * SEC, 20 * SEC
        cfg = _cfg0(ret_age=age, prune_iv=iv, press_items=2)
        t0 = BASE + rng.randrange(1000) * SEC
        ops = [{"op": "enqueue", "now": t0, "enq": [_enq("keep", route="r1", body=120)]},
               {"op": "enqueue", "now": t0 + SEC, "enq": [_enq("p0", body=121)]}, {"op": "enqueue", "now": t0 + SEC, "enq": [_enq("p1", body=122)]},
               {"op": "dequeue", "now": t0 + 2 * SEC, "route": "r0", "target": "", "batch": 2, "ttl": 3600 * SEC}]
        d0 = len(ops) - 1
        ops += [{"op": "lease", "now": t0 + 3 * SEC, "kind": "dead", "dur": 0, "reason": "boom", "lease": {"ref": [d0, 0]}},
                {"op": "lease", "now": t0 + 3 * SEC, "kind": "dead", "dur": 0, "reason": "boom", "lease": {"ref": [d0, 1]}},
                {"op": "stats", "now": t0 + 5 * SEC}, {"op": "stats", "now": t0 + 45 * SEC}]
        for j, at in enumerate([50, 52, 55] if k == 0 else [46, 58]):
            ops.append({"op": "enqueue" if j % 2 == 0 else "enqueue_batch", "now": t0 + at * SEC, "enq": [_enq("late%d" % j, body=130 + j)]})
        ops.append({"op": "stats", "now": t0 + 59 * SEC})
        ops.append({"op": "dequeue", "now": t0 + 59 * SEC, "route": "r1", "target": "", "batch": 1, "ttl": SEC})
        hs.append({"cfg": cfg, "ops": ops, "snap_every": 1})
    # S9: more (route, target) buckets than Stats lists (ten), the oldest / earliest-due queued message alone in a small bucket
    for k in range(2):
        now = BASE + rng.randrange(1000) * SEC
        ops = [{"op": "enqueue", "now": now, "enq": [_enq("lone", route="zz", target="t9", body=99, recv=now - 7200 * SEC, nxt=now - 5400 * SEC)]}]
        nb = rng.choice([11, 12, 14])
        for b in range(nb):
            for j in range(2 + (b % 2)):
                now += MS
                ops.append({"op": "enqueue", "now": now, "enq": [_enq("s%d_%d" % (b, j), route="r%d" % (b % 4), target="t%d" % (b // 4), body=100 + b)]})
        now += SEC
        ops.append({"op": "stats", "now": now})
        ops.append({"op": "dequeue", "now": now, "route": "zz", "target": "", "batch": 1, "ttl": 30 * SEC})
        ops.append({"op": "stats", "now": now + 1})
        hs.append({"cfg": _cfg0(), "ops": ops, "snap_every": 1, "c13_ok": True})
    # S8: ONE batch lease operation presents leases that have run out (and were not swept: no dequeue in between) together with leases
    #     that are valid for minutes: each is judged on its own - the expired ones go back to the queue, the valid ones are settled
    for k in range(3):
        now = BASE + rng.randrange(1000) * SEC
        ops = []
        for i in range(6):
            now += MS
            ops.append({"op": "enqueue", "now": now, "enq": [_enq("b%d" % i, body=95 + i)]})
        now += MS
        ops.append({"op": "dequeue", "now": now, "route": "", "target": "", "batch": 3, "ttl": 2 * SEC})        # short leases
        d_short = len(ops) - 1
        now += MS
        ops.append({"op": "dequeue", "now": now, "route": "", "target": "", "batch": 3, "ttl": 600 * SEC})      # long leases
        d_long = len(ops) - 1
        now += 5 * SEC
        refs = [{"ref": [d_short, i]} for i in range(3)] + [{"ref": [d_long, i]} for i in range(3)]
        rng.shuffle(refs)
        kind = ["ack", "nack", "dead"][k]
        ops.append({"op": "lease_batch", "now": now, "kind": kind, "dur": (30 * SEC if kind == "nack" else 0), "reason": "boom", "leases": refs})
        now += MS
        ops.append({"op": "dequeue", "now": now, "route": "", "target": "", "batch": 10, "ttl": SEC})
        ops.append({"op": "stats", "now": now})
        hs.append({"cfg": _cfg0(deliv_age=(3600 * SEC if k == 0 else 0)), "ops": ops, "snap_every": 1})
    # S7: the DLQ is over its depth cap while OLDER messages are still alive (queued on another route, or leased): the trim removes dead
    #     messages only
    for k in range(2):
        depth = rng.choice([1, 2])
        cfg = _cfg0(prune_iv=rng.choice([SEC, 5 * SEC]), dlq_depth=depth, dlq_age=(0 if k == 0 else 3600 * SEC))
        now = BASE + rng.randrange(1000) * SEC
        ops = [{"op": "enqueue", "now": now, "enq": [_enq("old-q", route="r1", body=80)]},
               {"op": "enqueue", "now": now + 1, "enq": [_enq("old-l", route="r2", body=81)]}]
        now += SEC
        ops.append({"op": "dequeue", "now": now, "route": "r2", "target": "", "batch": 1, "ttl": 3600 * SEC})      # old-l stays leased
        n = depth + rng.choice([1, 2, 3])
        for i in range(n):
            now += SEC
            ops.append({"op": "enqueue", "now": now, "enq": [_enq("x%d" % i, body=82 + i)]})
        now += SEC
        ops.append({"op": "dequeue", "now": now, "route": "r0", "target": "", "batch": n, "ttl": 3600 * SEC})
        d0 = len(ops) - 1
        for i in range(n):
            now += SEC
            ops.append({"op": "lease", "now": now, "kind": "dead", "dur": 0, "reason": "boom", "lease": {"ref": [d0, i]}})
        for _k in range(3):
            now += rng.choice([5 * SEC, 7 * SEC])
            ops.append({"op": rng.choice(["stats", "dequeue", "enqueue"]), "now": now, "route": "r9", "target": "", "batch": 1, "ttl": SEC,
                        "enq": [_enq("late%d" % _k, route="r3", body=90 + _k)],
                        "filt": {"route": "", "target": "", "state": "", "limit": 0, "before": None, "preview": False, "order": ""}})
        ops.append({"op": "stats", "now": now})
        hs.append({"cfg": cfg, "ops": ops, "snap_every": 1, "c13_ok": True})
    # S6: a full queue refuses an enqueue, then the queued messages age out of retention: the very next enqueue (no other call in
    #     between) prunes first and must be admitted; same with a batch, and under drop_oldest (nothing may be evicted then)
    for k in range(3):
        depth = rng.choice([1, 2, 3])
        age = rng.choice([5 * SEC, 30 * SEC])
        cfg = _cfg0(max_depth=depth, drop_oldest=(k == 2), ret_age=age, prune_iv=rng.choice([SEC, 2 * SEC]))
        now = BASE + rng.randrange(1000) * SEC
        ops = []
        for i in range(depth):
            now += SEC
            ops.append({"op": "enqueue", "now": now, "enq": [_enq("f%d" % i, body=60 + i)]})
        now += SEC
        ops.append({"op": "enqueue", "now": now, "enq": [_enq("over", body=69)]})          # refused (or evicts, under drop_oldest)
        now += age + rng.choice([SEC, 3 * SEC])
        if k == 1:
            ops.append({"op": "enqueue_batch", "now": now, "enq": [_enq("late%d" % j, body=70 + j) for j in range(depth)]})
        else:
            ops.append({"op": "enqueue", "now": now, "enq": [_enq("late", body=70)]})
        now += SEC
        ops.append({"op": "enqueue", "now": now, "enq": [_enq("late-b", body=71)]})
        ops.append({"op": "stats", "now": now})
        hs.append({"cfg": cfg, "ops": ops, "snap_every": 1, "c13_ok": True})
    # S11: a depth limit in the hundreds under drop_oldest (the shipped default is 10000): the queue is filled to the limit, then single
    #      enqueues and a small batch arrive - each stored message evicts exactly one oldest queued message, whatever the size of the limit
    for depth in (200, 300):
        cfg = _cfg0(max_depth=depth, drop_oldest=True)
        now = BASE + rng.randrange(1000) * SEC
        ops = []
        i = 0
        while i < depth:
            k = min(100, depth - i)
            now += MS
            ops.append({"op": "enqueue_batch", "now": now, "enq": [_enq("F%04d" % (i + j), body=3, recv=now - (depth - i - j) * SEC) for j in range(k)]})
            i += k
        now += MS
        ops.append({"op": "dequeue", "now": now, "route": "", "target": "", "batch": 2, "ttl": 600 * SEC, "snap": True})
        for j in range(3):
            now += MS
            ops.append({"op": "enqueue", "now": now, "enq": [_enq("N%d" % j, body=4 + j)], "snap": True})
        now += MS
        ops.append({"op": "enqueue_batch", "now": now, "enq": [_enq("NB0", body=8), _enq("NB1", body=9)], "snap": True})
        ops.append({"op": "stats", "now": now, "snap": True})
        hs.append({"cfg": cfg, "ops": ops, "snap_every": 1000, "c13_ok": True})
    # S12: a retention prune is DUE (a message has aged out, no pruning call since) when a call arrives that is refused for its arguments -
    #      a listing with an order that is none of "", asc, desc - and the next calls address messages by id (they never prune): every store
    #      runs the due prune inside the refused listing all the same, so the by-id calls see the same queue everywhere
    for kind in ("dead", "queued", "dead"):
        D, iv = 30 * SEC, 5 * SEC
        cfg = _cfg0(prune_iv=iv, dlq_age=D if kind == "dead" else 0, ret_age=D if kind == "queued" else 0)
        t0 = BASE + rng.randrange(1000) * SEC
        ops = [{"op": "enqueue", "now": t0, "enq": [_enq("old", body=140)]}, {"op": "enqueue", "now": t0 + 20 * SEC, "enq": [_enq("young", body=141)]}]
        if kind == "dead":
            ops.append({"op": "dequeue", "now": t0 + 21 * SEC, "route": "", "target": "", "batch": 2, "ttl": 600 * SEC})
            d0 = len(ops) - 1
            ops += [{"op": "lease", "now": t0 + 22 * SEC, "kind": "dead", "dur": 0, "reason": "boom", "lease": {"ref": [d0, j]}} for j in (0, 1)]
        late = t0 + D + iv + rng.choice([1, SEC, 3 * SEC])
        bad = {"route": "", "target": "", "state": "", "limit": 0, "before": None, "preview": False, "order": rng.choice(["bogus", "ASC", " desc ", "newest"])}
        ops.append({"op": "list", "now": late, "filt": bad})
        ops.append({"op": "lookup", "now": late + 1, "ids": ["old", "young"]})
        if kind == "dead":
            ops.append({"op": "manage", "now": late + 2, "kind": rng.choice(["requeue_dead", "delete_dead"]), "ids": ["old", "young"]})
        else:
            ops.append({"op": "manage", "now": late + 2, "kind": "cancel", "ids": ["old", "young"]})
        ops.append({"op": "dequeue", "now": late + 3, "route": "", "target": "", "batch": 5, "ttl": SEC})
        ops.append({"op": "stats", "now": late + 4})
        hs.append({"cfg": cfg, "ops": ops, "snap_every": 1, "c13_ok": True})
    # S13: operator mutations over several hundred messages at once (by-filter limits go up to 1000; an id list is as long as the operator makes
    #      it): every selected message is changed and counted, whatever the size of the selection
    for k in range(2):
        n = rng.choice([510, 560, 620]) if k == 0 else rng.choice([501, 530])
        now = BASE + rng.randrange(1000) * SEC
        ops = []
        i = 0
        while i < n:
            m = min(100, n - i)
            now += MS
            ops.append({"op": "enqueue_batch", "now": now, "enq": [_enq("M%04d" % (i + j), body=2, recv=now - (n - i - j) * MS) for j in range(m)]})
            i += m
        f = {"route": "", "target": "", "state": "", "limit": 1000, "before": None, "preview": False, "order": ""}
        now += SEC
        if k == 0:
            ops.append({"op": "manage_f", "now": now, "kind": "cancel", "filt": dict(f, preview=True), "snap": True})
            ops.append({"op": "manage_f", "now": now + 1, "kind": "cancel", "filt": dict(f), "snap": True})
            ops.append({"op": "manage_f", "now": now + 2, "kind": "resume", "filt": dict(f, limit=n - 7), "snap": True})
            ops.append({"op": "manage", "now": now + 3, "kind": "cancel", "ids": ["M%04d" % j for j in range(0, n, 1)][:n - 3], "snap": True})
        else:
            ops.append({"op": "manage", "now": now, "kind": "cancel", "ids": ["M%04d" % j for j in range(n)], "snap": True})
            ops.append({"op": "manage", "now": now + 1, "kind": "requeue", "ids": ["M%04d" % j for j in range(n - 1, -1, -1)], "snap": True})
        ops.append({"op": "stats", "now": now + 5, "snap": True})
        hs.append({"cfg": _cfg0(), "ops": ops, "snap_every": 5000, "c13_ok": True, "only": ["C14"]})
    # S14: a lease has run out (its worker is gone) while the queue never runs dry: every following dequeue finds at least `batch` other
    #      ready messages.  The abandoned message is offered again by the first dequeue after its lease ended all the same - it is the oldest
    for b in (1, 2, 3):
        now = BASE + rng.randrange(1000) * SEC
        ops = [{"op": "enqueue", "now": now, "enq": [_enq("lost", body=150)]},
               {"op": "dequeue", "now": now + MS, "route": "", "target": "", "batch": 1, "ttl": SEC}]
        now += 2 * SEC
        for rnd in range(4):
            for j in range(b):
                now += MS
                ops.append({"op": "enqueue", "now": now, "enq": [_enq("n%d_%d" % (rnd, j), body=151 + j)]})
            now += 50 * MS
            ops.append({"op": "dequeue", "now": now, "route": "", "target": "", "batch": b, "ttl": 30 * SEC})
            d = len(ops) - 1
            for j in range(b):
                ops.append({"op": "lease", "now": now + 1, "kind": "ack", "dur": 0, "reason": "", "lease": {"ref": [d, j]}})
        ops.append({"op": "stats", "now": now + 2})
        hs.append({"cfg": _cfg0(), "ops": ops, "snap_every": 1, "c13_ok": True})
    # S15: one dequeue asking for more than the per-call cap (100) while more than that are ready: every store hands out the same number
    for n, b in ((150, 150), (130, 1000)):
        now = BASE + rng.randrange(1000) * SEC
        ops = []
        i = 0
        while i < n:
            m = min(100, n - i)
            now += MS
            ops.append({"op": "enqueue_batch", "now": now, "enq": [_enq("C%04d" % (i + j), body=6, recv=now - (n - i - j) * MS) for j in range(m)]})
            i += m
        now += SEC
        ops.append({"op": "dequeue", "now": now, "route": "", "target": "", "batch": b, "ttl": 30 * SEC, "snap": True})
        ops.append({"op": "dequeue", "now": now + MS, "route": "", "target": "", "batch": b, "ttl": 30 * SEC, "snap": True})
        ops.append({"op": "stats", "now": now + 2 * MS, "snap": True})
        hs.append({"cfg": _cfg0(), "ops": ops, "snap_every": 1000, "c13_ok": True, "only": ["C13", "C05"]})
    # S16: a batch of more than a hundred messages that FAILS on an item far down the list (an id repeated inside the batch, an id that is
    #      already stored): the batch is refused as a whole - nothing of it is stored, whatever its size
    for k in range(2):
        now = BASE + rng.randrange(1000) * SEC
        ops = [{"op": "enqueue", "now": now, "enq": [_enq("old0", body=160)]}]
        n = rng.choice([150, 230])
        enq = [_enq("Z%04d" % j, body=7) for j in range(n)]
        if k == 0:
            enq[120] = dict(enq[120], id=enq[7]["id"])        # repeated inside the batch
        else:
            enq[n - 20] = dict(enq[n - 20], id="old0")        # already stored
        ops.append({"op": "enqueue_batch", "now": now + MS, "enq": enq, "snap": True})
        ops.append({"op": "stats", "now": now + 2 * MS, "snap": True})
        ops.append({"op": "enqueue_batch", "now": now + 3 * MS, "enq": [_enq("Z%04d" % j, body=7) for j in range(n)], "snap": True})   # the corrected batch goes in whole
        ops.append({"op": "stats", "now": now + 4 * MS, "snap": True})
        hs.append({"cfg": _cfg0(), "ops": ops, "snap_every": 1000, "c13_ok": True, "only": ["C02", "C13", "C12"]})
    # S17: dead-letter reasons with white space around a non-blank core (an upstream error line ending in CR LF, a padded token), through
    #      the single and the batch call: every backend keeps the reason as given
    for k in range(2):
        now = BASE + (617 + 131 * k) * SEC        # no draw from rng: the histories generated after the scenarios stay as they were
        ops = [{"op": "enqueue", "now": now + j, "enq": [_enq("w%d" % j, body=170 + j)]} for j in range(4)]
        ops.append({"op": "dequeue", "now": now + MS, "route": "", "target": "", "batch": 4, "ttl": 30 * SEC})
        d0 = len(ops) - 1
        if k == 0:
            for j in range(3):
                ops.append({"op": "lease", "now": now + 2 * MS + j, "kind": "dead", "dur": 0, "reason": EXTRA_REASONS[j], "lease": {"ref": [d0, j]}, "snap": True})
            # a white-space-only reason is no reason: stored as the empty reason by every backend
            ops.append({"op": "lease", "now": now + 2 * MS + 3, "kind": "dead", "dur": 0, "reason": " \t", "lease": {"ref": [d0, 3]}, "snap": True})
        else:
            ops.append({"op": "lease_batch", "now": now + 2 * MS, "kind": "dead", "dur": 0, "reason": EXTRA_REASONS[1], "leases": [{"ref": [d0, 0]}, {"ref": [d0, 1]}], "snap": True})
            ops.append({"op": "lease", "now": now + 2 * MS + 1, "kind": "dead", "dur": 0, "reason": EXTRA_REASONS[0], "lease": {"ref": [d0, 2]}, "snap": True})
            ops.append({"op": "lease_batch", "now": now + 2 * MS + 2, "kind": "dead", "dur": 0, "reason": "  ", "leases": [{"ref": [d0, 3]}], "snap": True})
        ops.append({"op": "stats", "now": now + 3 * MS, "snap": True})
        hs.append({"cfg": _cfg0(), "ops": ops, "snap_every": 1, "c13_ok": True, "only": ["C13"]})
    return hs
