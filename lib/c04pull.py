"""C04 at the pull layer: the idempotent duplicate answer (recentLeaseOps) and the HTTP / gRPC status mapping.

run(ctx, info, rng) generates call sequences (scenario fragments + random calls), runs them through the real
pullapi.Server (HTTP handler) and the real workerapi.Server (in-process service calls) on the real memory and
SQLite stores (harness `pullops`), evaluates Model/PullOps.v on the same sequences inside Coq (the store's choices
- which messages a dequeue returned under which lease ids - are oracle inputs the model validates) and compares,
after every call: status / gRPC code, body, the request the store received for a dequeue, a checksum of the complete
stored state and the recent-ops cache entry by entry.  Independently of the model the property is evaluated on
the implementation's own trace: a call whose lease is not current must change nothing (except releasing the expired
lease it names), must be answered 409 / FailedPrecondition, and may be answered with success only when an earlier
call with the same (lease id, op) succeeded at the store less than RecentLeaseOpTTL ago - and then nothing at all
may change.  Violations are reported under keys `pull:<class>:<call>`; the fragment returned is merged into the
coverage of the C04 evidence."""
import copy
import json
import os
import re

from lib import common as C
from lib import queuecheck as Q

BASE = 1_700_000_000_000_000_000
MS = 1_000_000
SEC = 1_000_000_000
FL = {"memory": "Mem", "sqlite": "Sql"}
ECODE = {"invalid_body": 1, "lease_conflict": 2, "store_unavailable": 3, "internal_error": 4, "route_not_found": 5,
         "operation_not_found": 6, "method_not_allowed": 7}
RAW = {
    "bad_method": ("RkBadMethod", "GET", "/e0/ack", '{"lease_id":"x"}'),
    "bad_method_put": ("RkBadMethod", "PUT", "/e0/dequeue", '{}'),
    "unknown_endpoint": ("RkUnknownEndpoint", "POST", "/nope/ack", '{"lease_id":"x"}'),
    "unknown_endpoint_root": ("RkUnknownEndpoint", "POST", "/ack", '{"lease_id":"x"}'),
    "unknown_op": ("RkUnknownOp", "POST", "/e0/release", '{"lease_id":"x"}'),
    "bad_json": ("RkBadJSON", "POST", "/e0/ack", '{"lease_id":'),
    "bad_json_type": ("RkBadJSON", "POST", "/e0/ack", '{"lease_id":5}'),
    "empty_body": ("RkBadJSON", "POST", "/e0/nack", ''),
    "trailing_json": ("RkBadJSON", "POST", "/e0/ack", '{"lease_id":"x"} {"lease_id":"y"}'),
    "unknown_field": ("RkBadJSON", "POST", "/e0/nack", '{"lease_id":"x","bogus":1}'),
    "bad_json_dequeue": ("RkBadJSON", "POST", "/e0/dequeue", '{"batch":"many"}'),
    "bad_duration_ttl": ("RkBadDuration", "POST", "/e0/dequeue", '{"batch":1,"lease_ttl":"soon"}'),
    "bad_duration_wait": ("RkBadDuration", "POST", "/e0/dequeue", '{"batch":1,"max_wait":"5 parsecs"}'),
    "bad_duration_extend": ("RkBadDuration", "POST", "/e0/extend", '{"lease_id":"x","extend_by":"1 fortnight"}'),
    "bad_duration_nack": ("RkBadDuration", "POST", "/e0/nack", '{"lease_id":"x","delay":"later"}'),
}
ENDPOINT_ROUTE = {"/e0": "r0", "/e1": "r1", "/e2": "r2"}
REASONS = Q.REASONS


# ---------------------------------------------------------------------------
# generator

def gen_pcfg(rng):
    p = {"target": "pull", "default_ttl": 30 * SEC, "max_batch": 100, "max_lease_batch": 100, "max_ttl": 0,
         "default_wait": 0, "max_wait": 0, "recent_ttl": 120 * SEC, "recent_cap": 20000}
    r = rng.random()
    if r < 0.25:
        return p
    p["recent_ttl"] = rng.choice([120 * SEC, 5 * SEC, SEC, 2 * SEC, 0, -1, 1])
    p["recent_cap"] = rng.choice([20000, 20000, 1, 2, 3, 0, -5])
    p["max_batch"] = rng.choice([100, 100, 0, 1, 3, 150, -1])
    p["max_lease_batch"] = rng.choice([100, 100, 0, 1, 3, 4])
    p["default_ttl"] = rng.choice([30 * SEC, 30 * SEC, 5 * SEC, SEC, 0])
    p["max_ttl"] = rng.choice([0, 0, 10 * SEC, SEC, 60 * SEC])
    p["default_wait"] = rng.choice([0, 0, SEC, 5 * SEC])
    p["max_wait"] = rng.choice([0, 0, 500 * MS, 10 * SEC])
    if rng.random() < 0.15:
        p["target"] = ""
    return p


def gen_cfg(rng):
    c = {"max_depth": 0, "drop_oldest": False, "ret_age": 0, "prune_iv": 0, "deliv_age": 0, "dlq_age": 0,
         "dlq_depth": 0, "press_items": 0}
    if rng.random() < 0.5:
        c["deliv_age"] = 3600 * SEC      # acked messages stay visible as "delivered" (no pruning: prune_iv = 0)
    return c


class HB:
    """history builder: two clocks (store `now`, pull server `cnow` = now + skew), symbolic lease references"""

    def __init__(self, rng, cfg, pcfg):
        self.rng = rng
        self.cfg = cfg
        self.pcfg = pcfg
        self.now = BASE + rng.randrange(0, 1000) * SEC
        self.skew = rng.choice([0, 0, 0, 7 * SEC, -3 * SEC, 123456789])
        self.ops = []
        self.next_id = 0
        self.body = 1
        self.deqs = []           # (op index, expected number of items)
        self.tags = set()
        self.ttl = pcfg["recent_ttl"] if pcfg["recent_ttl"] > 0 else 120 * SEC

    def add(self, op):
        op["now"] = self.now
        op["cnow"] = self.now + self.skew
        self.ops.append(op)
        return len(self.ops) - 1

    def tick(self, d):
        self.now += d

    def target(self):
        return self.pcfg["target"] or "pull"

    def enqueue(self, route="r0", target=None, next_in=None, recv=None):
        mid = "m%02d" % self.next_id
        self.next_id += 1
        self.body += 1
        e = {"id": mid, "route": route, "target": target if target is not None else self.target(), "recv": recv,
             "next": (self.now + next_in) if next_in is not None else None, "body": self.body,
             "hdr": self.rng.choice([0, 0, 1]), "trace": self.rng.choice([0, 0, 1])}
        self.add({"op": "enqueue", "enq": e})
        return mid

    def dequeue(self, endpoint="/e0", batch=1, ttl=None, wait=None, expect=None):
        k = self.add({"op": "dequeue", "endpoint": endpoint, "batch": batch, "ttl": ttl, "wait": wait})
        self.deqs.append((k, expect if expect is not None else max(1, min(batch, 3))))
        return k

    def ack(self, lease=None, leases=None, endpoint="/e0"):
        return self.add({"op": "ack", "lease": lease, "leases": leases, "endpoint": endpoint})

    def nack(self, lease=None, leases=None, dead=False, reason="", delay=None, endpoint="/e0"):
        return self.add({"op": "nack", "lease": lease, "leases": leases, "dead": dead, "reason": reason,
                         "delay": delay if delay is not None else 0, "has_delay": delay is not None, "endpoint": endpoint})

    def extend(self, lease=None, by=None, endpoint="/e0"):
        return self.add({"op": "extend", "lease": lease, "by": by, "endpoint": endpoint})

    def manage(self, kind, ids):
        return self.add({"op": "manage", "kind": kind, "ids": ids})

    def raw(self, kind):
        _, method, path, body = RAW[kind]
        return self.add({"op": "raw", "kind": kind, "method": method, "path": path, "body": body})

    def down(self, v):
        return self.add({"op": "down", "down": v})

    def some_ref(self):
        rng = self.rng
        r = rng.random()
        if not self.deqs or r < 0.07:
            return rawl(rng.choice(["lease_x1", "lease_x2", "lease_0123456789abcdef"]))
        if r < 0.11:
            return rawl(rng.choice(["", " ", "\t "]))
        k, n = self.deqs[-1] if rng.random() < 0.55 else rng.choice(self.deqs)
        j = rng.randrange(0, n) if (n > 0 and rng.random() < 0.9) else n
        if rng.random() < 0.07:
            return suffixed(ref(k, j), rng)
        return ref(k, j, pad=rng.random() < 0.06)


def ref(k, j=0, pad=False):
    d = {"ref": [k, j]}
    if pad:
        d["pad"] = True
    return d


def rawl(s):
    return {"raw": s}


def suffixed(r, rng):
    """an id nobody issued that begins with a real lease id (a client that glued two ids together, appended a marker, ...)"""
    return dict(r, suffix=rng.choice(["-retry", "0", ",lease_0000000000000000", "\u0000", "_", "lease_"]))


def edge(rng, x):
    """a duration around the boundary x"""
    return rng.choice([x - 1, x, x + 1, x - 1, x, x + 1, 0, 1, x // 2, 2 * x, x - MS, x + MS])


# -- scenario fragments (each leaves its own messages behind; ids are never reused) -----------------------

def frag_dup_ack(b, rng):
    """ack, then the duplicate around the idempotency window (TTL-1, TTL, TTL+1 on the server clock)"""
    b.tags.add("dup-ack-ttl-edge")
    b.enqueue()
    k = b.dequeue(ttl=rng.choice([None, 600 * SEC]))
    b.tick(rng.choice([0, 1, MS]))
    b.ack(ref(k))
    if rng.random() < 0.35:
        b.ack(suffixed(ref(k), rng))       # not a duplicate of anything: an id that only begins like the one just acked
    b.tick(edge(rng, b.ttl))
    b.ack(ref(k, pad=rng.random() < 0.2))
    if rng.random() < 0.5:
        b.tick(rng.choice([0, 1, b.ttl]))
        b.ack(ref(k))
    if rng.random() < 0.4:
        b.nack(ref(k), delay=SEC)          # other op kind: never answered from the ack entry
        b.extend(ref(k), by=SEC)


def frag_released(b, rng):
    """lease expires, message goes to another worker; the first worker's calls must not touch it"""
    b.tags.add("ack-after-release")
    b.enqueue()
    ttl = rng.choice([SEC, 5 * SEC, 20 * MS])
    k1 = b.dequeue(ttl=ttl)
    b.tick(edge(rng, ttl))
    if rng.random() < 0.7:
        k2 = b.dequeue(ttl=rng.choice([30 * SEC, None]))
    else:
        k2 = None
    kind = rng.choice(["ack", "nack", "dead", "extend"])
    lease_call(b, rng, kind, ref(k1))
    if rng.random() < 0.5:
        lease_call(b, rng, rng.choice(["ack", "nack", "extend"]), ref(k1))
    if k2 is not None:
        b.tick(rng.choice([0, MS]))
        lease_call(b, rng, rng.choice(["ack", "nack", "extend", "dead"]), ref(k2))
        if rng.random() < 0.5:
            b.tick(rng.choice([0, 1, b.ttl - 1, b.ttl]))
            lease_call(b, rng, rng.choice(["ack", "nack"]), ref(k2))


def frag_cancel_requeue(b, rng):
    """operator cancels / requeues while a worker holds the lease"""
    b.tags.add("ack-after-cancel-requeue")
    mid = b.enqueue()
    k1 = b.dequeue(ttl=rng.choice([None, 60 * SEC]))
    b.tick(rng.choice([0, MS]))
    b.manage("cancel", [mid])
    lease_call(b, rng, rng.choice(["ack", "nack", "extend", "dead"]), ref(k1))
    b.manage(rng.choice(["requeue", "resume"]), [mid])
    lease_call(b, rng, rng.choice(["ack", "nack", "extend"]), ref(k1))
    if rng.random() < 0.7:
        k2 = b.dequeue()
        lease_call(b, rng, rng.choice(["ack", "nack", "dead"]), ref(k1))
        b.tick(MS)
        lease_call(b, rng, rng.choice(["ack", "nack", "extend"]), ref(k2))


def frag_nack_dup(b, rng):
    """nack with a delay, duplicate nack (other delay), also after the message was leased again"""
    b.tags.add("dup-nack")
    b.enqueue()
    k = b.dequeue()
    d = rng.choice([0, SEC, 5 * SEC, -SEC, None])
    b.nack(ref(k), delay=d)
    b.tick(rng.choice([0, 1, MS]))
    b.nack(ref(k), delay=rng.choice([60 * SEC, 0, None]))
    if rng.random() < 0.6:
        b.tick(max(d or 0, 0) + rng.choice([0, 1, -1]))
        k2 = b.dequeue()
        b.nack(ref(k), delay=rng.choice([60 * SEC, None]), dead=rng.random() < 0.3, reason="boom")
        b.ack(ref(k))
        if rng.random() < 0.5:
            b.tick(edge(rng, b.ttl))
            b.nack(ref(k), delay=SEC)
        if rng.random() < 0.5:
            b.ack(ref(k2))


def frag_nack_dead(b, rng):
    b.tags.add("nack-dead")
    b.enqueue()
    k = b.dequeue()
    b.nack(ref(k), dead=True, reason=rng.choice(REASONS))
    b.tick(rng.choice([0, 1, b.ttl - 1, b.ttl]))
    b.nack(ref(k), dead=rng.random() < 0.5, reason="boom", delay=rng.choice([None, SEC]))
    if rng.random() < 0.5:
        b.ack(ref(k))


def frag_extend(b, rng):
    b.tags.add("extend")
    b.enqueue()
    ttl = rng.choice([SEC, 5 * SEC])
    k = b.dequeue(ttl=ttl)
    b.extend(ref(k), by=rng.choice([SEC, 1, 3600 * SEC]))
    b.extend(ref(k), by=rng.choice([0, -SEC, -1]))
    b.extend(rawl(rng.choice(["lease_x1", "", " "])), by=rng.choice([0, -1, SEC]))
    b.extend(ref(k), by=None)
    if rng.random() < 0.6:
        b.ack(ref(k))
        b.extend(ref(k), by=SEC)              # positive extend after a successful ack: never idempotent
        b.extend(ref(k), by=0)
    else:
        b.tick(3700 * SEC)
        b.extend(ref(k), by=SEC)


def frag_heartbeat(b, rng):
    """a worker keeps its lease alive: the SAME extend (same lease, same duration) again and again, each before the deadline the previous
    one gave; every one of them moves the deadline; another worker polling meanwhile gets nothing until the last deadline has passed"""
    b.tags.add("heartbeat")
    b.enqueue()
    # (durations with a fractional-second part as well: over gRPC they travel as seconds + nanos)
    ttl = rng.choice([2 * SEC, 5 * SEC, 2500 * MS])
    by = rng.choice([2 * SEC, 5 * SEC, 30 * SEC, 2500 * MS, 1500 * MS, 2 * SEC + 999 * MS])
    k = b.dequeue(ttl=ttl)
    n = rng.choice([2, 3, 4])
    for _ in range(n):
        b.tick(rng.choice([MS, SEC]))
        b.extend(ref(k), by=by)
        b.dequeue(expect=0)                    # a second worker: nothing to get while the lease is live
    b.tick(ttl + (n - 1) * by)                 # past the first deadlines, still before the deadline the last extend gave
    b.dequeue(expect=0)
    b.tick(by + SEC)
    b.dequeue(expect=1)


def frag_batch(b, rng):
    """batch calls: duplicates, blank ids, padded ids, unknown ids, stale ids, re-sent batches, size limit"""
    b.tags.add("batch")
    n = rng.choice([2, 3, 4])
    for _ in range(n):
        b.enqueue()
    old = None
    if b.deqs and rng.random() < 0.6:
        old = ref(b.deqs[0][0], 0)
    k = b.dequeue(batch=n, expect=n)
    ids = [ref(k, j) for j in range(n)]
    kind = rng.choice(["ack", "nack", "dead"])
    pre = rng.random()
    if pre < 0.3:
        lease_call(b, rng, kind if kind != "dead" else "nack", ids[0])      # settle one singly first: cached in the batch
    elif pre < 0.45:
        lease_call(b, rng, "ack" if kind != "ack" else "nack", ids[0])      # settled under the other op: conflict in the batch
    mix = list(ids)
    if rng.random() < 0.6:
        mix.insert(rng.randrange(len(mix) + 1), dict(ids[0]))
    if rng.random() < 0.5:
        mix.insert(rng.randrange(len(mix) + 1), rawl(rng.choice(["", "  "])))
    if rng.random() < 0.5:
        mix.insert(rng.randrange(len(mix) + 1), rawl("lease_x1"))
    if rng.random() < 0.4:
        mix.insert(rng.randrange(len(mix) + 1), suffixed(ids[rng.randrange(len(ids))], rng))
    if rng.random() < 0.3:
        mix[-1] = dict(mix[-1], pad=True)
    if old is not None:
        mix.insert(rng.randrange(len(mix) + 1), old)
    if rng.random() < 0.3:
        mix = mix[:-1]
    batch_call(b, rng, kind, mix)
    b.tick(rng.choice([0, 1, MS, b.ttl - 1, b.ttl]))
    batch_call(b, rng, kind, mix if rng.random() < 0.7 else ids)
    if rng.random() < 0.4:
        batch_call(b, rng, "ack" if kind != "ack" else "nack", ids)


def frag_batch_stale_retry(b, rng):
    """a batch that contains ids that are stale in every way (operator-cancelled, superseded after expiry and re-dequeue,
    settled by the other op, unknown) next to a valid one; then retries of exactly those ids, single and batch, inside the
    idempotency window: none of them ever succeeded, so every retry must be a conflict again"""
    b.tags.add("batch-stale-retry")
    kind = rng.choice(["ack", "nack", "dead"])
    m_cancel = b.enqueue()
    k_cancel = b.dequeue(ttl=rng.choice([None, 600 * SEC]))
    b.manage("cancel", [m_cancel])
    if rng.random() < 0.5:
        b.manage(rng.choice(["requeue", "resume"]), [m_cancel])
        b.tick(MS)
        b.dequeue()                                     # now leased to another worker under a new id
    b.enqueue()
    short = rng.choice([20 * MS, SEC])
    k_old = b.dequeue(ttl=short)
    b.tick(short + rng.choice([10 * MS, SEC]))
    b.dequeue(ttl=600 * SEC)                            # superseded: same message, new lease id
    b.enqueue()
    k_other = b.dequeue()
    lease_call(b, rng, "nack" if kind == "ack" else "ack", ref(k_other))      # settled by the other op
    b.enqueue()
    k_good = b.dequeue(ttl=600 * SEC)
    stale = [ref(k_cancel), ref(k_old), ref(k_other), rawl("lease_x1")]
    rng.shuffle(stale)
    stale = stale[:rng.choice([2, 3, 4, 4])]
    mix = list(stale)
    mix.insert(rng.randrange(len(mix) + 1), ref(k_good))
    batch_call(b, rng, kind, mix)
    b.tick(rng.choice([0, 1, MS, SEC]))
    for r in stale:
        if rng.random() < 0.7:
            lease_call(b, rng, kind, dict(r))
    b.tick(rng.choice([0, 1, MS]))
    batch_call(b, rng, kind, stale)
    if rng.random() < 0.5:
        batch_call(b, rng, kind, mix)
    if rng.random() < 0.5:
        b.tick(b.ttl)
        batch_call(b, rng, kind, stale)


def frag_batch_shape(b, rng):
    """requests normalizeLeaseIDs rejects, and the size limit"""
    b.tags.add("batch-shape")
    lim = b.pcfg["max_lease_batch"]
    many = [rawl("lease_f%03d" % i) for i in range((lim if 0 < lim <= 4 else 100) + 1)]
    choice = rng.choice(["both", "empty", "blank_only", "too_many", "exactly_max", "none", "dups_fit"])
    if choice == "both":
        b.ack(lease=rawl("lease_x1"), leases=[rawl("lease_x2")])
    elif choice == "empty":
        b.nack(leases=[])
    elif choice == "blank_only":
        b.ack(leases=[rawl(""), rawl(" "), rawl("\t")])
    elif choice == "too_many":
        b.add({"op": rng.choice(["ack", "nack"]), "lease": None, "leases": many, "dead": False, "reason": "", "delay": 0,
               "has_delay": False, "endpoint": "/e0"})
    elif choice == "exactly_max":
        b.ack(leases=many[:-1])
    elif choice == "dups_fit":
        b.ack(leases=many[:-1] + [many[0], rawl(" "), many[1]])     # duplicates and blanks do not count
    else:
        b.ack()
    b.ack(lease=rawl(rng.choice(["", "  "])))
    b.nack(lease=rawl(" "), leases=[rawl("lease_x1")])                # blank lease_id + list => batch


def frag_raw(b, rng):
    b.tags.add("raw")
    for _ in range(rng.choice([1, 2, 3])):
        b.raw(rng.choice(sorted(RAW)))


def frag_capacity(b, rng):
    """more settled leases than RecentLeaseOpCap: the oldest entries are evicted"""
    b.tags.add("capacity")
    n = rng.choice([2, 3, 4])
    ks = []
    for _ in range(n):
        b.enqueue()
        ks.append(b.dequeue())
    for k in ks:
        if rng.random() < 0.7:
            b.ack(ref(k))
        else:
            b.nack(ref(k), delay=60 * SEC)
        b.tick(rng.choice([0, 1, MS]))
    order = list(ks)
    rng.shuffle(order)
    for k in order:
        lease_call(b, rng, rng.choice(["ack", "ack", "nack"]), ref(k))


def frag_down(b, rng):
    """the store fails with an unclassified error: 503 for dequeue, 500 for lease calls, cached answers still 204"""
    b.tags.add("store-down")
    b.enqueue()
    b.enqueue()
    k = b.dequeue(batch=2, expect=2)
    b.ack(ref(k, 0))
    b.down(True)
    b.dequeue(expect=0)
    b.ack(ref(k, 0))
    b.ack(ref(k, 1))
    b.extend(ref(k, 1), by=rng.choice([SEC, 0]))
    batch_call(b, rng, "ack", [ref(k, 0), ref(k, 1)])
    batch_call(b, rng, "ack", [ref(k, 0)])
    b.down(False)
    b.ack(ref(k, 1))


def frag_down_retry(b, rng):
    """a single lease call fails with a store fault (500); the lease then runs out / the message is re-leased or canceled; the worker
    retries with the OLD lease id, singly and inside a batch: a call that never succeeded has no duplicate - the retry is a conflict"""
    b.tags.add("store-down-retry")
    b.enqueue()
    b.enqueue()
    k = b.dequeue(batch=2, ttl=rng.choice([2 * SEC, 5 * SEC]), expect=2)
    kind = rng.choice(["ack", "nack", "dead"])
    b.down(True)
    if kind == "ack":
        b.ack(ref(k, 0))
    elif kind == "nack":
        b.nack(ref(k, 0), delay=SEC)
    else:
        b.nack(ref(k, 0), dead=True, reason="boom")
    b.down(False)
    how = rng.choice(["expire", "expire-release", "cancel"])
    if how == "cancel":
        b.manage("cancel", ["m%02d" % (b.next_id - 2)])
    else:
        b.tick(6 * SEC)
        if how == "expire-release":
            b.dequeue(batch=2, ttl=60 * SEC, expect=2)        # both messages are leased again, under new ids
    b.tick(rng.choice([0, MS, SEC]))
    if kind == "ack":
        b.ack(ref(k, 0))
    elif kind == "nack":
        b.nack(ref(k, 0), delay=SEC)
    else:
        b.nack(ref(k, 0), dead=True, reason="boom")
    batch_call(b, rng, "ack" if kind == "ack" else "nack", [ref(k, 0), ref(k, 1)])


def frag_clamps(b, rng):
    """dequeue clamps: batch <= 0 -> 1, MaxBatch, store cap 100, lease ttl default / maximum, max_wait"""
    b.tags.add("dequeue-clamps")
    n = rng.choice([0, 1, 3, 5])
    for _ in range(n):
        b.enqueue(route=rng.choice(["r0", "r0", "r1"]), target=rng.choice([None, None, "t1"]),
                  next_in=rng.choice([None, None, SEC, -SEC]))
    mb, mt, mw = b.pcfg["max_batch"], b.pcfg["max_ttl"], b.pcfg["max_wait"]
    for _ in range(rng.choice([2, 3, 4])):
        batch = rng.choice([-1, 0, 1, 2, 3, 5, 100, 101, 150, 1000] + ([mb, mb + 1, mb - 1, 2 * mb] if mb > 0 else []))
        b.dequeue(endpoint=rng.choice(["/e0", "/e0", "/e1"]), batch=batch,
                  ttl=rng.choice([None, 0, -SEC, 1, SEC, 10 * SEC, 10 * SEC + 1, 3600 * SEC] + ([mt, mt + 1, mt - 1, 2 * mt - 1, 2 * mt + 1] * 2 if mt > 0 else [])),
                  wait=rng.choice([None, None, 0, 100 * MS, 10 * SEC, -SEC] + ([mw, mw + 1, mw - 1, 2 * mw] if mw > 0 else [])),
                  expect=max(1, min(batch, n, 3)))
        b.tick(rng.choice([0, 1, SEC, 10 * MS]))


def frag_clock(b, rng):
    """the pull server's clock jumps (also backwards) between a success and its duplicate"""
    b.tags.add("server-clock-jump")
    b.enqueue()
    k = b.dequeue()
    b.ack(ref(k))
    b.skew += rng.choice([-b.ttl, b.ttl - 1, b.ttl, -1, 5 * b.ttl])
    b.ack(ref(k))
    b.skew += rng.choice([0, b.ttl, -2 * b.ttl])
    b.ack(ref(k))


def prep_capacity(pcfg, rng):
    pcfg["recent_cap"] = rng.choice([1, 2, 3])
    if pcfg["recent_ttl"] <= 0:
        pcfg["recent_ttl"] = 120 * SEC


def prep_window(pcfg, rng):
    if rng.random() < 0.8:
        if pcfg["recent_ttl"] <= 1:
            pcfg["recent_ttl"] = rng.choice([SEC, 5 * SEC, 120 * SEC])
        if pcfg["recent_cap"] <= 0:
            pcfg["recent_cap"] = 20000


def prep_clamps(pcfg, rng):
    if rng.random() < 0.8:
        pcfg["max_batch"] = rng.choice([1, 2, 3, 50, 150])
        pcfg["max_ttl"] = rng.choice([SEC, 10 * SEC, 60 * SEC])
        pcfg["max_wait"] = rng.choice([500 * MS, 10 * SEC])
        pcfg["default_wait"] = rng.choice([0, SEC, 20 * SEC])
        pcfg["default_ttl"] = rng.choice([30 * SEC, 5 * SEC, 0, 90 * SEC])


frag_capacity.prep = prep_capacity
frag_clamps.prep = prep_clamps
frag_dup_ack.prep = prep_window
frag_nack_dup.prep = prep_window
frag_clock.prep = prep_window
frag_batch_stale_retry.prep = prep_window


def lease_call(b, rng, kind, lease):
    if kind == "ack":
        b.ack(lease)
    elif kind == "nack":
        b.nack(lease, delay=rng.choice([None, 0, SEC, 5 * SEC, -SEC]))
    elif kind == "dead":
        b.nack(lease, dead=True, reason=rng.choice(REASONS), delay=rng.choice([None, SEC]))
    else:
        b.extend(lease, by=rng.choice([SEC, 1, 30 * SEC, 0, -SEC]))


def batch_call(b, rng, kind, leases):
    if kind == "ack":
        b.ack(leases=copy.deepcopy(leases))
    elif kind == "nack":
        b.nack(leases=copy.deepcopy(leases), delay=rng.choice([None, 0, SEC, -SEC]))
    else:
        b.nack(leases=copy.deepcopy(leases), dead=True, reason=rng.choice(REASONS))


FRAGS = [(frag_dup_ack, 16), (frag_released, 14), (frag_cancel_requeue, 12), (frag_nack_dup, 12), (frag_nack_dead, 6),
         (frag_extend, 8), (frag_heartbeat, 8), (frag_batch, 14), (frag_batch_stale_retry, 10), (frag_batch_shape, 5), (frag_raw, 4), (frag_capacity, 7), (frag_down, 4), (frag_down_retry, 9),
         (frag_clamps, 8), (frag_clock, 5)]


def noise(b, rng):
    r = rng.random()
    if r < 0.25:
        b.tick(rng.choice([0, 1, MS, 10 * MS, SEC, 31 * SEC, edge(rng, b.ttl)]))
    elif r < 0.5:
        lease_call(b, rng, rng.choice(["ack", "nack", "extend", "dead"]), b.some_ref())
    elif r < 0.6:
        batch_call(b, rng, rng.choice(["ack", "nack", "dead"]), [b.some_ref() for _ in range(rng.choice([1, 2, 3]))])
    elif r < 0.75:
        b.enqueue(route=rng.choice(["r0", "r0", "r1"]))
    elif r < 0.9:
        b.dequeue(endpoint=rng.choice(["/e0", "/e0", "/e1"]), batch=rng.choice([1, 1, 2, 3]), ttl=rng.choice([None, SEC, 5 * SEC]))
    elif b.next_id > 0:
        b.manage(rng.choice(["cancel", "requeue", "resume"]), ["m%02d" % rng.randrange(0, b.next_id)])


def gen_history(rng, only=None):
    cfg = gen_cfg(rng)
    pcfg = gen_pcfg(rng)
    total = sum(w for _, w in FRAGS)
    nfr = 1 if only is not None else rng.choice([1, 2, 2, 3, 4])
    chosen = []
    for _ in range(nfr):
        if only is not None:
            f = only
        else:
            x = rng.randrange(total)
            for f, w in FRAGS:
                if x < w:
                    break
                x -= w
        chosen.append(f)
    if hasattr(chosen[0], "prep"):
        chosen[0].prep(pcfg, rng)          # the server configuration is fixed per history: the first fragment shapes it
    b = HB(rng, cfg, pcfg)
    for f in chosen:
        f(b, rng)
        for _ in range(rng.choice([0, 0, 1, 2, 4])):
            noise(b, rng)
        b.tick(rng.choice([0, MS, SEC]))
    return {"cfg": cfg, "pcfg": pcfg, "ops": b.ops, "tags": sorted(b.tags)}


def for_transport(h, transport):
    """gRPC has no counterpart of the HTTP-only malformed requests (except the unknown endpoint); its batch field is
    unsigned.  Symbolic lease references are positional, so dropped calls are replaced by a `nop`."""
    if transport == "http":
        return h
    ops = []
    for op in h["ops"]:
        op = dict(op)
        if op["op"] == "raw" and RAW[op["kind"]][0] != "RkUnknownEndpoint":
            op = {"op": "nop", "kind": op["kind"], "now": op["now"], "cnow": op["cnow"]}
        if op["op"] == "dequeue" and op["batch"] < 0:
            op["batch"] = 0
        ops.append(op)
    return {"cfg": h["cfg"], "pcfg": h["pcfg"], "ops": ops, "tags": h.get("tags", [])}


# ---------------------------------------------------------------------------
# string <-> number maps, Coq terms, observed checksums

class Maps:
    def __init__(self, hist, out):
        ids = set()
        for op in hist["ops"]:
            if op["op"] == "enqueue":
                ids.add(op["enq"]["id"])
            for i in op.get("ids") or []:
                if i.strip():
                    ids.add(i.strip())
        for st in out["steps"]:
            for r in st.get("snap") or []:
                ids.add(r["id"])
            for it in st.get("items") or []:
                ids.add(it["id"])
        self.ids = {s: i + 1 for i, s in enumerate(sorted(ids))}
        self.leases = {}
        self.routes = {}
        self.targets = {}
        for st in out["steps"]:                       # leases the store issued, in order of issue
            for it in st.get("items") or []:
                if it["lease"] not in self.leases:
                    self.leases[it["lease"]] = len(self.leases) + 1
        self.foreign = {}

    def idn(self, s):
        return self.ids[s]

    def route(self, s):
        if s not in self.routes:
            self.routes[s] = len(self.routes) + 1
        return self.routes[s]

    def target(self, s):
        if s not in self.targets:
            self.targets[s] = len(self.targets) + 1
        return self.targets[s]

    def lease(self, s):
        """number of a trimmed, non-blank lease string"""
        if s in self.leases:
            return self.leases[s]
        if s not in self.foreign:
            self.foreign[s] = 800000 + len(self.foreign)
        return self.foreign[s]


cN, cZ, copt = Q.cN, Q.cZ, Q.copt
O0 = "(mkOracle [] [] [] [])"
WS = " \t\r\n\x0b\x0c"


def trim(s):
    return s.strip(WS)


def coq_praw(mp, s):
    if s is None or trim(s) == "":
        return "PBlank"
    return "(PId %s %s)" % (cN(mp.lease(trim(s))), C.coq_bool(s != trim(s)))


def coq_pcfg(mp, p, transport):
    t = "(mkPcfg %s %s %s %s %s %s %s %s %s)" % (
        copt(p["target"] or None, lambda x: cN(mp.target(x))), cZ(p["default_ttl"]), cZ(p["max_batch"]), cZ(p["max_lease_batch"]),
        cZ(p["max_ttl"]), cZ(p["default_wait"]), cZ(p["max_wait"]), cZ(p["recent_ttl"]), cZ(p["recent_cap"]))
    # grpc_pcfg is the identity when MaxLeaseBatch is positive (leaseBatchLimit): same term, evaluated once for both transports
    return "(grpc_pcfg %s)" % t if (transport == "grpc" and p["max_lease_batch"] <= 0) else t


def coq_case(mp, hist, out):
    terms = []
    for op, st in zip(hist["ops"], out["steps"]):
        name = op["op"]
        orc = O0
        if name == "enqueue":
            e = op["enq"]
            call = "(PStore (Enqueue %s (mkEnq (Some %s) %s %s %s %s %s %s %s)))" % (
                cZ(op["now"]), cN(mp.idn(e["id"])), cN(mp.route(e["route"])), cN(mp.target(e["target"])),
                copt(e["recv"], cZ), copt(e["next"], cZ), cN(e["body"]), cN(e["hdr"]), cN(e["trace"]))
        elif name == "manage":
            kind = {"cancel": "MCancel", "requeue": "MRequeue", "resume": "MResume"}[op["kind"]]
            call = "(PStore (Manage %s %s [%s]))" % (cZ(op["now"]), kind, "; ".join(Q.coq_rid(mp, s) for s in op["ids"]))
        elif name == "dequeue":
            call = "(PDequeue %s %s %s %s)" % (cN(mp.route(ENDPOINT_ROUTE[op["endpoint"]])), cZ(op["batch"]), copt(op["ttl"], cZ), copt(op["wait"], cZ))
            picked = [(mp.idn(it["id"]), mp.lease(it["lease"])) for it in st.get("items") or []]
            orc = "(mkOracle [%s] [] [] [])" % "; ".join("(%s, %s)" % (cN(a), cN(b_)) for a, b_ in picked)
        elif name in ("ack", "nack"):
            single = coq_praw(mp, st.get("single_arg"))
            ids = "[%s]" % "; ".join(coq_praw(mp, s) for s in st.get("lease_args") or [])
            if name == "ack":
                call = "(PAck %s %s)" % (single, ids)
            else:
                call = "(PNack %s %s %s %s %s)" % (single, ids, C.coq_bool(op["dead"]), cN(Q.reason_n(op["reason"])), cZ(op["delay"] if op["has_delay"] else 0))
        elif name == "extend":
            call = "(PExtend %s %s)" % (coq_praw(mp, st.get("single_arg")), copt(op["by"], cZ))
        elif name == "raw":
            call = "(PRaw %s)" % RAW[op["kind"]][0]
        elif name == "down":
            call = "(PDown %s)" % C.coq_bool(op["down"])
        elif name == "nop":
            call = "(PRaw %s)" % RAW[op["kind"]][0]      # a dropped HTTP-only call: no effect in the model, response not compared
        else:
            raise ValueError(name)
        terms.append("(mkPop %s %s %s %s)" % (cZ(op["cnow"]), cZ(op["now"]), call, orc))
    return "[" + ";\n   ".join(terms) + "]"


def body_hash(mp, op, st, transport, by_id, shape):
    """checksum of the response body as Model/PullOps.v hash_body computes it; None = not comparable on this transport"""
    name = op["op"]
    if name == "enqueue":
        return Q.mix(205, Q.hash_res(mp, {"op": "enqueue"}, {"err": st.get("store_err") or ""}))
    if name == "manage":
        return Q.mix(205, Q.hash_res(mp, {"op": "manage", "kind": op["kind"]},
                                     {"err": st.get("store_err") or "", "count": st["count"], "matched": st["matched"], "preview": False}))
    if name == "down":
        return 201
    if name == "nop":
        return None
    if st.get("has_n"):
        h = Q.mix(204, st["n"])
        for c in st.get("conflicts") or []:
            h = (h + Q.mixl(5, [mp.lease(trim(c["lease"])), 1 if c["expired"] else 0])) % Q.HM
        if transport == "grpc" and shape[0] == "single":
            return None                         # single success over gRPC: {acked: 1}, compared separately
        return h
    if st.get("has_items"):
        req = st.get("deq_req") or [0, 0, 0]
        h = Q.mixl(203, req)
        for it in st.get("items") or []:
            row = by_id.get(it["id"]) or {}
            h = Q.mixl(h, [mp.idn(it["id"]), mp.lease(it["lease"]), it["attempt"], row.get("until", 0)])
        return h
    if transport == "http":
        if st.get("code"):
            return Q.mix(202, ECODE.get(st["code"], 99))
        return 201
    return None


def hash_cache(mp, rows):
    h = 301
    for r in rows:
        h = Q.mixl(h, [mp.lease(r["lease"]), {"ack": 1, "nack": 2}.get(r["op"], 9), r["exp"]])
    return h


HEADER = """From Coq Require Import List ZArith NArith Bool.
From HK Require Import Model.Queue Model.QueueHash Model.PullOps.
Import ListNotations.
Open Scope Z_scope.
"""


def eval_model(ctx, cases, tag="pull", shard=8):
    """cases: list of (flavour, cfg term, pcfg term, ops term); identical cases are evaluated once"""
    uniq = {}
    order = []
    for c in cases:
        if c not in uniq:
            uniq[c] = None
            order.append(c)
    bodies, counts = [], []
    for s in range(0, len(order), shard):
        chunk = order[s:s + shard]
        lines = [HEADER]
        for j, (fl, cfg, pcfg, term) in enumerate(chunk):
            lines.append("Definition h%d := %s." % (j, term))
            lines.append("Definition r%d := Eval vm_compute in pull_check %s %s %s h%d." % (j, fl, cfg, pcfg, j))
            lines.append("Print r%d." % j)
        bodies.append("\n".join(lines) + "\n")
        counts.append(len(chunk))
    results = C.coq_eval_shards(ctx, tag, bodies)
    logs = []
    k = 0
    for (rc, txt), n in zip(results, counts):
        flat = " ".join(txt.split())
        for j in range(n):
            val = None
            if rc == 0:
                m = re.search(r"r%d = (\[.*?\]) : list \(list Z\)" % j, flat)
                if m:
                    val = [[int(x) for x in re.findall(r"-?\d+", row)] for row in re.findall(r"\[([^\[\]]*)\]", m.group(1))]
            else:
                logs.append(txt[-1500:])
            uniq[order[k]] = val
            k += 1
    return [uniq[c] for c in cases], logs


# ---------------------------------------------------------------------------
# the property on the implementation's own trace

def norm_list(raws):
    out, seen = [], set()
    for s in raws:
        t = trim(s)
        if t == "" or t in seen:
            continue
        seen.add(t)
        out.append(t)
    return out


def call_shape(op, st, pcfg, transport):
    """('error',) | ('single', lease) | ('batch', [leases]) as normalizeLeaseIDs decides"""
    single = trim(st.get("single_arg") or "")
    raws = st.get("lease_args") or []
    if op["op"] == "extend":
        if single == "" or op["by"] is None:
            return ("error",)
        return ("single", single)
    if single != "" and raws:
        return ("error",)
    if single != "":
        return ("single", single)
    if not raws:
        return ("error",)
    out = norm_list(raws)
    if not out:
        return ("error",)
    lim = pcfg["max_lease_batch"]
    if transport == "grpc" and lim <= 0:
        lim = 100
    if lim > 0 and len(out) > lim:
        return ("error",)
    return ("batch", out)


def expected_row(cfg, op, row, now):
    """what the lease operation of this call makes of the message it fences (None = removed)"""
    r = dict(row)
    name = op["op"]
    if name == "ack":
        if cfg["deliv_age"] > 0:
            r.update(state="delivered", next=now, reason="", lease="", until=0)
            return r
        return None
    if name == "nack" and op["dead"]:
        r.update(state="dead", next=now, reason=op["reason"], lease="", until=0)
        return r
    if name == "nack":
        d = op["delay"] if op["has_delay"] else 0
        r.update(state="queued", next=now + max(d, 0), reason="", lease="", until=0)
        return r
    by = op["by"]
    r.update(next=row["until"] + by, until=row["until"] + by)
    return r


def released_row(row, now):
    r = dict(row)
    r.update(state="queued", next=now, reason="", lease="", until=0)
    return r


def canon(row):
    return json.dumps(row, sort_keys=True) if row is not None else "null"


def judge_impl(hist, out, transport, stats):
    """returns list of (key, what, step index, details)"""
    probs = []
    cfg, pcfg = hist["cfg"], hist["pcfg"]
    ttl = pcfg["recent_ttl"]
    succ = {}          # (lease, opclass) -> server-clock instants of store successes
    down = False
    before = []
    for i, (op, st) in enumerate(zip(hist["ops"], out["steps"])):
        after = st["snap"]
        name = op["op"]
        now, cnow = op["now"], op["cnow"]
        b_by = {r["id"]: r for r in before}
        a_by = {r["id"]: r for r in after}
        if name == "down":
            down = op["down"]
        elif name in ("raw",):
            if canon(before) != canon(after):
                probs.append(("pull:rejected-request-changed-state:raw", "a request rejected before any operation changed stored messages", i, {}))
        elif name in ("ack", "nack", "extend"):
            ok = (st["status"] in (200, 204)) if transport == "http" else (st["gcode"] == 0)
            conflict = (st["status"] == 409) if transport == "http" else (st["gcode"] == 9)
            shape = call_shape(op, st, pcfg, transport)
            opclass = "ack" if name == "ack" else "nack"
            held = {}
            for r in before:
                if r["lease"]:
                    held[r["lease"]] = r

            def current(l):
                r = held.get(l)
                return r if (r is not None and r["state"] == "leased" and r["until"] > now) else None

            def expired_held(l):
                r = held.get(l)
                return r if (r is not None and r["state"] == "leased" and r["until"] <= now) else None

            def has_twin(l):
                return ttl > 0 and any(cnow < t0 + ttl for t0 in succ.get((l, opclass), []))

            def untouched_except(allowed):
                """every stored message is unchanged unless `allowed` names its id -> set of permitted canonical rows"""
                bad = []
                for mid, r in b_by.items():
                    perm = allowed.get(mid)
                    got = canon(a_by.get(mid))
                    if perm is None:
                        if got != canon(r):
                            bad.append(mid)
                    elif got not in perm:
                        bad.append(mid)
                for mid in a_by:
                    if mid not in b_by:
                        bad.append(mid)
                return bad

            if shape[0] == "error":
                stats["shape_errors"] += 1
                bad_status = (st["status"] != 400) if transport == "http" else (st["gcode"] != 3)
                if bad_status:
                    probs.append(("pull:malformed-not-400:%s" % name, "a request normalizeLeaseIDs must reject was answered %s" % (st["status"] or st["gcode"]), i, {}))
                if canon(before) != canon(after):
                    probs.append(("pull:rejected-request-changed-state:%s" % name, "a rejected request changed stored messages", i, {}))
            elif shape[0] == "single":
                l = shape[1]
                noop_ext = name == "extend" and op["by"] <= 0
                cur = current(l)
                stats["single_calls"] += 1
                if noop_ext:
                    if not down and not ok:
                        probs.append(("pull:noop-extend-status:extend", "extend by a non-positive duration is the documented no-op but was not answered with success", i, {}))
                    if canon(before) != canon(after):
                        probs.append(("pull:noop-extend-changed-state:extend", "extend by a non-positive duration changed stored messages", i, {}))
                elif cur is not None:
                    stats["current_calls"] += 1
                    if down:
                        if canon(before) != canon(after):
                            probs.append(("pull:failed-call-changed-state:%s" % name, "a call answered 500 changed stored messages", i, {}))
                    else:
                        want = canon(expected_row(cfg, op, cur, now))
                        bad = untouched_except({cur["id"]: {want}})
                        if not ok:
                            probs.append(("pull:current-lease-refused:%s" % name, "the current unexpired lease was presented but the call was not answered with success (%s)" % (st["status"] or st["gcode"]), i, {"lease": l}))
                        elif bad:
                            probs.append(("pull:current-lease-wrong-effect:%s" % name, "the operation on the current lease did not have exactly its effect on messages %s" % bad, i, {"lease": l}))
                        elif name != "extend":
                            succ.setdefault((l, opclass), []).append(cnow)
                else:
                    stats["stale_calls"] += 1
                    exp = expired_held(l)
                    allowed = {}
                    if exp is not None:
                        allowed[exp["id"]] = {canon(exp), canon(released_row(exp, now))}
                    bad = untouched_except(allowed)
                    if bad:
                        probs.append(("pull:stale-call-changed-state:%s" % name, "a call with a lease that is not current changed messages %s" % bad, i, {"lease": l}))
                    if ok:
                        stats["stale_success"] += 1
                        if name == "extend":
                            probs.append(("pull:stale-success:extend", "a positive extend with a lease that is not current was answered with success", i, {"lease": l}))
                        elif not has_twin(l):
                            probs.append(("pull:stale-success-without-twin:%s" % name, "a %s with a lease that is not current was answered with success although no %s with this lease id succeeded at the store within RecentLeaseOpTTL before" % (name, opclass), i,
                                          {"lease": l, "earlier_successes_at_server_clock": succ.get((l, opclass), []), "server_clock": cnow, "recent_ttl": ttl}))
                        elif canon(before) != canon(after):
                            probs.append(("pull:idempotent-answer-changed-state:%s" % name, "the idempotent duplicate answer changed stored messages", i, {"lease": l}))
                        else:
                            stats["idempotent_answers"] += 1
                            gap = min(cnow - t0 for t0 in succ[(l, opclass)] if cnow < t0 + ttl)
                            if gap == ttl - 1:
                                stats["ttl_edge_inside"] += 1
                    else:
                        if has_twin(l) and pcfg["recent_cap"] > 0:
                            stats["twin_but_refused"] += 1      # evicted by capacity or pruned: allowed
                        if not conflict and not down:
                            probs.append(("pull:stale-wrong-status:%s" % name, "a call with a lease that is not current was answered %s instead of 409 / FailedPrecondition" % (st["status"] or st["gcode"]), i, {"lease": l}))
                        if any(cnow == t0 + ttl for t0 in succ.get((l, opclass), [])):
                            stats["ttl_edge_at"] += 1
            else:
                ls = shape[1]
                stats["batch_calls"] += 1
                confl = {}
                for c in st.get("conflicts") or []:
                    confl[trim(c["lease"])] = c["expired"]
                answered = (st["status"] in (200, 409)) if transport == "http" else (st["gcode"] == 0)
                if not answered:
                    if not down:
                        probs.append(("pull:batch-wrong-status:%s" % name, "a well-formed batch call was answered %s" % (st["status"] or st["gcode"]), i, {}))
                    allowed = {}
                    for l in ls:
                        e = expired_held(l)
                        if e is not None:
                            allowed[e["id"]] = {canon(e), canon(released_row(e, now))}
                    if untouched_except(allowed):
                        probs.append(("pull:failed-call-changed-state:%s" % name, "a batch call answered with an error changed stored messages", i, {}))
                else:
                    if transport == "http" and (st["status"] == 409) != bool(confl):
                        probs.append(("pull:batch-status-vs-conflicts:%s" % name, "batch status %s with %d conflicts" % (st["status"], len(confl)), i, {}))
                    for l in confl:
                        if l not in ls:
                            probs.append(("pull:batch-foreign-conflict:%s" % name, "a conflict names a lease id that was not presented", i, {"lease": l}))
                    allowed = {}
                    nsucc = 0
                    for l in ls:
                        cur, exp = current(l), expired_held(l)
                        if l in confl:
                            if cur is not None:
                                probs.append(("pull:batch-current-lease-refused:%s" % name, "a batch reports a conflict for a current unexpired lease", i, {"lease": l}))
                            if confl[l] and exp is None:
                                probs.append(("pull:batch-expired-flag:%s" % name, "a conflict is flagged expired but no message holds that lease expired", i, {"lease": l}))
                            if exp is not None:
                                allowed[exp["id"]] = {canon(exp), canon(released_row(exp, now))}
                            continue
                        nsucc += 1
                        if cur is not None:
                            allowed[cur["id"]] = {canon(expected_row(cfg, op, cur, now))}
                            succ.setdefault((l, opclass), []).append(cnow)
                            stats["batch_current_ids"] += 1
                        else:
                            stats["batch_stale_success_ids"] += 1
                            if exp is not None:
                                allowed[exp["id"]] = {canon(exp)}
                            if not has_twin(l):
                                probs.append(("pull:batch-stale-success-without-twin:%s" % name, "a batch counts a lease that is not current as succeeded although no %s with this lease id succeeded at the store within RecentLeaseOpTTL before" % opclass, i,
                                              {"lease": l, "earlier_successes_at_server_clock": succ.get((l, opclass), []), "server_clock": cnow, "recent_ttl": ttl}))
                    if st.get("has_n") and st["n"] != nsucc:
                        probs.append(("pull:batch-count:%s" % name, "batch reports %d succeeded, %d presented ids are not conflicts" % (st["n"], nsucc), i, {}))
                    bad = untouched_except(allowed)
                    if bad:
                        probs.append(("pull:batch-wrong-effect:%s" % name, "a batch call changed messages %s otherwise than the per-lease rule allows" % bad, i, {}))
        before = after
    return probs


# ---------------------------------------------------------------------------

COMPONENT = ["status", "grpc-code", "body", "stored-state", "cache", "cache-length", "oracle"]


def compare(hist, out, transport, mp, model, stats):
    """first disagreement between model rows and observations: (step, component, model value, observed value) or None"""
    if model is None:
        return (0, "model-eval", None, None)
    if len(model) != len(out["steps"]):
        return (min(len(model), len(out["steps"])), "length", len(model), len(out["steps"]))
    for i, (op, st, row) in enumerate(zip(hist["ops"], out["steps"], model)):
        dropped = op["op"] == "nop"
        shape = call_shape(op, st, hist["pcfg"], transport) if op["op"] in ("ack", "nack", "extend") else ("none",)
        by_id = {r["id"]: r for r in st["snap"]}
        if row[6] == 1:
            return (i, "oracle", "the model rejects what the store returned (count / readiness / lease freshness)", st.get("items"))
        if not dropped:
            if transport == "http":
                if op["op"] in ("dequeue", "ack", "nack", "extend", "raw") and row[0] != st["status"]:
                    return (i, "status", row[0], st["status"])
            else:
                if op["op"] in ("dequeue", "ack", "nack", "extend", "raw") and row[1] != st["gcode"]:
                    return (i, "grpc-code", row[1], st["gcode"])
            bh = body_hash(mp, op, st, transport, by_id, shape)
            if bh is not None and bh != row[2]:
                return (i, "body", row[2], {"checksum": bh, "n": st.get("n"), "conflicts": st.get("conflicts"), "items": st.get("items"),
                                            "deq_req": st.get("deq_req"), "code": st.get("code")})
            if bh is None and transport == "grpc" and op["op"] in ("ack", "nack") and st.get("has_n") and st["n"] != 1:
                return (i, "body", "acked/succeeded = 1", st["n"])
        if Q.hash_snap(mp, st["snap"]) != row[3]:
            return (i, "stored-state", row[3], Q.hash_snap(mp, st["snap"]))
        if hash_cache(mp, st["cache"]) != row[4] or len(st["cache"]) != row[5]:
            return (i, "cache", [row[4], row[5]], st["cache"])
        if st["cache_map"] != len(st["cache"]):
            return (i, "cache", "map and list of the cache have the same size", [st["cache_map"], len(st["cache"])])
    return None


def run_jobs(ctx, hbin, jobs):
    rc, out, err = C.harness_run(hbin, ["pullops"], {"dir": os.path.join(ctx.scratch, "pdb"), "par": 16, "jobs": jobs}, timeout=3000)
    if rc != 0:
        raise RuntimeError("pullops harness failed: " + err[-3000:])
    return json.loads(out)


def run(ctx, info, rng, *_, only=None, count=None):
    t_start = ctx.wall()
    n = 30 if ctx.tier == "quick" else 600
    if only is not None:
        # a single family (used by other properties' checks: C03 runs the heartbeat family)
        hs = [gen_history(rng, only=only) for _ in range(count or 8)]
    else:
        hs = [gen_history(rng, only=f) for f, _ in FRAGS] + [gen_history(rng) for _ in range(n)]
        for d in load_corpus():
            hs.insert(0, d)
    frag = {"pull_part": "pull layer: recentLeaseOps idempotent answer, status mapping (Model/PullOps.v)"}
    stats = {k: 0 for k in ("single_calls", "batch_calls", "current_calls", "stale_calls", "stale_success", "idempotent_answers",
                            "ttl_edge_inside", "ttl_edge_at", "twin_but_refused", "shape_errors", "batch_current_ids", "batch_stale_success_ids")}
    jobs, meta = [], []
    for hi, h in enumerate(hs):
        for backend in ("memory", "sqlite"):
            for transport in ("http", "grpc"):
                ht = for_transport(h, transport)
                jobs.append({"backend": backend, "transport": transport, "history": {"cfg": ht["cfg"], "pcfg": ht["pcfg"], "ops": ht["ops"]}})
                meta.append((hi, ht, backend, transport))
    outs = run_jobs(ctx, info["hbin"], jobs)
    cases, maps = [], []
    for (hi, ht, backend, transport), out in zip(meta, outs):
        if out.get("fatal"):
            C.report(ctx, "pull:harness-fatal:%s" % backend, "pull harness failed: " + out["fatal"],
                     {"kind": "history", "backend": backend, "transport": transport, "history": ht, "observed": out["fatal"]})
            cases.append(None)
            maps.append(None)
            continue
        mp = Maps(ht, out)
        cases.append((FL[backend], Q.coq_cfg(ht["cfg"]), coq_pcfg(mp, ht["pcfg"], transport), coq_case(mp, ht, out)))
        maps.append(mp)
    todo = [c for c in cases if c is not None]
    res, logs = eval_model(ctx, todo) if (todo and info.get("coq_ok")) else ([None] * len(todo), ["coq build failed"])
    it = iter(res)
    steps = validated = mismatches = impl_fail = 0
    nontrivial = set()
    op_hist, status_hist, tags = {}, {}, {}
    samples = []
    corr_only = []           # disagreements with the model on traces on which the property predicate itself did not fail
    corr_with_prop = []
    for (hi, ht, backend, transport), out, case, mp in zip(meta, outs, cases, maps):
        if case is None:
            continue
        model = next(it)
        for op, st in zip(ht["ops"], out["steps"]):
            steps += 1
            op_hist[op["op"]] = op_hist.get(op["op"], 0) + 1
            if op["op"] in ("dequeue", "ack", "nack", "extend", "raw"):
                k = "%s:%s" % (op["op"], st["status"] if transport == "http" else "grpc%d" % st["gcode"])
                status_hist[k] = status_hist.get(k, 0) + 1
        for tg in ht.get("tags", []):
            tags[tg] = tags.get(tg, 0) + 1
        probs = judge_impl(ht, out, transport, stats)
        impl_fail += report_probs(ctx, probs, ht, out, backend, transport)
        dis = compare(ht, out, transport, mp, model, stats)
        if dis is None:
            validated += 1
            nontrivial.add(C.sha({"h": ht["ops"], "c": ht["cfg"], "p": ht["pcfg"], "b": backend, "t": transport}))
            if len(samples) < 2:
                samples.append({"backend": backend, "transport": transport, "pcfg": ht["pcfg"], "ops": ht["ops"][:5], "n_ops": len(ht["ops"])})
        else:
            mismatches += 1
            (corr_with_prop if probs else corr_only).append((ht, out, backend, transport, dis))
    # a disagreement without a property failure: look for a failing input around it (retries of the ids of the call at which
    # model and implementation part, single and batch, under both ops) before reporting it as "no failing input found"
    probe_found = 0
    if corr_only:
        pj, pm_ = [], []
        for (ht, out, backend, transport, dis) in corr_only[:40]:
            for hp in probes(ht, dis[0]):
                pj.append({"backend": backend, "transport": transport, "history": {"cfg": hp["cfg"], "pcfg": hp["pcfg"], "ops": hp["ops"]}})
                pm_.append((hp, backend, transport))
        if pj:
            for (hp, backend, transport), pout in zip(pm_, run_jobs(ctx, info["hbin"], pj)):
                if pout.get("fatal"):
                    continue
                probe_found += report_probs(ctx, judge_impl(hp, pout, transport, dict(stats)), hp, pout, backend, transport, searched=True)
    for (ht, out, backend, transport, dis), has_prop in [(x, True) for x in corr_with_prop] + [(x, False) for x in corr_only]:
        i, comp, want, got = dis
        opn = ht["ops"][i]["op"] if i < len(ht["ops"]) else "end"
        if comp == "oracle":
            C.report(ctx, "pull:dequeue-choice-rejected", "a dequeue through the pull layer returned something Model/Queue.v does not allow (number of items = min(clamped batch, ready), readiness, fresh lease ids)",
                     replay_obj(ht, out, backend, transport, i, "dequeue result rejected by the model", {"returned": got}))
        else:
            C.report(ctx, "pull:corr:%s:%s" % (comp, opn),
                     "Model/PullOps.v and the pull layer disagree on the %s after call %d (%s) on the %s store over %s%s" % (
                         comp, i, opn, backend, transport, "" if has_prop else "; the property predicate itself did not fail on this trace"),
                     dict(replay_obj(ht, out, backend, transport, i, "model/implementation disagreement: " + comp, {"model": want, "observed": got}),
                          no_failing_input_found=not (has_prop or probe_found > 0), model_log=logs[:1],
                          names="correspondence Model/PullOps.v pstep <-> internal/pullapi (ops.go, http.go) / internal/workerapi; theorems in Properties/C04pull.v rest on it"))
    if ctx.tier == "thorough" and info.get("prop_ok"):
        # independent re-check of the compiled theorem file of this part and everything it depends on
        try:
            rc, outc = C.run(["coqchk", "-silent", "-o", "-Q", C.COQ, "HK", "HK.Properties.C04pull"], cwd=C.COQ, timeout=3000)
            m = re.search(r"\* Axioms:(.*?)\n\s*\n", outc, flags=re.S)
            frag["pull_coqchk"] = {"rc": rc, "axioms": (m.group(1).strip() if m else outc[-400:])}
            if rc != 0:
                C.report(ctx, "pull:proof-broken", "coqchk rejects Properties/C04pull.v", {"kind": "obligation", "no_failing_input_found": True, "log": outc[-1500:]})
        except Exception as e:
            frag["pull_coqchk"] = {"rc": -1, "axioms": "not run: %r" % (e,)}
    frag.update({
        "pull_evaluations": len(todo), "pull_distinct_nontrivial": len(nontrivial), "pull_calls": steps,
        "pull_traces_validated_against_impl": validated, "pull_model_impl_mismatches": mismatches,
        "pull_property_failures_on_impl_trace": impl_fail, "pull_failing_inputs_found_by_search_around_a_disagreement": probe_found,
        "pull_rule": "call sequences (scenario fragments of lib/c04pull.py + random calls), each run through the real pullapi.Server over HTTP and "
                     "the real workerapi.Server on the real memory and SQLite stores; a case (sequence, backend, transport) counts when status, body, "
                     "stored-state checksum and the recent-ops cache agree with Model/PullOps.v after every call",
        "pull_input_distribution": {"call_histogram": op_hist, "status_histogram": status_hist, "scenario_tags": tags, "judged": stats},
        "pull_samples": samples, "pull_wall_s": round(ctx.wall() - t_start, 1),
    })
    return frag


def report_probs(ctx, probs, ht, out, backend, transport, searched=False):
    seen = set()
    n = 0
    for key, what, i, det in probs:
        if key in seen:
            continue
        seen.add(key)
        n += 1
        if searched:
            det = dict(det, found_by="search around a model/implementation disagreement (retries of the ids of the disagreeing call)")
        C.report(ctx, key, what + " (%s store, %s transport, call %d: %s)" % (backend, transport, i, ht["ops"][i]["op"]),
                 replay_obj(ht, out, backend, transport, i, what, det))
    return n


def probes(ht, i):
    """histories around a disagreement at call i: the prefix, then retries of every id the call at i presented - single and
    batch, as ack and as nack, at once and one tick later"""
    if i >= len(ht["ops"]):
        return []
    op = ht["ops"][i]
    if op["op"] not in ("ack", "nack", "extend"):
        return []
    refs = ([op["lease"]] if op.get("lease") else []) + list(op.get("leases") or [])
    refs = [r for r in refs if r.get("ref") or trim(r.get("raw") or "") != ""]
    if not refs:
        return []
    base = copy.deepcopy(ht["ops"][:i + 1])
    now, cnow = op["now"], op["cnow"]
    outs = []
    for dt in (0, MS):
        ops = copy.deepcopy(base)
        for name in ("ack", "nack"):
            for r in refs:
                ops.append({"op": name, "lease": dict(r), "leases": None, "dead": False, "reason": "", "delay": 0, "has_delay": False,
                            "endpoint": "/e0", "now": now + dt, "cnow": cnow + dt})
            ops.append({"op": name, "lease": None, "leases": copy.deepcopy(refs), "dead": False, "reason": "", "delay": 0, "has_delay": False,
                        "endpoint": "/e0", "now": now + dt, "cnow": cnow + dt})
        outs.append({"cfg": ht["cfg"], "pcfg": ht["pcfg"], "ops": ops, "tags": []})
    return outs


def replay_obj(ht, out, backend, transport, i, what, det):
    ops = ht["ops"][:i + 1]
    steps = out["steps"]
    return {"kind": "history", "layer": "pull", "backend": backend, "transport": transport,
            "history": {"cfg": ht["cfg"], "pcfg": ht["pcfg"], "ops": ops}, "failing_call": i,
            "observed": {k: steps[i].get(k) for k in ("status", "gcode", "code", "n", "conflicts", "items", "deq_req", "store_calls", "single_arg", "lease_args", "cache")} if i < len(steps) else None,
            "stored_before": steps[i - 1]["snap"] if 0 < i <= len(steps) else [],
            "stored_after": steps[i]["snap"] if i < len(steps) else None,
            "expected": what, "details": det,
            "how_to_replay": "./check C04 --replay <this file>  (re-runs the seeded run; the call sequence above is the prefix up to the failing call)"}


def load_corpus():
    d = os.path.join(C.VERIF, "corpus")
    out = []
    if os.path.isdir(d):
        for fn in sorted(os.listdir(d)):
            if fn.startswith("pull-") and fn.endswith(".json"):
                try:
                    o = json.load(open(os.path.join(d, fn)))
                except ValueError:
                    continue
                if "history" in o and "pcfg" in o["history"]:
                    out.append(o["history"])
    return out
