"""C14, request layer: the Admin API handlers and the MCP tools in front of the operator queue mutations.

run(ctx, info, rng, *_) -> coverage fragment (dict).  Violations are reported through C.report(ctx, key, ...).

Implementation side (harness command `manageapi`): populations of 20-60 messages (mixed routes, targets,
states incl. leased / dead / canceled / delivered, many equal received_at) are built through the Store API on
the memory and the SQLite store; the REAL admin.Server, wired by the real app.startServers, is driven over
loopback HTTP with generated requests for /messages/cancel|requeue|resume, /dlq/requeue|delete,
/messages/<verb>_by_filter and /applications/{a}/endpoints/{e}/messages/<verb>_by_filter; for SQLite groups the
same database file is then driven through the real MCP server tools.  Model side: Model/ManageGlue.v composed
with Model/Queue.v step_manage / step_manage_f, evaluated by coqc on the same populations and requests.

Two judgements per request:
  (a) the property itself, evaluated directly on what the implementation did (no model): a refusal changes
      nothing; what the statement says must be refused is refused; an accepted request changes exactly the
      selected messages from allowed states, every other row is identical, the reported count is the number of
      rows changed, preview changes nothing and reports what the real run matches;
  (b) status, code, counts and the checksum of the complete stored rows against the model."""
import json
import os
import re
import time as _time

from lib import common as C
from lib import queuecheck as Q

T0 = 1700000000000000000
SEC = 1000000000
ROUTE_N = {"/a": 1, "/b": 2, "/c": 3, "/d": 4, "/m": 5, "/n": 6, "/": 7}
TARGET_N = {"pull": 1000, "http://t.example/1": 1001, "http://t.example/2": 1002}
LABEL_N = {"app1": 1, "ep1": 2, "ep2": 3, "ghost": 77, "app2": 5}
UNKNOWN_ROUTE = 99
UNKNOWN_TARGET = 1999
STC = Q.STC
STATES = ["queued", "leased", "delivered", "dead", "canceled"]
ALLOWED = {"cancel": ("queued", "leased", "dead"), "requeue": ("dead", "canceled"), "resume": ("canceled",),
           "requeue_dead": ("dead",), "delete_dead": ("dead",)}
KIND = {"cancel": "MCancel", "requeue": "MRequeue", "resume": "MResume", "requeue_dead": "MRequeueDead", "delete_dead": "MDeleteDead"}
FKIND = {"cancel": "FCancel", "requeue": "FRequeue", "resume": "FResume"}
IDS_PATH = {"cancel": "/messages/cancel", "requeue": "/messages/requeue", "resume": "/messages/resume",
            "requeue_dead": "/dlq/requeue", "delete_dead": "/dlq/delete"}
IDS_FIELD = {"cancel": "canceled", "requeue": "requeued", "resume": "resumed", "requeue_dead": "requeued", "delete_dead": "deleted"}
IDS_TOOL = {"cancel": "messages_cancel", "requeue": "messages_requeue", "resume": "messages_resume",
            "requeue_dead": "dlq_requeue", "delete_dead": "dlq_delete"}
TARGET_STATE = {"cancel": "canceled", "requeue": "queued", "resume": "queued", "requeue_dead": "queued", "delete_dead": None}
CODE_N = {"audit_reason_required": 1, "audit_actor_required": 2, "audit_actor_not_allowed": 3, "audit_request_id_required": 4,
          "invalid_body": 5, "managed_selector_required": 6, "managed_endpoint_not_found": 7, "selector_scope_forbidden": 8,
          "store_unavailable": 9, "selector_scope_mismatch": 11, "method_not_allowed": 12, "unauthorized": 13, "not_found": 14}
PADS = [(" ", ""), ("", "\t"), (" ", " "), ("\n", " ")]
LABEL_RE = re.compile(r"^[A-Za-z0-9][A-Za-z0-9._:-]{0,127}$")
ADMIN_TOKEN = "verif-admin"
PRINCIPAL = "ops"


def cbytes(s):
    b = s.encode()
    if len(b) > 40 and len(set(b)) == 1:
        return "(repeat %d%%N %d)" % (b[0], len(b))
    return "[" + ";".join("%d" % c for c in b) + "]%N"


def rfc3339(ns):
    sec, frac = divmod(ns, SEC)
    tm = _time.gmtime(sec)
    return _time.strftime("%Y-%m-%dT%H:%M:%S", tm) + (".%09d" % frac if frac else "") + "Z"


# ---------------------------------------------------------------------------
# configurations

def onoff(b):
    return "on" if b else "off"


CONFIGS = [
    dict(name="plain", managed=False, token=False),
    dict(name="managed", managed=True, token=False),
    dict(name="token_require_actor", managed=True, token=True, require_actor=True),
    dict(name="require_request_id", managed=True, token=False, require_request_id=True),
    dict(name="actor_policy", managed=True, token=False, actor_allow=["ops", "svc"], actor_prefix=["role:ops/"]),
    dict(name="actor_policy_excl", managed=True, token=False, actor_allow=["svc"], require_request_id=True),
    dict(name="plain_token_mcp_without_config", managed=False, token=True, mcp_without_config=True),
]


def make_config(cf):
    # "/" is an ordinary route path (the catch-all): a selector naming it must select its messages only
    routes = ["/a", "/b", "/c", "/"] if not cf["managed"] else ["/a", "/b", "/m", "/n"]
    owners = {"/m": ("app1", "ep1"), "/n": ("app1", "ep2")} if cf["managed"] else {}
    lines = ['ingress { listen "%INGRESS%" }', 'pull_api {', '  listen "%PULL%"', '  auth token "raw:verif-pull"', '}',
             'admin_api {', '  listen "%ADMIN%"', '  prefix "/adm"']
    if cf.get("token"):
        lines.append('  auth token "raw:%s"' % ADMIN_TOKEN)
    lines += ['}', 'delivered_retention {', '  max_age "1000h"', '}',
              'defaults {', '  publish_policy {',
              '    require_actor %s' % onoff(cf.get("require_actor", False)),
              '    require_request_id %s' % onoff(cf.get("require_request_id", False))]
    for a in cf.get("actor_allow", []):
        lines.append('    actor_allow "%s"' % a)
    for a in cf.get("actor_prefix", []):
        lines.append('    actor_prefix "%s"' % a)
    lines += ['  }', '}']
    for r in routes:
        lines.append('"%s" {' % r)
        if r in owners:
            lines.append('  application "%s"' % owners[r][0])
            lines.append('  endpoint_name "%s"' % owners[r][1])
        lines.append('  pull { path "/pull%s" }' % (r if r != "/" else "/root"))
        lines.append('}')
    intent = dict(cf, routes=routes, owners=owners, require_actor=cf.get("require_actor", False),
                  require_request_id=cf.get("require_request_id", False),
                  actor_allow=cf.get("actor_allow", []), actor_prefix=cf.get("actor_prefix", []))
    return "\n".join(lines) + "\n", intent


def coq_ctx(intent):
    rs = []
    for r in intent["routes"]:
        o = intent["owners"].get(r)
        owner = "None" if not o else "(Some (%d%%N, %d%%N))" % (LABEL_N[o[0]], LABEL_N[o[1]])
        rs.append("(mkRoute %d%%N [1000%%N] true true true true 0 0 %s)" % (ROUTE_N[r], owner))
    return "(mkCtx true true true true true %s %s [%s] [%s] 0 0 [%s])" % (
        C.coq_bool(intent["require_actor"]), C.coq_bool(intent["require_request_id"]),
        "; ".join(cbytes(a) for a in intent["actor_allow"]), "; ".join(cbytes(a) for a in intent["actor_prefix"]),
        "; ".join(rs))


def check_compiled(intent, comp):
    probs = []
    if bool(comp["require_actor"]) != intent["require_actor"] or bool(comp["require_request_id"]) != intent["require_request_id"]:
        probs.append("publish_policy require_* compiled as %s/%s" % (comp["require_actor"], comp["require_request_id"]))
    if [a.strip() for a in (comp["actor_allow"] or [])] != intent["actor_allow"] or [a.strip() for a in (comp["actor_prefix"] or [])] != intent["actor_prefix"]:
        probs.append("actor policy compiled as %s/%s" % (comp["actor_allow"], comp["actor_prefix"]))
    cr = {r["path"]: r for r in comp["routes"]}
    for r in intent["routes"]:
        c = cr.get(r)
        o = intent["owners"].get(r, ("", ""))
        if c is None or (c["app"], c["ep"]) != o or not c["pull"]:
            probs.append("route %s compiled as %r" % (r, c))
    if comp["admin_prefix"] != "/adm":
        probs.append("admin prefix %r" % comp["admin_prefix"])
    return probs


# ---------------------------------------------------------------------------
# populations

def make_population(rng, intent):
    n = rng.randrange(20, 61)
    recvs = [T0 - 20 * SEC + k * SEC for k in range(rng.choice([2, 3, 5, 8]))]
    msgs = []
    for i in range(1, n + 1):
        st = rng.choices(["queued", "retried", "leased", "dead", "canceled", "delivered", "canceled_dead"],
                         [28, 7, 15, 18, 12, 14, 6])[0]
        msgs.append(dict(id="m%04d" % i, route=rng.choice(intent["routes"]), target=rng.choice(list(TARGET_N)),
                         recv=rng.choice(recvs), want=st))
    first = [m for m in msgs if m["want"] in ("retried", "leased", "dead", "delivered", "canceled_dead")]
    second = [m for m in msgs if m["want"] in ("queued", "canceled")]
    rng.shuffle(first)
    rng.shuffle(second)
    steps = []
    for m in first:
        steps.append(dict(op="enqueue", id=m["id"], route=m["route"], target=m["target"], recv=m["recv"]))
    if first:
        steps.append(dict(op="dequeue_all", ttl=3600 * SEC))
    for m in first:
        how = {"retried": "nack", "leased": "keep", "dead": "dead", "delivered": "ack", "canceled_dead": "dead"}[m["want"]]
        if how != "keep":
            steps.append(dict(op="finish", id=m["id"], how=how, reason=rng.choice(["max_retries", "boom"])))
    for m in second:
        steps.append(dict(op="enqueue", id=m["id"], route=m["route"], target=m["target"], recv=m["recv"]))
    canc = [m["id"] for m in msgs if m["want"] in ("canceled", "canceled_dead")]
    if canc:
        steps.append(dict(op="cancel", ids=canc))
    return msgs, steps, recvs


class Maps:
    def __init__(self, rows):
        self.leases = {}
        for r in rows:
            if r["lease"] and r["lease"] not in self.leases:
                self.leases[r["lease"]] = len(self.leases) + 1

    @staticmethod
    def idn(s):
        m = re.match(r"^m(\d{4})$", s)
        if m:
            return int(m.group(1))
        m = re.match(r"^zz(\d{6})$", s)
        if m:
            return 900000 + int(m.group(1))
        return 899999

    def lease(self, s):
        return self.leases.get(s, Q.UNKNOWN_LEASE)


def row_tuple(mp, r, with_next=True):
    body = mp.idn(r["payload"][2:]) if (r["payload"] or "").startswith("p:") else 777777
    return (mp.idn(r["id"]), ROUTE_N.get(r["route"], UNKNOWN_ROUTE), TARGET_N.get(r["target"], UNKNOWN_TARGET), Q.ST.get(r["state"], 9),
            r["recv"], r["attempt"], r["next"] if with_next else 0, body, 0 if not r.get("headers") else 777777,
            0 if not r.get("trace") else 777777, Q.reason_n(r["reason"]), (mp.lease(r["lease"]) + 1) if r["lease"] else 0, r["until"])


def hash_rows(mp, rows, with_next=True):
    acc = 11
    for r in rows:
        acc = (acc + Q.mixl(7, row_tuple(mp, r, with_next))) % Q.HM
    return acc


def ctime(ns):
    """times near T0 as an offset from the constant T of the scratch file (19-digit literals are slow to read)"""
    d = ns - T0
    if ns != 0 and abs(d) < 10 ** 15:
        return "(T+%d)" % d if d >= 0 else "(T-%d)" % -d
    return Q.cZ(ns)


def coq_msg(mp, r):
    t = row_tuple(mp, r)
    lease = "None" if t[11] == 0 else "(Some %s)" % Q.cN(t[11] - 1)
    return "(mkMsg %s %s %s %s %s %s %s %s %s %s %s %s %s)" % (
        Q.cN(t[0]), Q.cN(t[1]), Q.cN(t[2]), STC.get(r["state"], "Queued"), ctime(t[4]), Q.cZ(t[5]), ctime(t[6]),
        Q.cN(t[7]), Q.cN(t[8]), Q.cN(t[9]), Q.cN(t[10]), lease, ctime(t[12]))


# ---------------------------------------------------------------------------
# request pieces: each returns (wire value, model term, facts for the direct predicate)

def pad(rng, s):
    a, b = rng.choice(PADS)
    return a + s + b


def coq_rid(s):
    t = s.strip()
    if t == "":
        return "RBlank"
    return "(%s %s)" % ("RPlain" if t == s else "RPadded", Q.cN(Maps.idn(t)))


class IdList:
    """a raw id list kept as segments so that 1000-element lists stay compact in the Coq file"""

    def __init__(self):
        self.segs = []

    def lit(self, xs):
        if xs:
            self.segs.append(("lit", list(xs)))
        return self

    def rng_unknown(self, start, count):
        self.segs.append(("range", start, count))     # zz<start> .. zz<start+count-1>
        return self

    def rep(self, s, count):
        self.segs.append(("rep", s, count))
        return self

    def strings(self):
        out = []
        for sg in self.segs:
            if sg[0] == "lit":
                out += sg[1]
            elif sg[0] == "range":
                out += ["zz%06d" % (sg[1] + k) for k in range(sg[2])]
            else:
                out += [sg[1]] * sg[2]
        return out

    def coq(self):
        parts = []
        for sg in self.segs:
            if sg[0] == "lit":
                parts.append("[" + "; ".join(coq_rid(s) for s in sg[1]) + "]")
            elif sg[0] == "range":
                parts.append("(map RPlain (nrange %d%%N %d))" % (900000 + sg[1], sg[2]))
            else:
                parts.append("(repeat %s %d)" % (coq_rid(sg[1]), sg[2]))
        return "(" + " ++ ".join(parts) + ")" if parts else "[]"


def gen_idlist(rng, pop_ids, shape):
    il = IdList()
    if shape == "normal":
        k = rng.randrange(1, 9)
        xs = []
        for _ in range(k):
            c = rng.random()
            if c < 0.7:
                s = rng.choice(pop_ids)
            elif c < 0.85 and xs:
                s = rng.choice(xs).strip()
            else:
                s = "zz%06d" % rng.randrange(1, 50)
            if rng.random() < 0.25:
                s = pad(rng, s)
            xs.append(s)
        return il.lit(xs), "ids-normal", None
    if shape == "one":
        return il.lit([rng.choice(pop_ids)]), "ids-1", "accept"
    if shape == "all":
        xs = list(pop_ids)
        rng.shuffle(xs)
        return il.lit(xs), "ids-all", None
    if shape == "empty":
        return il, "ids-0", "refuse"
    if shape == "blank":
        xs = [rng.choice(pop_ids) for _ in range(rng.randrange(0, 4))]
        xs.insert(rng.randrange(len(xs) + 1), rng.choice(["", " ", "\t ", "  "]))
        return il.lit(xs), "ids-blank", "refuse"
    if shape == "1000":
        xs = rng.sample(pop_ids, min(len(pop_ids), rng.randrange(3, 15)))
        return il.lit(xs).rng_unknown(100, 1000 - len(xs)), "ids-1000", None
    if shape == "1001":
        xs = rng.sample(pop_ids, min(len(pop_ids), rng.randrange(3, 15)))
        return il.lit(xs).rng_unknown(100, 1001 - len(xs)), "ids-1001", "refuse"
    if shape == "1001dup":
        s = rng.choice(pop_ids)
        return il.rep(s, 1001), "ids-1001-duplicates", "refuse"
    if shape == "1000dup":
        s = rng.choice(pop_ids)
        return il.rep(s, 999).lit([pad(rng, s)]), "ids-1000-duplicates", None
    raise ValueError(shape)


def audit_headers(rng, intent, mode="good", managed=False):
    """returns (headers, reason, actor, request id) as sent"""
    h = {}
    reason = rng.choice(["verif", "r", " padded reason ", "x" * 512])
    actor = ""
    reqid = ""
    if mode == "no_reason":
        reason = rng.choice(["", "   "])
    elif mode == "long_reason":
        reason = "x" * 513
    if intent["require_actor"] or rng.random() < 0.25:
        actor = "someone"
    if managed and (intent["actor_allow"] or intent["actor_prefix"]):
        actor = rng.choice([intent["actor_allow"][0], (intent["actor_prefix"] or ["x"])[0] + "7", "ops"])
    if intent["require_request_id"] or rng.random() < 0.25:
        reqid = "req-%d" % rng.randrange(1000)
    if mode == "no_actor":
        actor = ""
    elif mode == "bad_actor":
        actor = "intruder"
    elif mode == "no_reqid":
        reqid = ""
    elif mode == "long_actor":
        actor = "a" * 257
    if reason != "":
        h["X-Hookaido-Audit-Reason"] = reason
    if actor != "":
        h["X-Hookaido-Audit-Actor"] = actor
    if reqid != "":
        h["X-Request-ID"] = reqid
    return h, reason, actor, reqid


def coq_hreq(auth, post, reason, actor, reqid):
    return "(mkHReq %s %s (mkAudit %s %s %s))" % (C.coq_bool(auth), C.coq_bool(post), cbytes(reason), cbytes(actor), cbytes(reqid))


def coq_label(s):
    s = s.strip()
    if s == "":
        return "LBlank"
    if not LABEL_RE.match(s):
        return "LInvalid"
    return "(LValid %d%%N)" % LABEL_N.get(s, 900)


def coq_rroute(s):
    t = s.strip()
    if t == "":
        return "RtBlank"
    if not t.startswith("/"):
        return "RtNoSlash"
    return "(%s %d%%N)" % ("RtPlain" if t == s else "RtPadded", ROUTE_N.get(t, UNKNOWN_ROUTE))


def coq_target(s):
    t = s.strip()
    if t == "":
        return "RBlank"
    return "(%s %d%%N)" % ("RPlain" if t == s else "RPadded", TARGET_N.get(t, UNKNOWN_TARGET))


def coq_rstate(s):
    t = s.strip().lower()
    if t == "":
        return "RsBlank"
    if t in STC:
        return "(RsKnown %s)" % STC[t]
    return "RsUnknown"


def gen_filter_fields(rng, intent, recvs, verb, force=None):
    """a by-filter body as a dict of JSON fields plus the facts about it.  force: dict of field overrides;
    force = {"__exact__": fields} returns a copy of exactly those fields."""
    if force and "__exact__" in force:
        return dict(force["__exact__"])
    f = {}
    routes = intent["routes"]
    unmanaged = [r for r in routes if r not in intent["owners"]]
    c = rng.random()
    if c < 0.55:
        f["route"] = rng.choice(unmanaged)
    elif c < 0.65:
        f["route"] = pad(rng, rng.choice(unmanaged))
    elif c < 0.72:
        f["route"] = rng.choice(routes)
    elif c < 0.75:
        f["route"] = "/zz"
    elif c < 0.78:
        f["route"] = ""
    if rng.random() < 0.35:
        t = rng.choice(list(TARGET_N))
        f["target"] = pad(rng, t) if rng.random() < 0.2 else t
    elif rng.random() < 0.05:
        f["target"] = "http://nowhere/"
    c = rng.random()
    if c < 0.45:
        f["state"] = rng.choice(ALLOWED[verb])
    elif c < 0.55:
        f["state"] = rng.choice(STATES)
    elif c < 0.60:
        f["state"] = rng.choice(ALLOWED[verb]).upper()
    elif c < 0.63:
        f["state"] = " " + rng.choice(ALLOWED[verb]) + " "
    elif c < 0.66:
        f["state"] = ""
    c = rng.random()
    if c < 0.30:
        f["before_ns"] = rng.choice(recvs)                    # exactly on a tie timestamp
    elif c < 0.42:
        f["before_ns"] = rng.choice(recvs) + rng.choice([1, SEC // 2])
    elif c < 0.47:
        f["before_ns"] = T0 + 3600 * SEC
    elif c < 0.50:
        f["before_ns"] = T0 - 3600 * SEC
    c = rng.random()
    if c < 0.55:
        f["limit"] = rng.choice([1, 1, 2, 3, 5, 10, 100, 1000])
    elif c < 0.65:
        f["limit"] = 0
    elif c < 0.72:
        f["limit"] = rng.choice([1001, 5000])
    if rng.random() < 0.35:
        f["preview_only"] = rng.random() < 0.75
    if force:
        for k, v in force.items():
            if v is None:
                f.pop(k, None)
            else:
                f[k] = v
    if "before_raw" in f:
        f.pop("before_ns", None)
    return f


def filter_wire(f):
    """JSON object for the Admin API"""
    o = {}
    for k in ("route", "target", "state", "limit", "preview_only", "application", "endpoint_name"):
        if k in f:
            o[k] = f[k]
    if "before_raw" in f:
        o["before"] = f["before_raw"]
    elif "before_ns" in f:
        o["before"] = rfc3339(f["before_ns"])
    return o


def coq_before(f):
    if "before_raw" in f:
        return "TAbsent" if f["before_raw"].strip() == "" else "TBad"
    if "before_ns" in f:
        return "(TOk %s)" % ctime(f["before_ns"])
    return "TAbsent"


def coq_fbody(f):
    return "(mkFBody %s %s %s %s %s %s %s %s)" % (
        coq_rroute(f.get("route", "")), coq_label(f.get("application", "")), coq_label(f.get("endpoint_name", "")),
        coq_target(f.get("target", "")), coq_rstate(f.get("state", "")), coq_before(f), Q.cZ(f.get("limit", 0)),
        C.coq_bool(bool(f.get("preview_only", False))))


def filter_facts(f, verb, transport):
    """(refuse?, criteria) as the property statement reads the request"""
    st = f.get("state", "").strip().lower()
    lim = f.get("limit", 0)
    refuse = None
    if st and st not in STC:
        refuse = "state-unknown"
    elif st and st not in ALLOWED[verb]:
        refuse = "state-outside"
    if "before_raw" in f and f["before_raw"].strip() != "":
        refuse = refuse or "before-bad"
    if transport == "http":
        if lim < 0:
            refuse = refuse or "limit-negative"
        eff = 100 if lim == 0 else min(lim, 1000)
    else:
        if "limit" in f and (lim <= 0 or lim > 1000):
            refuse = refuse or "limit-out-of-range"
        eff = lim if "limit" in f else 100
    crit = dict(route=f.get("route", "").strip(), target=f.get("target", "").strip(), state=st,
                before=f.get("before_ns"), limit=eff, preview=bool(f.get("preview_only", False)))
    return refuse, crit


def tag_of_filter(f):
    bits = []
    if "limit" in f:
        bits.append("limit%s" % ("-neg" if f["limit"] < 0 else ("-0" if f["limit"] == 0 else ("-over" if f["limit"] > 1000 else ""))))
    if f.get("preview_only"):
        bits.append("preview")
    if "before_ns" in f or "before_raw" in f:
        bits.append("before")
    if f.get("state", "").strip():
        bits.append("state")
    return "filter" + ("-" + "-".join(bits) if bits else "")


# ---------------------------------------------------------------------------
# HTTP requests of one group

def http_requests(rng, intent, pop, recvs, tier):
    reqs = []
    pop_ids = [m["id"] for m in pop]
    managed_ids = [m["id"] for m in pop if m["route"] in intent["owners"]]
    token_ok = {"Authorization": "Bearer " + ADMIN_TOKEN} if intent.get("token") else {}

    def add(kind, verb, method, path, headers, body, ep_term, hbody_term, tag, expect, spec, reason, actor, reqid, auth=True):
        h = dict(headers)
        if auth:
            h.update(token_ok)
        reqs.append(dict(transport="http", kind=kind, verb=verb, method=method, path=path, headers=h, body=body,
                         ep=ep_term, hbody=hbody_term, tag=tag, expect=expect, spec=spec,
                         hreq=(auth or not intent.get("token"), method == "POST", reason, actor, reqid)))

    def ids_req(verb, shape, audit_mode="good", method="POST", raw_body=None, auth=True, body_tag=None):
        il, tag, expect = gen_idlist(rng, pop_ids, shape)
        strs = il.strings()
        touches = any(s.strip() in managed_ids for s in strs)
        h, reason, actor, reqid = audit_headers(rng, intent, audit_mode, managed=touches)
        body = json.dumps({"ids": strs}) if raw_body is None else raw_body
        hb = "(BIds (IBIds %s))" % il.coq() if raw_body is None else "(BIds IBBad)"
        if raw_body is not None:
            tag, expect = body_tag, "refuse"
        if audit_mode in ("no_reason", "long_reason"):
            tag, expect = "audit-" + audit_mode, "refuse"
        elif audit_mode != "good":
            tag = "audit-" + audit_mode
        if method != "POST":
            tag, expect = "method-" + method, "refuse"
        if not auth and intent.get("token"):
            tag, expect = "no-token", "refuse"
        add("ids", verb, method, IDS_PATH[verb], h, body, "(EpIds %s)" % KIND[verb], hb, tag, expect,
            dict(raw=strs), reason, actor, reqid, auth)

    def filter_req(verb, scoped=None, audit_mode="good", method="POST", raw_body=None, auth=True, force=None, body_tag=None, tag=None):
        f = gen_filter_fields(rng, intent, recvs, verb, force)
        if scoped:
            for k in ("route", "application", "endpoint_name"):
                if not (force and k in force):
                    f.pop(k, None)
        refuse, crit = filter_facts(f, verb, "http")
        selector = scoped or ((f.get("application", "").strip(), f.get("endpoint_name", "").strip()) if f.get("application", "").strip() else None)
        managed = bool(selector) or crit["route"] in intent["owners"]
        h, reason, actor, reqid = audit_headers(rng, intent, audit_mode, managed=managed)
        if selector and selector in intent["owners"].values():
            crit["route"] = [r for r, o in intent["owners"].items() if o == selector][0]
        body = json.dumps(filter_wire(f)) if raw_body is None else raw_body
        hb = "(BFilter (FBOk %s))" % coq_fbody(f) if raw_body is None else "(BFilter FBBad)"
        t = tag or tag_of_filter(f)
        expect = "refuse" if refuse else None
        if refuse:
            t = refuse
        if raw_body is not None:
            t, expect = body_tag, "refuse"
        if audit_mode in ("no_reason", "long_reason"):
            t, expect = "audit-" + audit_mode, "refuse"
        elif audit_mode != "good":
            t = "audit-" + audit_mode
        if method != "POST":
            t, expect = "method-" + method, "refuse"
        if not auth and intent.get("token"):
            t, expect = "no-token", "refuse"
        if scoped:
            path = "/applications/%s/endpoints/%s/messages/%s_by_filter" % (scoped[0].replace(" ", "%20"), scoped[1].replace(" ", "%20"), verb)
            ep = "(EpScopedFilter %s %s %s)" % (FKIND[verb], coq_label(scoped[0]), coq_label(scoped[1]))
            kind = "scoped"
        else:
            path = "/messages/%s_by_filter" % verb
            ep = "(EpFilter %s)" % FKIND[verb]
            kind = "filter"
        add(kind, verb, method, path, h, body, ep, hb, t, expect, dict(crit=crit, fields=f), reason, actor, reqid, auth)

    verbs5 = list(IDS_PATH)
    verbs3 = list(FKIND)
    # --- every id endpoint: every list shape
    for verb in verbs5:
        for shape in ("normal", "normal", "one", "empty", "blank"):
            ids_req(verb, shape)
    for shape in ("1000", "1001", "1001dup", "1000dup"):
        ids_req(rng.choice(verbs5), shape)
    if tier != "quick":
        for verb in verbs5:
            for shape in ("1000", "1001", "1001dup", "1000dup", "all"):
                ids_req(verb, shape)
    # --- request-level refusals on id endpoints
    some = rng.sample(pop_ids, 3)
    bad_bodies = [
        ('{"ids": %s, "extra": 1}' % json.dumps(some), "unknown-field"),
        ('{"ids": %s, "limit": 5}' % json.dumps(some), "unknown-field"),
        ('{"ids": "%s"}' % some[0], "ids-not-array"),
        ('{"ids": [1, 2]}', "ids-not-strings"),
        ('{"ids": %s} {"ids": %s}' % (json.dumps(some), json.dumps(some)), "two-documents"),
        ('', "empty-body"),
        ('{"ids": %s' % json.dumps(some), "truncated-json"),
        ('{}', "ids-absent"),
        ('{"ids": null}', "ids-null"),
        ('[%s]' % json.dumps(some[0]), "body-not-object"),
    ]
    for body, bt in bad_bodies:
        ids_req(rng.choice(verbs5), "normal", raw_body=body, body_tag=bt)
    for verb in verbs5:
        ids_req(verb, "normal", audit_mode="no_reason")
        ids_req(verb, "normal", method=rng.choice(["GET", "PUT", "DELETE", "PATCH"]))
    ids_req(rng.choice(verbs5), "normal", audit_mode="long_reason")
    ids_req(rng.choice(verbs5), "normal", audit_mode="long_actor")
    if intent.get("token"):
        for verb in verbs5:
            ids_req(verb, "normal", auth=False)
    if intent["owners"]:
        for verb in verbs5:
            for mode in ("no_actor", "bad_actor", "no_reqid", "good"):
                ids_req(verb, "normal", audit_mode=mode)
    # --- by-filter endpoints
    for verb in verbs3:
        for _ in range(7 if tier == "quick" else 40):
            filter_req(verb)
        # boundary limits with few other criteria, so that the cap itself decides
        for lim in (-1, 0, 1, 1000, 1001):
            filter_req(verb, force=dict(limit=lim, target=None, before_ns=None, state=None, preview_only=rng.random() < 0.3,
                                        route=rng.choice([r for r in intent["routes"] if r not in intent["owners"]])))
        # no criteria at all
        filter_req(verb, force=dict(route=None, target=None, state=None, before_ns=None, limit=None, preview_only=None), tag="filter-no-criteria")
        # contradictory criteria: state outside the set, and route/target that nothing has
        filter_req(verb, force=dict(state=rng.choice([s for s in STATES if s not in ALLOWED[verb]])))
        filter_req(verb, force=dict(state="bogus"))
        filter_req(verb, force=dict(route="/zz", target="http://nowhere/"), tag="filter-contradictory")
        filter_req(verb, force=dict(before_raw=rng.choice(["yesterday", "2023-13-40T00:00:00Z", "1700000000"])))
        filter_req(verb, force=dict(route="noslash"), tag="route-noslash")
        # preview followed by the real run of the same filter
        f = gen_filter_fields(rng, intent, recvs, verb, dict(route=rng.choice([r for r in intent["routes"] if r not in intent["owners"]]),
                                                             state=rng.choice(ALLOWED[verb]), preview_only=True, limit=rng.choice([1, 2, 3, 100])))
        filter_req(verb, force={"__exact__": f}, tag="preview-then-real:preview")
        filter_req(verb, force={"__exact__": dict(f, preview_only=False)}, tag="preview-then-real:real")
        reqs[-1]["pair_with_previous"] = True
        filter_req(verb, audit_mode="no_reason")
        filter_req(verb, method=rng.choice(["GET", "PUT", "DELETE"]))
        for body, bt in (('{"route": "/a", "bogus": true}', "unknown-field"), ('{"limit": "5"}', "limit-string"),
                         ('{"limit": 1.5}', "limit-fraction"), ('{"preview_only": "yes"}', "preview-not-bool"),
                         ('{"route": "/a"} {}', "two-documents"), ('', "empty-body"), ('{"ids": ["m0001"]}', "unknown-field")):
            if rng.random() < (0.5 if tier == "quick" else 1.0):
                filter_req(verb, raw_body=body, body_tag=bt)
        if intent.get("token"):
            filter_req(verb, auth=False)
        if intent["owners"]:
            sel = dict(application="app1", endpoint_name="ep1", route=None)
            for mode in ("good", "no_actor", "bad_actor", "no_reqid"):
                filter_req(verb, force=sel, audit_mode=mode, tag="selector")
            filter_req(verb, force=dict(application="app1", endpoint_name="ep2", route=None, limit=rng.choice([0, 1, 1001])), tag="selector")
            filter_req(verb, force=dict(application="app1", endpoint_name="ghost", route=None), tag="selector-ghost")
            filter_req(verb, force=dict(application="app1", endpoint_name=None, route=None), tag="selector-half")
            filter_req(verb, force=dict(application="app1", endpoint_name="ep1", route="/m"), tag="selector-and-route")
            filter_req(verb, force=dict(application="bad label!", endpoint_name="ep1", route=None), tag="selector-bad-label")
            filter_req(verb, force=dict(route="/m", application=None, endpoint_name=None), tag="managed-route-without-selector")
            filter_req(verb, force=dict(route=None, application=None, endpoint_name=None), tag="no-route-with-managed-routes")
            # endpoint-scoped path
            for mode in ("good", "good", "no_actor", "bad_actor", "no_reqid", "no_reason"):
                filter_req(verb, scoped=("app1", rng.choice(["ep1", "ep2"])), audit_mode=mode)
            for lim in (-1, 0, 1001):
                filter_req(verb, scoped=("app1", "ep1"), force=dict(limit=lim))
            filter_req(verb, scoped=("app1", "ep1"), force=dict(state=rng.choice([s for s in STATES if s not in ALLOWED[verb]])))
            filter_req(verb, scoped=("app1", "ep1"), force=dict(route="/m"), tag="scoped-route-hint")
            filter_req(verb, scoped=("app1", "ep1"), force=dict(application="app1", endpoint_name="ep1"), tag="scoped-selector-hint")
            filter_req(verb, scoped=("app1", "ghost"), tag="scoped-ghost")
            filter_req(verb, scoped=("bad label!", "ep1"), tag="scoped-bad-label")
            filter_req(verb, scoped=("app1", "ep1"), method="GET")
            filter_req(verb, scoped=("app1", "ep1"), raw_body='{"zzz": 1}', body_tag="unknown-field")
    return shuffle_units(rng, reqs)


def shuffle_units(rng, items):
    """shuffle, keeping every preview/real pair adjacent"""
    units = []
    for c in items:
        if c.get("pair_with_previous"):
            units[-1].append(c)
        else:
            units.append([c])
    rng.shuffle(units)
    return [c for u in units for c in u]


# ---------------------------------------------------------------------------
# MCP calls of one group

ID_KEYS = {"reason", "actor", "request_id", "ids"}
FILTER_KEYS = {"reason", "actor", "request_id", "route", "application", "endpoint_name", "target", "state", "before", "limit", "preview_only"}


def coq_maudit(args):
    wf = True
    for k in ("reason", "actor", "request_id"):
        if k in args and not isinstance(args[k], str):
            wf = False
    reason = args.get("reason", "") if isinstance(args.get("reason", ""), str) else ""
    actor = args.get("actor", "") if isinstance(args.get("actor", ""), str) else ""
    reqid = args.get("request_id", "") if isinstance(args.get("request_id", ""), str) else ""
    reason, actor, reqid = reason.strip(), actor.strip(), reqid.strip()
    resolved = actor or PRINCIPAL
    if len(reason) > 512 or len(resolved) > 256 or len(reqid) > 256:
        wf = False
    return "(mkMA %s %s %s %s)" % (C.coq_bool(wf), C.coq_bool(reason != ""), C.coq_bool(actor in ("", PRINCIPAL)), cbytes(reqid))


def mcp_limit_term(args):
    if "limit" not in args:
        return "MLAbsent", None
    v = args["limit"]
    if isinstance(v, bool):
        return "MLBad", None
    if isinstance(v, (int, float)):
        if float(v) != int(v):
            return "MLBad", None
        return "(MLInt %s)" % Q.cZ(int(v)), int(v)
    if isinstance(v, str):
        try:
            n = int(v.strip())
        except ValueError:
            return "MLBad", None
        if not re.match(r"^[+-]?\d+$", v.strip()):
            return "MLBad", None
        return "(MLInt %s)" % Q.cZ(n), n
    return "MLBad", None


def mcp_calls(rng, intent, pop, recvs, use_config, tier):
    calls = []
    pop_ids = [m["id"] for m in pop]

    def audit_args(mode="good"):
        a = {"reason": rng.choice(["verif", " padded ", "r"])}
        if rng.random() < 0.3:
            a["actor"] = rng.choice([PRINCIPAL, " " + PRINCIPAL + " ", ""])
        if intent["require_request_id"] or rng.random() < 0.3:
            a["request_id"] = "req-%d" % rng.randrange(1000)
        if mode == "no_reason":
            a["reason"] = rng.choice(["", "  "]) if rng.random() < 0.6 else None
            if a["reason"] is None:
                del a["reason"]
        elif mode == "reason_not_string":
            a["reason"] = 7
        elif mode == "other_actor":
            a["actor"] = "intruder"
        elif mode == "no_reqid":
            a.pop("request_id", None)
        elif mode == "long_reason":
            a["reason"] = "x" * 513
        return a

    def ids_call(verb, shape, mode="good", extra=None, ids_override="__none__", tag=None):
        il, t, expect = gen_idlist(rng, pop_ids, shape)
        args = audit_args(mode)
        strs = il.strings()
        args["ids"] = strs
        body = "(IBIds %s)" % il.coq()
        if ids_override != "__none__":
            if ids_override is None:
                del args["ids"]
            else:
                args["ids"] = ids_override
            body, t, expect = "IBBad", tag, "refuse"
        if extra:
            args.update(extra)
        unknown = any(k not in ID_KEYS for k in args)
        if unknown:
            t, expect = "unknown-key", "refuse"
        if mode in ("no_reason", "reason_not_string", "other_actor", "long_reason"):
            t, expect = "audit-" + mode, "refuse"
        elif mode != "good":
            t = "audit-" + mode
        term = "(MtIds %s (mkMI %s %s %s))" % (KIND[verb], C.coq_bool(unknown), coq_maudit(args), body)
        calls.append(dict(transport="mcp", kind="ids", verb=verb, tool=IDS_TOOL[verb], args=args, term=term, tag=t, expect=expect,
                          spec=dict(raw=strs), parts=dict(unknown=unknown, body=body)))

    def filter_call(verb, mode="good", force=None, extra=None, tag=None, raw=None):
        f = gen_filter_fields(rng, intent, recvs, verb, force)
        if use_config and intent["owners"] and not (force and ("route" in force or "application" in force or "__exact__" in force)):
            # with managed routes configured, a request without a route is refused; keep most requests on unmanaged routes
            if f.get("route", "").strip() == "" and rng.random() < 0.8:
                f["route"] = rng.choice([r for r in intent["routes"] if r not in intent["owners"]])
        if raw:
            f.update(raw)
        args = audit_args(mode)
        wire = filter_wire({k: v for k, v in f.items() if k not in ("limit_wire",)})
        if "limit_wire" in f:
            wire["limit"] = f["limit_wire"]
        args.update(wire)
        if extra:
            args.update(extra)
        unknown = any(k not in FILTER_KEYS for k in args)
        wf = all(isinstance(args[k], str) for k in ("before", "state", "route", "application", "endpoint_name", "target") if k in args) \
            and ("preview_only" not in args or isinstance(args["preview_only"], bool))
        lterm, lnum = mcp_limit_term(args)
        ff = dict(f)
        if lnum is not None:
            ff["limit"] = lnum
        elif "limit" in args:
            ff["limit"] = -7          # MLBad: refused
        refuse, crit = filter_facts(ff, verb, "mcp")
        if lterm == "MLBad":
            refuse = refuse or "limit-bad-type"
        if not wf:
            refuse = refuse or "wrong-type"
        if unknown:
            refuse = refuse or "unknown-key"
        selector = (f.get("application", "").strip(), f.get("endpoint_name", "").strip()) if isinstance(f.get("application", ""), str) and f.get("application", "").strip() else None
        if selector and selector in intent["owners"].values():
            crit["route"] = [r for r, o in intent["owners"].items() if o == selector][0]
        t = tag or tag_of_filter(ff)
        expect = "refuse" if refuse else None
        if refuse:
            t = refuse
        if mode in ("no_reason", "reason_not_string", "other_actor", "long_reason"):
            t, expect = "audit-" + mode, "refuse"
        elif mode != "good":
            t = "audit-" + mode
        sf = {k: (v if isinstance(v, str) else "") for k, v in f.items() if k in ("route", "application", "endpoint_name", "target", "state")}
        term = "(MtFilter %s (mkMF %s %s %s %s %s %s %s %s %s %s %s))" % (
            FKIND[verb], C.coq_bool(unknown), C.coq_bool(wf), coq_maudit(args),
            coq_rroute(sf.get("route", "")), coq_label(sf.get("application", "")), coq_label(sf.get("endpoint_name", "")),
            coq_target(sf.get("target", "")), coq_rstate(sf.get("state", "")), coq_before(f), lterm,
            C.coq_bool(args.get("preview_only") is True))
        calls.append(dict(transport="mcp", kind="filter", verb=verb, tool="messages_%s_by_filter" % verb, args=args, term=term, tag=t,
                          expect=expect, spec=dict(crit=crit, fields={k: v for k, v in f.items()}),
                          parts=dict(unknown=unknown, wf=wf, route=coq_rroute(sf.get("route", "")), app=coq_label(sf.get("application", "")),
                                     ep=coq_label(sf.get("endpoint_name", "")), target=coq_target(sf.get("target", "")),
                                     state=coq_rstate(sf.get("state", "")), before=coq_before(f), limit=lterm,
                                     preview=args.get("preview_only") is True)))

    verbs5 = list(IDS_PATH)
    verbs3 = list(FKIND)
    for verb in verbs5:
        for shape in ("normal", "normal", "one", "empty", "blank"):
            ids_call(verb, shape)
        ids_call(verb, "normal", mode=rng.choice(["no_reason", "reason_not_string", "other_actor", "long_reason"]))
        if intent["owners"]:
            ids_call(verb, "normal", mode="no_reqid")
    for shape in ("1000", "1001", "1001dup", "1000dup"):
        ids_call(rng.choice(verbs5), shape)
    ids_call(rng.choice(verbs5), "normal", extra={"limit": 5})
    ids_call(rng.choice(verbs5), "normal", ids_override=None, tag="ids-absent")
    ids_call(rng.choice(verbs5), "normal", ids_override="m0001", tag="ids-not-array")
    ids_call(rng.choice(verbs5), "normal", ids_override=["m0001", 7], tag="ids-not-strings")
    unmanaged = [r for r in intent["routes"] if r not in intent["owners"]]
    for verb in verbs3:
        for _ in range(5 if tier == "quick" else 30):
            filter_call(verb)
        for lim in (-1, 0, 1, 1000, 1001):
            filter_call(verb, force=dict(limit=lim, target=None, before_ns=None, state=None, route=rng.choice(unmanaged)))
        filter_call(verb, force=dict(limit=None, target=None, before_ns=None, state=None, route=rng.choice(unmanaged)), tag="limit-absent")
        filter_call(verb, force=dict(limit=None), raw=dict(limit_wire=rng.choice(["5", " 7 ", "0", "x", 1.5, True])), tag="limit-wire")
        filter_call(verb, force=dict(route=None, target=None, state=None, before_ns=None, limit=None, preview_only=None), tag="filter-no-criteria")
        filter_call(verb, force=dict(state=rng.choice([s for s in STATES if s not in ALLOWED[verb]])))
        filter_call(verb, force=dict(state="bogus"))
        filter_call(verb, force=dict(before_raw="yesterday"))
        filter_call(verb, force=dict(route="noslash"), tag="route-noslash")
        filter_call(verb, extra={"bogus": 1})
        filter_call(verb, extra={"preview_only": "yes"})
        filter_call(verb, mode=rng.choice(["no_reason", "other_actor"]))
        f = gen_filter_fields(rng, intent, recvs, verb, dict(route=rng.choice(unmanaged), state=rng.choice(ALLOWED[verb]), preview_only=True,
                                                             limit=rng.choice([1, 2, 3, 100])))
        filter_call(verb, force={"__exact__": f}, tag="preview-then-real:preview")
        filter_call(verb, force={"__exact__": dict(f, preview_only=False)}, tag="preview-then-real:real")
        calls[-1]["pair_with_previous"] = True
        if intent["owners"]:
            filter_call(verb, force=dict(application="app1", endpoint_name="ep1", route=None), tag="selector")
            filter_call(verb, force=dict(application="app1", endpoint_name="ep2", route=None), mode="no_reqid", tag="selector")
            filter_call(verb, force=dict(application="app1", endpoint_name="ghost", route=None), tag="selector-ghost")
            filter_call(verb, force=dict(application="app1", endpoint_name=None, route=None), tag="selector-half")
            filter_call(verb, force=dict(application="app1", endpoint_name="ep1", route="/m"), tag="selector-and-route")
            filter_call(verb, force=dict(route="/m", application=None, endpoint_name=None), tag="managed-route-without-selector")
            filter_call(verb, force=dict(route=None, application=None, endpoint_name=None), tag="no-route-with-managed-routes")
    return shuffle_units(rng, calls)


# ---------------------------------------------------------------------------
# the property, evaluated directly on before/after rows of the implementation

def by_id(rows):
    return {r["id"]: r for r in rows}


def changed_ids(before, after):
    b, a = by_id(before), by_id(after)
    out = set(i for i in b if i not in a or a[i] != b[i])
    out |= set(i for i in a if i not in b)
    return out


def check_effect(verb, sel_ids, before, after, count, wall=None, now=None):
    """rows [sel_ids] must have changed as the operation defines, nothing else; count = |changed|"""
    probs = []
    b, a = by_id(before), by_id(after)
    ch = changed_ids(before, after)
    if ch != set(sel_ids):
        extra = sorted(ch - set(sel_ids))[:5]
        missing = sorted(set(sel_ids) - ch)[:5]
        probs.append("changed rows %s differ from the selection: changed but not selected %s, selected but unchanged %s" % (len(ch), extra, missing))
    for i in sel_ids:
        if i not in b:
            continue
        tgt = TARGET_STATE[verb]
        if tgt is None:
            if i in a:
                probs.append("%s still stored after dlq delete" % i)
            continue
        r = a.get(i)
        if r is None:
            probs.append("%s disappeared" % i)
            continue
        o = b[i]
        if r["state"] != tgt or r["lease"] or r["until"] or r["reason"]:
            probs.append("%s is %s lease=%r reason=%r, expected %s with no lease and no reason" % (i, r["state"], r["lease"], r["reason"], tgt))
        for k in ("route", "target", "recv", "attempt", "payload", "headers", "trace"):
            if (r.get(k) or None) != (o.get(k) or None):
                probs.append("%s field %s changed" % (i, k))
        if now is not None and r["next"] != now:
            probs.append("%s next_run_at %d, expected the store clock %d" % (i, r["next"], now))
        if wall is not None and not (wall[0] <= r["next"] <= wall[1]):
            probs.append("%s next_run_at outside the wall-clock window of the call" % i)
    if count != len(ch):
        probs.append("reported count %s, rows changed %d" % (count, len(ch)))
    return probs


def select_by_filter(verb, crit, before):
    cands = [r for r in before if r["state"] in ALLOWED[verb]
             and (crit["route"] == "" or r["route"] == crit["route"])
             and (crit["target"] == "" or r["target"] == crit["target"])
             and (crit["state"] == "" or r["state"] == crit["state"])
             and (crit["before"] is None or r["recv"] < crit["before"])]
    cands.sort(key=lambda r: (r["recv"], r["id"]), reverse=True)
    return [r["id"] for r in cands[:crit["limit"]]]


def judge_property(rq, resp, before, after, now=None):
    """returns list of (class, text)"""
    ok = resp["status"] == 200
    out = []
    if not ok:
        if changed_ids(before, after):
            out.append(("refused-but-changed", "answer %s but stored rows changed: %s" % (resp["status"], sorted(changed_ids(before, after))[:6])))
        return out
    if rq["expect"] == "refuse":
        out.append(("accepted-should-refuse", "request of class %s was answered 200 (%s)" % (rq["tag"], resp["body"][:120])))
    verb = rq["verb"]
    wall = (resp["t0"], resp["t1"]) if rq["transport"] == "mcp" else None
    if rq["kind"] == "ids":
        names = set(s.strip() for s in rq["spec"]["raw"])
        sel = [r["id"] for r in before if r["id"] in names and r["state"] in ALLOWED[verb]]
        count = resp["fields"].get(IDS_FIELD[verb])
        if count is None:
            out.append(("count-missing", "200 without %r in %s" % (IDS_FIELD[verb], resp["body"][:120])))
            count = -1
        for p in check_effect(verb, sel, before, after, count, wall, now):
            out.append(("ids-effect", p))
    else:
        crit = rq["spec"]["crit"]
        sel = select_by_filter(verb, crit, before)
        matched = resp["fields"].get("matched")
        changed = resp["fields"].get(IDS_FIELD[verb], 0)
        if matched != len(sel):
            out.append(("filter-matched", "matched %s, the filter selects %d (limit %d)" % (matched, len(sel), crit["limit"])))
        if not resp["has_preview"] or resp["preview_only"] != crit["preview"]:
            out.append(("filter-preview-flag", "preview_only in the answer is %s/%s, requested %s" % (resp["has_preview"], resp["preview_only"], crit["preview"])))
        if crit["preview"]:
            if changed_ids(before, after):
                out.append(("preview-changed", "preview_only changed rows %s" % sorted(changed_ids(before, after))[:6]))
            if changed != 0:
                out.append(("preview-count", "preview_only reports %d changed" % changed))
        else:
            for p in check_effect(verb, sel, before, after, changed, wall, now):
                out.append(("filter-effect", p))
    return out


# ---------------------------------------------------------------------------

HEADER = """From Coq Require Import List ZArith NArith Bool.
From HK Require Import Model.Queue Model.QueueHash Model.Headers Model.Publish Model.ManageGlue.
Import ListNotations.
Open Scope Z_scope.
Definition nrange (a : N) (n : nat) : list N := map (fun k => (a + N.of_nat k)%N) (seq 0 n).
Definition T : Z := 1700000000000000000.
"""


def coq_group(g, out, mp):
    lines = [HEADER]
    lines.append("Definition pop : list msg := [%s]." % ";\n  ".join(coq_msg(mp, r) for r in out["setup"]))
    lines.append("Definition x : ctx := %s." % coq_ctx(g["intent"]))
    terms = []
    for k, rq in enumerate(g["requests"]):
        auth, post, reason, actor, reqid = rq["hreq"]
        terms.append("AHttp x %s %s %s %s" % (ctime(g["now"] + (k + 1) * 1000000), rq["ep"], coq_hreq(auth, post, reason, actor, reqid), rq["hbody"]))
    if g.get("mcp"):
        cfg = "(Some x)" if g["mcp"]["use_config"] else "None"
        lines.append("Definition me : menv := mkMEnv true %s %s." % (cbytes(PRINCIPAL), cfg))
        for c in g["mcp_calls"]:
            terms.append("AMcp me %s" % c["term"])
    lines.append("Definition reqs : list areq := [%s]." % ";\n  ".join(terms))
    lines.append("Definition out := Eval vm_compute in run_requests pop reqs.")
    lines.append("Print out.")
    return "\n".join(lines) + "\n"


def parse_out(txt):
    """list of flat integer lists, one per request, plus the final checksum"""
    flat = " ".join(txt.split())
    m = re.search(r"out = \[(.*)\] : list", flat)
    if not m:
        return None
    inner = re.findall(r"\[([^\[\]]*)\]", m.group(1))
    return [[int(x) for x in re.findall(r"-?\d+", s)] for s in inner]


def diff_rows(mp, before, after, with_next):
    b, a = by_id(before), by_id(after)
    rows = []
    for i in sorted(changed_ids(before, after)):
        if i in a:
            rows.append(list(row_tuple(mp, a[i], with_next)))
        else:
            rows.append([mp.idn(i)] + [0] * 12)
    return sorted(rows)


def split_model_row(mo):
    """model output of one request -> (obs6, sorted changed rows | ("sums", n, column sums)) or None"""
    if len(mo) < 7:
        return None
    if mo[6] < 0:
        return (mo[:6], ("sums", -mo[6], mo[7:])) if len(mo) == 7 + 14 else None
    if len(mo) != 7 + 13 * mo[6]:
        return None
    rows = [mo[7 + 13 * j: 20 + 13 * j] for j in range(mo[6])]
    return mo[:6], sorted(rows)


def summarise_rows(rows):
    """what Model/ManageGlue.v diff_obs prints for more than 64 changed rows"""
    if len(rows) <= 64:
        return rows
    sums = [0] * 14
    for r in rows:
        for j, v in enumerate(list(r) + [r[0] * r[3]]):
            sums[j] += v
    return ("sums", len(rows), sums)


def observed_obs(rq, resp):
    st = resp["status"]
    if rq["transport"] == "mcp":
        if st != 200:
            return [0, 15, 0, 0, 0, 0]
    elif st != 200:
        return [st, CODE_N.get(resp["code"], 10 if resp["code"] else 0), 0, 0, 0, 0]
    f = resp["fields"] or {}
    if rq["kind"] == "ids":
        return [200, 0, f.get(IDS_FIELD[rq["verb"]], -1), 0, 0, 0]
    return [200, 0, 0, f.get("matched", -1), f.get(IDS_FIELD[rq["verb"]], 0), 1 if resp["preview_only"] else 0]


def big_group(rng, backend):
    """more than 1000 candidates on one route, so that "default 100" and "max 1000" decide the selection"""
    text, intent = make_config(CONFIGS[0])
    recvs = [T0 - 20 * SEC + k * SEC for k in range(4)]
    pop = []
    n_dead = 1010
    for i in range(1, n_dead + 41):
        want = "dead" if i <= n_dead else rng.choice(["queued", "canceled", "delivered", "leased"])
        # received_at falls with the id in tie groups of 8 (keeps the model's insertion sort cheap; ties sit on every limit boundary)
        pop.append(dict(id="m%04d" % i, route="/a" if i <= n_dead else rng.choice(intent["routes"]), target="pull",
                        recv=T0 - 20 * SEC - (i // 8) * 1000, want=want))
    first = [m for m in pop if m["want"] in ("dead", "delivered", "leased")]
    second = [m for m in pop if m["want"] in ("queued", "canceled")]
    steps = [dict(op="enqueue", id=m["id"], route=m["route"], target=m["target"], recv=m["recv"]) for m in first]
    steps.append(dict(op="dequeue_all", ttl=3600 * SEC))
    for m in first:
        how = {"leased": "keep", "dead": "dead", "delivered": "ack"}[m["want"]]
        if how != "keep":
            steps.append(dict(op="finish", id=m["id"], how=how, reason="max_retries"))
    steps += [dict(op="enqueue", id=m["id"], route=m["route"], target=m["target"], recv=m["recv"]) for m in second]
    steps.append(dict(op="cancel", ids=[m["id"] for m in pop if m["want"] == "canceled"]))
    reqs = []

    def freq(verb, fields, tag):
        refuse, crit = filter_facts(fields, verb, "http")
        h, reason, actor, reqid = audit_headers(rng, intent)
        reqs.append(dict(transport="http", kind="filter", verb=verb, method="POST", path="/messages/%s_by_filter" % verb, headers=h,
                         body=json.dumps(filter_wire(fields)), ep="(EpFilter %s)" % FKIND[verb], hbody="(BFilter (FBOk %s))" % coq_fbody(fields),
                         tag=tag, expect=None, spec=dict(crit=crit, fields=fields), hreq=(True, True, reason, actor, reqid)))

    freq("cancel", dict(route="/a", limit=5000, preview_only=True), "big-limit-over-preview")
    freq("requeue", dict(route="/a", limit=0, preview_only=True), "big-limit-0-preview")
    freq("cancel", dict(route="/a"), "big-limit-absent")                       # 100 of the dead become canceled
    freq("requeue", dict(route="/a", limit=1001), "big-limit-over")            # 1000 of the 1010 dead+canceled become queued
    g = dict(config=text, backend=backend, now=T0, setup=steps, intent=intent, pop=pop, requests=reqs)
    if backend == "sqlite":
        calls = []

        def mcall(verb, fields, tag):
            refuse, crit = filter_facts(fields, verb, "mcp")
            args = dict(reason="verif")
            args.update(filter_wire(fields))
            lterm, _ = mcp_limit_term(args)
            term = "(MtFilter %s (mkMF false true %s %s LBlank LBlank RBlank %s TAbsent %s %s))" % (
                FKIND[verb], coq_maudit(args), coq_rroute(fields.get("route", "")), coq_rstate(fields.get("state", "")), lterm,
                C.coq_bool(bool(fields.get("preview_only", False))))
            calls.append(dict(transport="mcp", kind="filter", verb=verb, tool="messages_%s_by_filter" % verb, args=args, term=term, tag=tag,
                              expect="refuse" if refuse else None, spec=dict(crit=crit, fields=fields)))

        mcall("cancel", dict(route="/a", limit=1000, preview_only=True), "big-limit-1000-preview")   # 1000 queued + leftovers
        mcall("cancel", dict(route="/a", limit=1001), "limit-out-of-range")
        mcall("cancel", dict(route="/a", state="queued"), "big-limit-absent")                       # 100 of the 1000 queued
        g["mcp_calls"] = calls
        g["mcp"] = dict(use_config=True, principal=PRINCIPAL, role="operate", mutations=True)
    return g


def make_groups(rng, tier):
    groups = [big_group(rng, "memory"), big_group(rng, "sqlite")]
    # quick: no managed routes (its MCP phase runs without --config); managed routes; token + require_actor;
    # actor allow-list that excludes the MCP principal + require_request_id.  thorough: all seven, four populations each.
    order = [0, 1, 2, 5] if tier == "quick" else list(range(len(CONFIGS))) * 4
    for gi, ci in enumerate(order):
        text, intent = make_config(CONFIGS[ci])
        for backend in ("memory", "sqlite"):
            pop, steps, recvs = make_population(rng, intent)
            g = dict(config=text, backend=backend, now=T0, setup=steps, intent=intent, pop=pop,
                     requests=http_requests(rng, intent, pop, recvs, tier))
            if backend == "sqlite":
                use_config = not (CONFIGS[ci].get("mcp_without_config") or (ci == 0 and tier == "quick") or (ci == 1 and gi >= len(CONFIGS)))
                g["mcp_calls"] = mcp_calls(rng, intent, pop, recvs, use_config, tier)
                g["mcp"] = dict(use_config=use_config, principal=PRINCIPAL, role="operate", mutations=True)
            groups.append(g)
    return groups


def audit_probe(ctx, info, rng):
    """C20's audit clause on the queue-mutation tools: every call of a mutating MCP tool - applied, preview, refused, matching nothing -
    appends exactly one audit record.  Runs the MCP half of a few generated groups (real MCP server, real SQLite database)."""
    groups = [g for g in make_groups(rng, "quick") if g.get("mcp")][:4]
    wire = []
    for g in groups:
        wire.append(dict(config=g["config"], backend=g["backend"], now=g["now"], setup=g["setup"], requests=[],
                         mcp=dict(g["mcp"], calls=[dict(tool=c["tool"], args=c["args"]) for c in g["mcp_calls"]])))
    rc, out, err = C.harness_run(info["hbin"], ["manageapi"], {"dir": os.path.join(ctx.scratch, "mgaudit"), "groups": wire, "par": 8}, timeout=900)
    if rc != 0:
        raise RuntimeError("manageapi harness failed (audit probe): " + err[-2000:])
    stats = dict(calls=0, applied_zero_match=0, applied=0, preview=0, refused=0, by_result={})
    for g, o in zip(groups, json.loads(out)):
        if o.get("err"):
            continue
        for c, r in zip(g["mcp_calls"], o.get("mcp_resps") or []):
            if not r.get("audit_captured"):
                continue
            stats["calls"] += 1
            ok = r["status"] == 200
            f = r.get("fields") or {}
            changed = sum(v for k, v in f.items() if k != "matched")
            if not ok:
                stats["refused"] += 1
            elif r.get("preview_only"):
                stats["preview"] += 1
            else:
                stats["applied"] += 1
                if changed == 0:
                    stats["applied_zero_match"] += 1
            for a in r.get("audit") or []:
                stats["by_result"][a] = stats["by_result"].get(a, 0) + 1
            if len(r.get("audit") or []) != 1:
                kind = "refused" if not ok else "preview" if r.get("preview_only") else "applied-nothing-matched" if changed == 0 else "applied"
                C.report(ctx, "mcp-mutation-audit:%s:%s" % (c["tool"], kind),
                         "the %s call of the mutating tool %s appended %d audit records (want exactly one): %s" % (kind, c["tool"], len(r.get("audit") or []), r.get("audit")),
                         {"kind": "request", "case": {"tool": c["tool"], "arguments": c["args"], "config": g["config"], "setup": g["setup"]},
                          "observed": {"status": r["status"], "fields": f, "audit_results": r.get("audit")}})
    return {"mcp_mutation_audit": stats}


def audit_probe_proxy(ctx, info, rng, start_only=False, handle=None):
    """C20's audit clause in Admin-proxy mode (queue backend memory: the tools call the Admin API over HTTP): every call of a mutating
    tool appends exactly one MCP audit record - also when the tool refused, the Admin API refused, the request failed at the transport
    level (refused, reset, answer lost or cut short, 5xx, timeout) - with result success exactly for a success result.  Keys
    mcp-mutation-audit:proxy:<tool>:<kind>.  start_only / handle: run the harness in the background and judge later."""
    from lib import c14proxy
    if handle is None:
        # a few groups are enough here: managed routes (refusals by tool and by Admin), token + require_actor, the token the Admin
        # server rejects, the allowlist miss and one slow call
        handle = c14proxy.start(ctx, info, seed_salt=20, tier="quick", model=False,
                                only=lambda g: g["name"] in ("managed", "token_require_actor", "token_skew", "allowlist_miss", "slow:delay_late"))
        if start_only:
            return handle
    return c14proxy.finish(handle, audit_only=True)


def run(ctx, info, rng, *_):
    t_start = _time.time()
    tier = ctx.tier
    groups = make_groups(rng, tier)
    wire = []
    for g in groups:
        w = dict(config=g["config"], backend=g["backend"], now=g["now"], setup=g["setup"],
                 requests=[dict(method=r["method"], path=r["path"], headers=r["headers"], body=r["body"]) for r in g["requests"]])
        if g.get("mcp"):
            w["mcp"] = dict(g["mcp"], calls=[dict(tool=c["tool"], args=c["args"]) for c in g["mcp_calls"]])
        wire.append(w)
    rc, out, err = C.harness_run(info["hbin"], ["manageapi"], {"dir": os.path.join(ctx.scratch, "mgdb"), "groups": wire, "par": 16}, timeout=3000)
    if rc != 0:
        raise RuntimeError("manageapi harness failed: " + err[-3000:])
    outs = json.loads(out)
    t_impl = _time.time()

    stats = dict(groups=len(groups), http_requests=0, mcp_calls=0, accepted=0, refused=0, state_changing=0, rows_changed=0,
                 preview_pairs=0, model_mismatches=0, property_failures=0, by_tag={}, by_status={}, by_code={}, populations=[],
                 states_in_populations={})
    samples = []
    nontrivial = set()
    bodies, todo = [], []
    for gi, (g, o) in enumerate(zip(groups, outs)):
        if o.get("err"):
            C.report(ctx, "C14admin:harness:%s" % g["backend"], "the admin server / store of a group could not be set up: " + o["err"],
                     {"kind": "request", "config": g["config"], "backend": g["backend"], "observed": o["err"], "no_failing_input_found": True})
            continue
        for k, v in (("admin_default_list_limit", 100), ("admin_max_list_limit", 1000), ("mcp_max_list_limit", 1000)):
            if o["consts"].get(k) != v:
                C.report(ctx, "C14admin:constant:%s" % k, "Go constant %s = %s, Model/ManageGlue.v says %d" % (k, o["consts"].get(k), v),
                         {"kind": "obligation", "constant": k, "observed": o["consts"].get(k), "expected": v, "no_failing_input_found": True})
        probs = check_compiled(g["intent"], o["compiled"])
        if probs:
            C.report(ctx, "C14admin:config-not-as-intended", "; ".join(probs), {"kind": "program", "config": g["config"], "problems": probs, "no_failing_input_found": True})
            continue
        want = {m["id"]: {"retried": "queued", "canceled_dead": "canceled"}.get(m["want"], m["want"]) for m in g["pop"]}
        got = {r["id"]: r["state"] for r in o["setup"]}
        if want != got:
            C.report(ctx, "C14admin:population", "the population built through the Store API is not the intended one",
                     {"kind": "history", "setup": g["setup"], "observed": got, "expected": want, "no_failing_input_found": True})
            continue
        hist = {}
        for r in o["setup"]:
            hist[r["state"]] = hist.get(r["state"], 0) + 1
            stats["states_in_populations"][r["state"]] = stats["states_in_populations"].get(r["state"], 0) + 1
        stats["populations"].append(dict(backend=g["backend"], config=g["intent"]["name"], messages=len(o["setup"]), states=hist,
                                         distinct_received_at=len(set(r["recv"] for r in o["setup"]))))
        mp = Maps(o["setup"])
        bodies.append(coq_group(g, o, mp))
        todo.append((gi, g, o, mp))
    results = C.coq_eval_shards(ctx, "c14admin", bodies) if bodies else []
    t_model = _time.time()

    for (gi, g, o, mp), (crc, txt) in zip(todo, results):
        model = parse_out(txt) if crc == 0 else None
        all_rq = list(g["requests"]) + list(g.get("mcp_calls") or [])
        all_rs = list(o["resps"]) + list(o.get("mcp_resps") or [])
        if model is None or len(model) != len(all_rq) + 1 or len(all_rs) != len(all_rq) or any(split_model_row(m) is None for m in model[:-1]):
            C.report(ctx, "C14admin:model-eval-failed", "Model/ManageGlue.v could not be evaluated on a group: %s" % txt[-600:],
                     {"kind": "obligation", "group": gi, "log": txt[-2000:], "no_failing_input_found": True})
            continue
        final_hash = model[-1][0] if model[-1] else None
        model = [split_model_row(m) for m in model[:-1]]
        before = o["setup"]
        diverged = False
        prev_preview = None
        for k, (rq, resp, mo) in enumerate(zip(all_rq, all_rs, model)):
            after = before if resp["same"] else resp["after"]
            http = rq["transport"] == "http"
            stats["http_requests" if http else "mcp_calls"] += 1
            stats["by_tag"][rq["tag"]] = stats["by_tag"].get(rq["tag"], 0) + 1
            sk = "%s:%s" % (rq["transport"], resp["status"])
            stats["by_status"][sk] = stats["by_status"].get(sk, 0) + 1
            if resp.get("code"):
                stats["by_code"][resp["code"]] = stats["by_code"].get(resp["code"], 0) + 1
            if resp.get("err"):
                C.report(ctx, "C14admin:transport:%s" % rq["transport"], "request failed at transport level: %s" % resp["err"],
                         {"kind": "request", "request": rq_public(rq), "observed": resp, "no_failing_input_found": True})
            ok = resp["status"] == 200
            stats["accepted" if ok else "refused"] += 1
            nch = len(changed_ids(before, after))
            if nch:
                stats["state_changing"] += 1
                stats["rows_changed"] += nch
            now = g["now"] + (k + 1) * 1000000 if http else None
            # (a) the property on the implementation
            pf = judge_property(rq, resp, before, after, now)
            if rq.get("pair_with_previous") and prev_preview is not None and ok and prev_preview[1]["status"] == 200:
                stats["preview_pairs"] += 1
                if prev_preview[1]["fields"].get("matched") != resp["fields"].get("matched"):
                    pf.append(("preview-differs-from-real", "preview matched %s, the real run on the same queue matched %s" % (
                        prev_preview[1]["fields"].get("matched"), resp["fields"].get("matched"))))
            prev_preview = (rq, resp) if rq["tag"] == "preview-then-real:preview" else None
            for cls, text in pf[:3]:
                stats["property_failures"] += 1
                key = "C14admin:%s:%s:%s:%s" % (rq["transport"], rq["kind"], rq["verb"], cls)
                C.report(ctx, key, "%s %s (%s): %s" % (rq["transport"], rq.get("path") or rq.get("tool"), rq["tag"], text),
                         replay_obj(g, o, rq, resp, before, after, mo, cls))
            # (b) the model
            if not diverged:
                obs = observed_obs(rq, resp)
                drows = summarise_rows(diff_rows(mp, before, after, http))
                if obs != mo[0] or drows != mo[1]:
                    stats["model_mismatches"] += 1
                    diverged = True
                    what = "response" if obs != mo[0] else "stored rows"
                    if not pf:
                        key = "C14admin-corr:%s:%s:%s:%s" % (rq["transport"], rq["kind"], rq["verb"], rq["tag"])
                        C.report(ctx, key, "Model/ManageGlue.v and the implementation disagree on the %s of %s %s (%s): observed %s, model %s; the property itself held on this request" % (
                            what, rq["transport"], rq.get("path") or rq.get("tool"), rq["tag"], obs, mo[0]),
                            dict(replay_obj(g, o, rq, resp, before, after, mo, "model"), no_failing_input_found=True,
                                 names="correspondence Model/ManageGlue.v <-> internal/admin/http.go, internal/mcp/server.go; theorems in Properties/C14admin.v rest on it"))
                elif not pf:
                    if nch or not ok:
                        nontrivial.add(C.sha({"g": gi, "k": k, "rq": rq_public(rq)}))
                    if len(samples) < 4 and nch:
                        samples.append(dict(rq_public(rq), status=resp["status"], fields=resp["fields"], rows_changed=nch, backend=g["backend"]))
            before = after
        if not diverged and final_hash != hash_rows(mp, before, with_next=False):
            stats["model_mismatches"] += 1
            C.report(ctx, "C14admin-corr:final-state:%s" % g["backend"], "after all requests of a group the checksum of the stored rows differs from the model's",
                     {"kind": "request", "config": g["config"], "backend": g["backend"], "setup": g["setup"], "no_failing_input_found": True})
        # the observation the property names: GET /messages agrees with the rows the HTTP phase left behind
        if o.get("api_status") == 200:
            http_last = o["setup"]
            for r in o["resps"]:
                if not r["same"]:
                    http_last = r["after"]
            want = sorted("%s|%s|%s|%s" % (r["id"], r["route"], r["target"], r["state"]) for r in http_last)
            if len(want) <= 1000 and sorted(o.get("api_listing") or []) != want:
                C.report(ctx, "C14admin:listing", "GET /messages after the requests differs from the stored rows",
                         {"kind": "request", "observed": sorted(o.get("api_listing") or [])[:20], "expected": want[:20], "config": g["config"]})
    cov = {
        "c14admin_evaluations": stats["http_requests"] + stats["mcp_calls"],
        "c14admin_distinct_nontrivial": len(nontrivial),
        "c14admin_rule": "a request (Admin API over loopback HTTP, or MCP tool call) on a generated population counts as distinct non-trivial when "
                         "it changed stored rows or was refused, the property predicate held on the implementation's before/after rows and the "
                         "model agreed on status, code, counts and the checksum of all stored rows",
        "c14admin": dict(stats, wall_s=dict(generate_and_run=round(t_impl - t_start, 2), coq=round(t_model - t_impl, 2), judge=round(_time.time() - t_model, 2))),
        "c14admin_samples": samples,
    }
    return cov


def rq_public(rq):
    if rq["transport"] == "http":
        return dict(transport="http", method=rq["method"], path=rq["path"], headers=rq["headers"], body=rq["body"][:400], tag=rq["tag"])
    return dict(transport="mcp", tool=rq["tool"], args=json.loads(json.dumps(rq["args"])[:4000]) if len(json.dumps(rq["args"])) < 4000 else "<long>", tag=rq["tag"])


def replay_obj(g, o, rq, resp, before, after, mo, cls):
    ch = sorted(changed_ids(before, after))
    bb, aa = by_id(before), by_id(after)
    return {"kind": "request", "backend": g["backend"], "config": g["config"], "setup": g["setup"], "request": rq_public(rq),
            "class": cls, "observed": {"status": resp["status"], "code": resp["code"], "fields": resp["fields"], "preview_only": resp["preview_only"],
                                       "body": resp["body"], "rows_changed": [{"before": bb.get(i), "after": aa.get(i)} for i in ch[:8]],
                                       "n_rows_changed": len(ch)},
            "expected": {"model_status_code_count_matched_changed_preview": mo[0], "model_rows_changed": mo[1][:8] if isinstance(mo[1], list) else mo[1],
                         "statement": "only the selected messages from allowed states change; refusals change nothing; counts = rows changed; preview = real"},
            "stored_before": before if len(before) <= 60 else before[:60],
            "how_to_replay": "./check C14 --replay <this file>  (re-runs the seeded request groups on the servers built from the current tree)"}
