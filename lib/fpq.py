"""Helpers shared by the C06 check and the C12 rate-limit module: binary64 <-> exact rationals,
Coq term printers for Q, evaluation of Z-valued model functions on case lists inside Coq."""
import re
import struct
from fractions import Fraction

from lib import common as C


def float_bits(x):
    return struct.unpack("<Q", struct.pack("<d", x))[0]


def bits_float(b):
    return struct.unpack("<d", struct.pack("<Q", b))[0]


def bits_fraction(b):
    """exact value of a finite binary64 given by its bit pattern"""
    s = b >> 63
    e = (b >> 52) & 0x7FF
    f = b & ((1 << 52) - 1)
    if e == 0x7FF:
        raise ValueError("not finite")
    if e == 0:
        v = Fraction(f, 1 << 1074)
    else:
        m = f | (1 << 52)
        ex = e - 1075
        v = Fraction(m * (1 << ex), 1) if ex >= 0 else Fraction(m, 1 << (-ex))
    return -v if s else v


def is_finite_bits(b):
    return ((b >> 52) & 0x7FF) != 0x7FF


def coq_Q(fr):
    fr = Fraction(fr)
    return "((%d) # %d)" % (fr.numerator, fr.denominator)


def coq_tuple(xs):
    return "(" + ", ".join("(%d)" % x if isinstance(x, int) else str(x) for x in xs) + ")"


def parse_nested(text):
    """parse '[[1; -2]; [3]]' / '[1; 2]' into nested python lists of ints"""
    toks = re.findall(r"\[|\]|-?\d+", text)
    pos = 0

    def rec():
        nonlocal pos
        out = []
        while pos < len(toks):
            t = toks[pos]
            pos += 1
            if t == "[":
                out.append(rec())
            elif t == "]":
                return out
            else:
                out.append(int(t))
        return out

    res = rec()
    return res[0] if len(res) == 1 and isinstance(res[0], list) else res


def coq_map_eval(ctx, name, requires, fn, case_terms, shard=None, open_scope="Z_scope", timeout=600, par=14):
    """Evaluate `map fn [cases]` inside Coq (vm_compute) in parallel shards.
    Returns (list_of_results | None, log).  Results are ints or nested int lists."""
    if not case_terms:
        return [], ""
    if shard is None:
        # elaborating big number literals dominates: spread the cases over the cores
        shard = max(40, -(-len(case_terms) // par))
    bodies = []
    for i in range(0, len(case_terms), shard):
        chunk = case_terms[i:i + shard]
        bodies.append("\n".join([
            "From Coq Require Import ZArith QArith List.",
            requires,
            "Import ListNotations.",
            "Open Scope %s." % open_scope,
            "Definition R := Eval vm_compute in (map (%s) [%s])." % (fn, ";\n ".join(chunk)),
            "Print R.", ""]))
    results = C.coq_eval_shards(ctx, name, bodies, timeout=timeout)
    out = []
    logs = []
    for (rc, txt), body in zip(results, bodies):
        if rc != 0:
            return None, txt[-3000:]
        flat = " ".join(txt.split())
        m = re.search(r"R\s*=\s*(\[.*\])\s*:\s*list", flat)
        if not m:
            return None, txt[-3000:]
        out.extend(parse_nested(m.group(1)))
        logs.append(txt[-200:])
    if len(out) != len(case_terms):
        return None, "result count %d != case count %d" % (len(out), len(case_terms))
    return out, "\n".join(logs)
