"""C12, publish side of the size limit: `POST {admin}/messages/publish` (and the endpoint-scoped form) through the real Admin API
wired by app.startServers, payloads of max_body-2 .. max_body+3 bytes in every spelling of base64 a client may send (standard /
URL-safe alphabet, with / without padding, with line breaks), alone and inside batches.

Judged by the property alone (no opinion on WHICH spellings the decoder accepts):
  * nothing stored on a route is larger than that route's max_body - whatever the answer was;
  * a request that is not answered 2xx leaves the queue listing exactly as it was;
  * a payload in canonical padded standard base64 (what every version accepts) that is larger than max_body is answered 413
    payload_too_large, one that fits is published.
"""
import base64
import json
import os

from lib import common as C

T0 = 1_800_000_000 * 10 ** 9

CONFIG = """ingress { listen "%INGRESS%" }
pull_api {
  listen "%PULL%"
  auth token "raw:verif-pull"
}
admin_api {
  listen "%ADMIN%"
  prefix "/adm"
}
defaults {
  max_body __DMB__
  egress {
    https_only off
    dns_rebind_protection off
  }
}
"/a" {
  max_body 4
  pull { path "/pull/a" }
}
"/b" {
  pull { path "/pull/b" }
}
"/e" {
  max_body 33
  deliver "http://127.0.0.1:9/e" { }
}
"/m" {
  application "app1"
  endpoint_name "ep1"
  max_body 20
  pull { path "/pull/m" }
}
"""


def spellings(raw):
    std = base64.b64encode(raw).decode()
    url = base64.urlsafe_b64encode(raw).decode()
    out = [("std", std), ("std-nopad", std.rstrip("=")), ("url", url), ("url-nopad", url.rstrip("="))]
    if len(std) > 4:
        out.append(("std-newline", std[:4] + "\n" + std[4:]))
        out.append(("std-nopad-crlf", std.rstrip("=")[:4] + "\r\n" + std.rstrip("=")[4:]))
    return out


def body_bytes(n, salt):
    # bytes whose base64 uses '+' and '/' (so that the URL-safe spelling really differs)
    pat = bytes([0xfb, 0xff, 0xbe, 0x3e, 0x3f, salt & 0xff, 0xfa, 0xef])
    return (pat * (n // len(pat) + 1))[:n]


def run(ctx, info, rng):
    frag = {"pub_size_requests": 0, "pub_size_refused": 0, "pub_size_stored": 0, "pub_size_spellings": {}, "pub_size_samples": []}
    groups = []
    plan = []
    for backend in ("memory", "sqlite"):
        for dmb in (64, 10):
            limits = {"/a": 4, "/b": dmb, "/e": 33, "/m": 20}
            reqs, meta = [], []
            seq = 0
            for route, mb in limits.items():
                for n in (mb - 2, mb - 1, mb, mb + 1, mb + 2, mb + 3):
                    for name, enc in spellings(body_bytes(n, seq)):
                        seq += 1
                        scoped = route == "/m"
                        item = {"id": "p%04d" % seq, "payload_b64": enc}
                        if not scoped:
                            item["route"] = route
                        items = [item]
                        if seq % 5 == 0:
                            # inside a batch: a fitting item before and after
                            ok = base64.b64encode(b"ok").decode()
                            pre = {"id": "p%04da" % seq, "payload_b64": ok}
                            post = {"id": "p%04dz" % seq, "payload_b64": ok}
                            if not scoped:
                                pre["route"] = post["route"] = route
                            items = [pre, item, post]
                        reqs.append({"scoped": scoped, "app": "app1" if scoped else "", "ep": "ep1" if scoped else "",
                                     "audit": {"X-Hookaido-Audit-Reason": "verif-c12"}, "body": json.dumps({"items": items})})
                        meta.append({"route": route, "max_body": mb, "n": n, "spelling": name, "ids": [i["id"] for i in items], "pos": len(items) // 2})
            groups.append({"config": CONFIG.replace("__DMB__", str(dmb)), "backend": backend, "nobatch": False, "now": T0, "setup": [],
                           "requests": reqs})
            plan.append((backend, limits, meta))
    payload = {"dir": os.path.join(ctx.scratch, "c12pub"), "par": 8, "groups": groups}
    rc, out, err = C.harness_run(info["hbin"], ["publish"], payload, timeout=1200)
    if rc != 0:
        raise RuntimeError("publish harness failed (C12 size cases): " + err[-2000:])
    outs = json.loads(out)
    for (backend, limits, meta), g, o in zip(plan, groups, outs):
        if o.get("err"):
            raise RuntimeError("C12 publish group: %s" % o["err"])
        before = {r["id"]: r for r in o["setup"] or []}
        for k, (m, rq) in enumerate(zip(meta, g["requests"])):
            resp = o["resps"][k]
            if resp.get("err"):
                raise RuntimeError("C12 publish request failed in harness: %s" % resp["err"])
            frag["pub_size_requests"] += 1
            sp = frag["pub_size_spellings"].setdefault(m["spelling"], {"2xx": 0, "413": 0, "other": 0})
            sp["2xx" if 200 <= resp["status"] < 300 else "413" if resp["status"] == 413 else "other"] += 1
            after = {r["id"]: r for r in resp["after"] or []}
            case = {"backend": backend, "route": m["route"], "max_body": m["max_body"], "decoded_size": m["n"], "spelling": m["spelling"],
                    "scoped": rq["scoped"], "body": rq["body"], "config": g["config"]}
            obs = {"status": resp["status"], "code": resp["code"], "published": resp["published"], "detail": resp["detail"][:200]}
            # (1) nothing stored above the limit
            for mid, r in after.items():
                if mid in before:
                    continue
                size = len(base64.b64decode(r["payload_b64"] or ""))
                if size > limits.get(r["route"], 1 << 60):
                    C.report(ctx, "publish-oversize-stored:%s" % m["spelling"],
                             "publish stored a payload of %d bytes on route %s whose max_body is %d (payload_b64 spelling: %s, answer %s)" % (
                                 size, r["route"], limits[r["route"]], m["spelling"], resp["status"]),
                             {"kind": "request", "case": case, "observed": obs, "stored": {"id": mid, "size": size},
                              "expected": "413 payload_too_large and nothing stored", "how_to_replay": "./check C12 --replay <this file>"})
            # (2) a refusal leaves the queue as it was
            if not (200 <= resp["status"] < 300):
                frag["pub_size_refused"] += 1
                if set(after) != set(before) or any(after[i] != before[i] for i in before):
                    C.report(ctx, "publish-refusal-changed-queue:%s" % m["spelling"],
                             "publish was refused (%s %s) yet the queue changed: new ids %s" % (resp["status"], resp["code"], sorted(set(after) - set(before))[:5]),
                             {"kind": "request", "case": case, "observed": obs, "how_to_replay": "./check C12 --replay <this file>"})
            else:
                frag["pub_size_stored"] += len(set(after) - set(before))
            # (3) canonical spelling: 413 exactly above the limit
            if m["spelling"] == "std":
                want = 413 if m["n"] > m["max_body"] else 200
                if resp["status"] != want or (want == 413 and resp["code"] != "payload_too_large"):
                    C.report(ctx, "publish-size-verdict:%s" % ("over" if want == 413 else "fits"),
                             "publish of a %d-byte payload on route %s (max_body %d) answered %s %s, expected %s" % (
                                 m["n"], m["route"], m["max_body"], resp["status"], resp["code"], want),
                             {"kind": "request", "case": case, "observed": obs, "expected": want, "how_to_replay": "./check C12 --replay <this file>"})
            if len(frag["pub_size_samples"]) < 4 and m["n"] == m["max_body"] + 1 and m["spelling"] in ("std", "std-nopad", "url-nopad", "std-newline"):
                frag["pub_size_samples"].append({"case": {k2: case[k2] for k2 in ("backend", "route", "max_body", "decoded_size", "spelling")}, "observed": obs})
            before = after
    return frag
