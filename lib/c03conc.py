"""C03, concurrent part: real goroutine interleavings judged by the overlap monitor.

`run(ctx, info, rng)` generates stress configurations from the seed, lets the Go harness
(`verifharness conc`) run them - phases of 8-16 goroutines issuing random calls against ONE store
(memory / SQLite) through direct Store calls, the real pullapi HTTP handler, the real workerapi
service and a real PushDispatcher with a scripted Deliverer; clock moved only between phases - and
evaluates `Model/Overlap.overlap_violation` (Coq, vm_compute) on every recorded history.  The
monitor is proved never to fire on a linearizable history (Properties/C03conc.v), so every witness
is a real violation of lease exclusivity (or of linearizability of the store) and is reported with
the minimal sub-history as replay."""
import collections
import json
import math
import os
import re
import subprocess
import time

from lib import common as C

STEP = 10_000_000_000          # one phase = 10 s of injected time
KINDS = {"deq": "HDeq", "ack": "HAck", "nack": "HNack", "dead": "HDead", "extend": "HExtend", "batch": "HBatch",
         "cancel": "HCancel", "cancelf": "HCancelF", "requeue": "HRequeue", "enqueue": "HEnqueue", "other": "HOther"}
HEADER = ("From Coq Require Import List ZArith NArith Bool.\nFrom HK Require Import Model.Overlap.\n"
          "Import ListNotations.\nOpen Scope Z_scope.\n")


def gen_configs(rng, n_runs, phases, tier):
    runs = []
    for i in range(n_runs):
        backend = "memory" if i % 2 == 0 else "sqlite"
        g = rng.choice([8, 10, 12, 12, 14, 16])
        push = rng.choice([0, 2, 2, 3, 4])
        timeout_ph = rng.choice([1, 2])
        runs.append({
            "backend": backend, "seed": rng.randrange(1, 2 ** 40), "phases": phases, "goroutines": g,
            "ops_per_g": rng.choice([3, 4, 4, 5]),
            "pull_msgs": rng.choice([6, 12, 20, 30]), "push_msgs": 0 if push == 0 else rng.choice([6, 10, 16]),
            "step_ns": STEP, "ttl_phases": rng.choice([[1, 2, 3], [1, 1, 2], [1, 2], [2, 3]]),
            "entry": rng.choice([[2, 1, 1], [1, 1, 1], [1, 2, 2], [3, 1, 1]]),
            "push_conc": push, "push_timeout_ns": timeout_ph * STEP,
            "push_slack_ns": rng.choice([STEP // 10, STEP // 2, 3 * STEP]),
            "slow_pct": rng.choice([20, 35, 50]), "fail_pct": rng.choice([15, 25, 40]), "dead_pct": 5,
            "hold_pct": rng.choice([25, 35, 50]), "hot_pct": rng.choice([0, 15, 30, 30]), "deliv_age": rng.choice([0, 0, 100 * STEP]),
        })
    return runs


def run_harness(ctx, hbin, runs, par):
    """memory and SQLite runs go to separate harness processes: a store that crashes the Go runtime
    (e.g. `concurrent map writes`) then costs only its own process."""
    groups = collections.OrderedDict()
    for i, r in enumerate(runs):
        groups.setdefault((r["backend"], 0), []).append(i)
    procs = []
    for (backend, _), idxs in groups.items():
        d = os.path.join(ctx.scratch, "conc-" + backend)
        os.makedirs(d, exist_ok=True)
        inp = json.dumps({"dir": d, "runs": [runs[i] for i in idxs], "par": par})
        p = subprocess.Popen([hbin, "conc"], stdin=subprocess.PIPE, stdout=subprocess.PIPE, stderr=subprocess.PIPE, text=True)
        procs.append((backend, idxs, p, inp))
    # feed and collect (communicate sequentially is fine: the processes run concurrently once started)
    import threading
    results = {}

    def feed(backend, idxs, p, inp):
        try:
            out, err = p.communicate(inp, timeout=600)
        except subprocess.TimeoutExpired:
            p.kill()
            out, err = "", "timeout"
        results[backend] = (idxs, p.returncode, out, err)

    ths = [threading.Thread(target=feed, args=a) for a in procs]
    for t in ths:
        t.start()
    for t in ths:
        t.join()
    outs = [None] * len(runs)
    crashes = []
    for backend, (idxs, rc, out, err) in results.items():
        if rc != 0:
            crashes.append((backend, rc, err[:6000]))
            continue
        try:
            o = json.loads(out)
        except ValueError:
            crashes.append((backend, rc, "undecodable output: " + out[:300]))
            continue
        for i, ro in zip(idxs, o["runs"]):
            outs[i] = ro
    return outs, crashes


class Names:
    def __init__(self, calls):
        ids, leases = set(), set()
        for c in calls:
            for i in c.get("ids") or []:
                ids.add(i.strip())
            for l in c.get("leases") or []:
                leases.add(l)
            for it in c.get("items") or []:
                ids.add(it["id"])
                leases.add(it["lease"])
        self.ids = {s: n + 1 for n, s in enumerate(sorted(ids))}
        self.leases = {s: n + 1 for n, s in enumerate(sorted(leases))}
        self.rid = {v: k for k, v in self.ids.items()}
        self.rlease = {v: k for k, v in self.leases.items()}
        # times are rebased and divided by their common unit: the monitor only compares and adds them, and big
        # numerals are what makes Coq slow at reading a history
        self.t0 = min([c["now"] for c in calls] or [0])
        g = 0
        for c in calls:
            g = math.gcd(g, c["now"] - self.t0)
            if c["k"] == "extend":
                g = math.gcd(g, abs(c.get("by", 0)))
            for it in c.get("items") or []:
                g = math.gcd(g, abs(it["until"] - self.t0))
        self.unit = g or 1

    def scaled(self, c):
        c = dict(c)
        c["now"] = (c["now"] - self.t0) // self.unit
        if c["k"] == "extend":
            c["by"] = c.get("by", 0) // self.unit
        c["items"] = [dict(it, until=(it["until"] - self.t0) // self.unit) for it in (c.get("items") or [])]
        return c


def coq_call(nm, c):
    kind = KINDS.get(c["k"], "HOther")
    c = nm.scaled(c)
    leases = "[" + "; ".join("%d%%N" % nm.leases[l] for l in (c.get("leases") or [])) + "]"
    ids = "[" + "; ".join("%d%%N" % nm.ids[i.strip()] for i in (c.get("ids") or []) if i.strip()) + "]"
    items = "[" + "; ".join("(%d%%N, %d%%N, %d, %d)" % (nm.ids[it["id"]], nm.leases[it["lease"]], it["attempt"], it["until"])
                            for it in (c.get("items") or [])) + "]"
    by = c.get("by", 0) if c["k"] == "extend" else 0
    return "(mkCall %d %d %d %s %s %d %s %s %s)" % (c["c"], c["r"], c["now"], kind, leases, by, ids, C.coq_bool(bool(c.get("ok"))), items)


def coq_bodies(calls, shard_size):
    """one or more scratch files for one history: each examines a slice of the candidate dequeues
    against the whole history (overlap_check h cands); the first also prints the pair statistics"""
    nm = Names(calls)
    hist = "Definition h : history :=\n [" + ";\n  ".join(coq_call(nm, c) for c in calls) + "].\n"
    bodies = []
    n = len(calls)
    k = 0
    for lo in range(0, max(n, 1), shard_size):
        b = HEADER + hist
        b += "Definition r0 := Eval vm_compute in witness_code (overlap_check h (firstn %d (skipn %d h))).\nPrint r0.\n" % (shard_size, lo)
        if k == 0:
            b += "Definition r1 := Eval vm_compute in (let p := pair_stats h in [fst p; snd p]).\nPrint r1.\n"
        bodies.append(b)
        k += 1
    return nm, bodies


def parse_list(txt, name):
    flat = " ".join(txt.split())
    m = re.search(re.escape(name) + r" = \[(.*?)\]", flat)
    if not m:
        return None
    return [int(x) for x in re.findall(r"-?\d+", m.group(1))]


def on_message(calls, mid):
    """the calls that concern message `mid`: dequeues that returned it, lease operations on its leases,
    operator calls and enqueues naming it"""
    leases = set()
    for c in calls:
        for it in c.get("items") or []:
            if it["id"] == mid:
                leases.add(it["lease"])
    out = []
    for c in calls:
        if any(it["id"] == mid for it in c.get("items") or []) or any(l in leases for l in c.get("leases") or []) \
                or any(i.strip() == mid for i in c.get("ids") or []):
            out.append(c)
    return sorted(out, key=lambda c: c["c"])


def describe(code, nm, calls):
    by_call = {c["c"]: c for c in calls}
    tag = code[0]
    if tag == 1:
        a, b = by_call.get(code[1]), by_call.get(code[2])
        mid, lease = nm.rid.get(code[3]), nm.rlease.get(code[4])
        srcs = "+".join(sorted({a["src"], b["src"]})) if a and b else "?"
        what = ("dequeue (%s, stamps %d..%d, phase time %d) returned message %s although the lease %s handed out by an earlier dequeue "
                "(%s, stamps %d..%d) was unexpired at that phase time and no call able to end it (ack/nack/dead of the lease, cancel of the message, "
                "or a dequeue / lease operation at or after the lease end) was issued before the second dequeue returned"
                % (b["src"], b["c"], b["r"], b["now"], mid, lease, a["src"], a["c"], a["r"]))
        return "overlap:" + srcs, what, mid, [a, b]
    if tag == 2:
        lease = nm.rlease.get(code[1])
        ds = [c for c in calls if any(it["lease"] == lease for it in c.get("items") or [])]
        srcs = "+".join(sorted({c["src"] for c in ds}))
        return "overlap-dup-lease:" + srcs, "lease id %s was handed out twice" % lease, None, ds
    if tag == 3:
        a = by_call.get(code[1])
        return "overlap-dup-message:" + a["src"], "one dequeue answer contains a message twice", None, [a]
    if tag == 4:
        a = by_call.get(code[1])
        return "overlap-lease-until:" + a["src"], "a dequeue returned a lease_until that is not after its phase time", nm.rid.get(code[2]), [a]
    if tag == 5:
        a, b = by_call.get(code[1]), by_call.get(code[2])
        mid = nm.rid.get(code[3])
        srcs = "+".join(sorted({a["src"], b["src"]})) if a and b else "?"
        return ("overlap-attempt:" + srcs, "consecutive dequeues of message %s returned attempt %d and then %d (no other dequeue of it and no "
                "enqueue naming it can lie between them)" % (mid, code[4], code[5]), mid, [a, b])
    return "overlap:unknown-witness", "monitor returned %r" % (code,), None, []


def push_checks(run_out):
    """dispatcher: (1) two Deliver invocations for one message, made under two different leases, overlapping in
    stamps - unless an operator cancel that named the message ended the earlier lease before the later one was handed
    out (the dispatcher then goes on delivering a message it no longer holds; expiry is no excuse: the route lease TTL
    is meant to cover a micro-batch of deliveries each bounded by the target timeout, and the stub honours that bound
    in injected time); (2) a Deliver invocation that returned when its lease had already expired"""
    probs = []
    calls = run_out["calls"]
    cancels = [c for c in calls if c["k"] == "cancel" and c.get("ok")]
    issued = {}                         # lease -> (call stamp, return stamp) of the dispatcher dequeue that handed it out
    for c in calls:
        if c["k"] == "deq" and c["src"] == "push":
            for it in c.get("items") or []:
                issued.setdefault(it["lease"], (c["c"], c["r"]))
    by_id = collections.defaultdict(list)
    for d in run_out.get("delivers") or []:
        if d.get("lease") in issued:
            by_id[d["id"]].append(d)
    for mid, ds in by_id.items():
        ds.sort(key=lambda d: issued[d["lease"]][0])
        for i, d1 in enumerate(ds):
            for d2 in ds[i + 1:]:
                if d1["lease"] == d2["lease"] or not (d1["c"] < d2["r"] and d2["c"] < d1["r"]):
                    continue
                a, b = issued[d1["lease"]], issued[d2["lease"]]
                # which of the two leases came first is not decided by the call stamps when the two dispatcher dequeues overlapped (a call that
                # started earlier may have been served later): a cancel excuses the pair when it fits between the two hand-outs in either order
                if any(mid in [x.strip() for x in c.get("ids") or []] and ((c["r"] > a[0] and c["c"] < b[1]) or (c["r"] > b[0] and c["c"] < a[1])) for c in cancels):
                    continue
                probs.append(("push:concurrent-delivery", "message %s was being delivered by two dispatcher workers at once "
                              "(Deliver stamps %d..%d under lease %s and %d..%d under lease %s) and no operator cancel ended the first lease"
                              % (mid, d1["c"], d1["r"], d1["lease"], d2["c"], d2["r"], d2["lease"]), mid, [d1, d2]))
    for d in run_out.get("delivers") or []:
        if d.get("until") and d["now_r"] >= d["until"] and d["lease"]:
            probs.append(("push:delivery-outlived-lease", "a delivery bounded by the target timeout (injected clock) returned at %d, "
                          "at or after the end %d of the lease it was made under: the route lease TTL does not cover the micro-batch"
                          % (d["now_r"], d["until"]), d["id"], [d]))
    return probs


def measure(run_out, acc):
    calls = run_out["calls"]
    acc["calls"] += len(calls)
    acc["max_concurrency"] = max(acc["max_concurrency"], run_out.get("max_conc", 0))
    acc["deliver_invocations"] += len(run_out.get("delivers") or [])
    deqs = [c for c in calls if c["k"] == "deq"]
    acc["dequeues"] += len(deqs)
    acc["dequeues_nonempty"] += sum(1 for c in deqs if c.get("items"))
    ret = collections.defaultdict(list)
    for c in deqs:
        for it in c.get("items") or []:
            ret[it["id"]].append((c, it))
    acc["messages_returned"] += len(ret)
    acc["messages_returned_more_than_once"] += sum(1 for v in ret.values() if len(v) > 1)
    for c in calls:
        acc["by_kind"][c["k"]] += 1
        acc["by_entry"][c["src"]] += 1
        if c.get("err") == "expired" or "expired" in (c.get("err") or ""):
            acc["lease_ops_answered_expired"] += 1
        if c["k"] == "extend" and c.get("ok"):
            acc["successful_extends"] += 1
    # lease-end crossings: a later dequeue of the message at a phase time at or after the earlier lease_until
    for mid, v in ret.items():
        v.sort(key=lambda p: p[0]["c"])
        for (a, ita), (b, itb) in zip(v, v[1:]):
            acc["redelivery_pairs_by_entry"]["%s->%s" % (a["src"], b["src"])] += 1
            if b["now"] >= ita["until"]:
                acc["lease_end_crossings"] += 1
    # overlapping calls (true concurrency in the record): pairs of calls with intersecting stamp intervals, sampled cheaply
    ev = sorted(calls, key=lambda c: c["c"])
    active = []
    for c in ev:
        active = [r for r in active if r > c["c"]]
        if active:
            acc["calls_issued_while_another_was_in_flight"] += 1
        active.append(c["r"])


def run(ctx, info, rng, *_unused):
    """coverage fragment of the concurrent stress; in replay mode of one of its own keys up to three rounds are run"""
    rk = ctx.replay_key or ""
    rounds = 3 if rk.startswith(("overlap", "push:")) else 1
    cov = {}
    for k in range(rounds):
        cov = run_round(ctx, info, rng)
        if rounds > 1 and any(v["key"] == rk for v in ctx.violations):
            break
    return cov


def run_round(ctx, info, rng):
    quick = ctx.tier == "quick"
    # 16 histories = one round of 16 parallel coqc evaluations on the 16 cores
    n_runs = 16 if quick else 128
    phases = 32 if quick else 40
    runs = gen_configs(rng, n_runs, phases, ctx.tier)
    t_start = time.time()
    outs, crashes = run_harness(ctx, info["hbin"], runs, par=4)
    t_stress = time.time() - t_start
    acc = collections.defaultdict(int)
    acc["by_kind"] = collections.Counter()
    acc["by_entry"] = collections.Counter()
    acc["redelivery_pairs_by_entry"] = collections.Counter()
    for backend, rc, err in crashes:
        head = re.search(r"^(fatal error:.*|panic:.*)$", err, flags=re.M)
        if not (head and ("concurrent map" in head.group(1) or "hookaido/internal/" in err)):
            raise RuntimeError("conc harness failed (exit %s): %s" % (rc, err[-1500:]))
        # a Go runtime fatal error in the store under concurrent use (e.g. concurrent map writes) is a failure of
        # the atomicity the property rests on; anything else the caller sees as a machinery failure below
        C.report(ctx, "overlap:store-crashed:%s" % backend,
                 "the %s store crashed the process under concurrent calls (exit %s): %s" % (backend, rc, head.group(1)),
                 {"kind": "schedule", "backend": backend, "configs": [r for r in runs if r["backend"] == backend], "stderr": err,
                  "how_to_replay": "./check C03 --replay <this file> (re-runs the same configurations; thread schedules are chosen by the Go runtime)"})
    bodies, owners = [], []
    histories = {}
    wall_ms = 0
    for i, (cfg, ro) in enumerate(zip(runs, outs)):
        if ro is None:
            continue
        wall_ms += ro.get("wall_ms", 0)
        if ro.get("fatal"):
            C.report(ctx, "overlap:harness-fatal:%s" % cfg["backend"], "stress run failed: " + ro["fatal"],
                     {"kind": "schedule", "backend": cfg["backend"], "config": cfg, "observed": ro["fatal"]})
            continue
        calls = sorted(ro["calls"], key=lambda c: c["c"])
        ro["calls"] = calls
        # side conditions of the soundness theorem that are facts about the recording: stamps come from one counter
        stamps = [c["c"] for c in calls] + [c["r"] for c in calls]
        if len(set(stamps)) != len(stamps) or any(c["c"] >= c["r"] for c in calls):
            raise RuntimeError("conc harness recorded inconsistent stamps")
        measure(ro, acc)
        acc["unquiet"] += ro.get("unquiet", 0)
        # transport-level sanity outside the monitor: dequeue errors, lease_until = phase time + requested ttl
        for c in calls:
            if c.get("sub") == "deq-error":
                C.report(ctx, "overlap:dequeue-error:%s" % c["src"], "a dequeue failed under concurrency: %s" % c.get("err"),
                         {"kind": "schedule", "backend": cfg["backend"], "config": cfg, "call": c})
            if c["k"] == "deq" and c.get("ttl", 0) > 0:
                for it in c.get("items") or []:
                    if it["until"] != c["now"] + c["ttl"] or (it.get("next") and it["next"] != it["until"]):
                        C.report(ctx, "overlap:lease-until-arith:%s" % c["src"],
                                 "lease_until / next_run_at of a returned item is not phase time + ttl",
                                 {"kind": "schedule", "backend": cfg["backend"], "config": cfg, "call": c})
        for key, what, mid, ds in ([] if ro.get("unquiet") else push_checks(ro)):
            C.report(ctx, key, what, {"kind": "schedule", "backend": cfg["backend"], "config": cfg, "message": mid, "deliveries": ds,
                                      "calls_on_message": on_message(calls, mid)})
        acc["histories"] += 1
        # reading the history dominates the cost (the evaluation itself takes ~0.1 s), so only very long histories are sharded
        shard = 2500 if len(calls) > 5000 else max(len(calls), 1)
        nm, bs = coq_bodies(calls, shard)
        histories[i] = (cfg, ro, nm)
        for b in bs:
            bodies.append(b)
            owners.append(i)
    t1 = time.time()
    results = C.coq_eval_shards(ctx, "conc", bodies) if bodies else []
    t_coq = time.time() - t1
    flagged = {}
    pairs_total = pairs_live = 0
    for (rc, txt), i in zip(results, owners):
        cfg, ro, nm = histories[i]
        code = parse_list(txt, "r0")
        st = parse_list(txt, "r1")
        if st:
            pairs_total += st[0]
            pairs_live += st[1]
        if rc != 0 or code is None:
            C.report(ctx, "overlap:monitor-eval-failed", "the overlap monitor could not be evaluated on a history: " + txt[-600:],
                     {"kind": "schedule", "no_failing_input_found": True, "backend": cfg["backend"], "config": cfg})
            continue
        acc["monitor_evaluations"] += 1
        if code and i not in flagged:
            flagged[i] = code
    for i, code in flagged.items():
        cfg, ro, nm = histories[i]
        key, what, mid, pair = describe(code, nm, ro["calls"])
        sub = on_message(ro["calls"], mid) if mid else pair
        acc["histories_flagged"] += 1
        C.report(ctx, key, what + " [%s store]" % cfg["backend"],
                 {"kind": "schedule", "backend": cfg["backend"], "config": cfg, "witness": code, "message": mid,
                  "the_two_dequeues": pair, "sub_history_all_calls_on_the_message": sub,
                  "expected": "Model/Overlap.overlap_violation = None (proved for every linearizable history: Properties/C03conc.v)",
                  "how_to_replay": "./check C03 --replay <this file>: re-runs the stress with the same seed, up to three rounds (the Go scheduler "
                                   "picks the interleaving, so a race may not show in every round); the sub-history above, fed to "
                                   "Model/Overlap.overlap_violation, is the failing input of the monitor"})
    cov = {
        "concurrent_stress": {
            "runs": len(runs), "histories_judged": acc["histories"], "monitor_evaluations_coq": acc["monitor_evaluations"],
            "histories_flagged": acc["histories_flagged"], "store_crashes": len(crashes),
            "calls": acc["calls"], "dequeues": acc["dequeues"], "dequeues_returning_items": acc["dequeues_nonempty"],
            "messages_returned": acc["messages_returned"], "messages_returned_more_than_once": acc["messages_returned_more_than_once"],
            "lease_end_crossings": acc["lease_end_crossings"], "lease_ops_answered_expired": acc["lease_ops_answered_expired"],
            "successful_extends": acc["successful_extends"],
            "same_message_dequeue_pairs_in_real_time_order": pairs_total,
            "of_those_with_first_lease_still_live_at_second_dequeue(monitor had to find a release)": pairs_live,
            "max_concurrency_observed(calls in flight at once)": acc["max_concurrency"],
            "calls_issued_while_another_was_in_flight": acc["calls_issued_while_another_was_in_flight"],
            "deliver_invocations": acc["deliver_invocations"],
            "phase_ends_at_which_the_dispatcher_was_not_at_rest(push checks skipped for such a run)": acc["unquiet"],
            "calls_by_kind": dict(acc["by_kind"]), "calls_by_entry_point": dict(acc["by_entry"]),
            "redelivery_pairs_by_entry_points": dict(acc["redelivery_pairs_by_entry"]),
            "stress_wall_ms_sum": wall_ms, "stress_wall_s": round(t_stress, 2), "coq_monitor_wall_s": round(t_coq, 2),
            "phases_per_run": phases, "goroutines_per_phase": sorted({r["goroutines"] for r in runs}),
            "sample_config": runs[0] if runs else {},
            "rule": "every call of every run is stamped (call, return) from one atomic counter; the clock moves only between phases under a "
                    "write lock no call can be inside of; each history is judged whole by Model/Overlap.overlap_violation in Coq",
        }
    }
    ctx.notes.append("concurrent stress: %d calls in %d histories, max %d calls in flight, %d same-message dequeue pairs with a live first lease"
                     % (acc["calls"], acc["histories"], acc["max_concurrency"], pairs_live))
    return cov
