"""C13pg - the static tie of the Postgres store (internal/queue/postgres.go) to the SQLite store.

The Postgres store cannot be executed here.  translate/pgtie.go regenerates coq/Gen/PgTie.v (statement and
control skeletons of both files) on every run; the theorems of coq/Properties/C13pg.v say that the two
skeletons of every tied function are equal after the normaliser of Model/SqlNorm.v and the listed differences of
Model/PgAllowedDiffs.v.  This module is the `extra` of props/c13.py: it evaluates the same comparison in Coq
function by function, so that a broken obligation is reported with the name of the theorem and a readable
token-level diff (a Postgres difference cannot be replayed: `no-failing-input-found`)."""
import difflib
import os
import re
import subprocess
import sys

if __name__ == "__main__":
    sys.path.insert(0, os.path.dirname(os.path.dirname(os.path.abspath(__file__))))

from lib import common as C  # noqa: E402

PRELUDE = r"""From Coq Require Import String List Bool.
From HK Require Import Gen.PgTie Model.SqlNorm Model.PgAllowedDiffs.
Import ListNotations.
Open Scope string_scope.
Set Printing Width 200.
Set Printing Depth 1000000.
Definition look (tbl : list (string * list string)) (k : string) : list string :=
  match assoc k tbl with Some v => v | None => ["#missing-function"] end.
Definition sq_before (a : string) : list string :=
  "#start" :: inline 3 sqlite_inlined (sk_table sqlite_calls Sqlite sqlite_inlined sqlite_skeletons) (norm_sqlite (look sqlite_skeletons a)).
Fixpoint lleqb (a b : list (list string)) : bool :=
  match a, b with [], [] => true | x :: a', y :: b' => list_eqb x y && lleqb a' b' | _, _ => false end.
"""

# fast path: one boolean per tie and per inventory theorem, statement counts; no big terms are printed
FAST = PRELUDE + r"""
Definition count_in (a b : list (list string)) : nat := length (filter (fun s => existsb (list_eqb s) b) a).
Definition tie_row (t : string * string * string) :=
  match t with (n, a, b) =>
    let before := sq_before a in
    let pgs := pg_side (look pg_skeletons b) in
    let r := apply_diffs allowed_diffs n before in
    let ssa := stmts_of before in
    let ssb := stmts_of pgs in
    (n, [a; b], [list_eqb (fst r) pgs && match snd r with [] => true | _ => false end; list_eqb before pgs],
     [length ssa; count_in ssa ssb; length ssb; count_in ssb ssa])
  end.
Definition rows := map tie_row tied.
Definition inv := [("sqlite_all", map fst sqlite_skeletons); ("pg_all", map fst pg_skeletons);
   ("sqlite_methods", sqlite_methods); ("pg_methods", pg_methods); ("sqlite_funcs", sqlite_funcs); ("pg_funcs", pg_funcs);
   ("sqlite_errors", sqlite_errors_used); ("pg_errors", pg_errors_used); ("sqlite_columns", sqlite_columns);
   ("pg_columns", pg_columns); ("sqlite_only", map fst sqlite_only); ("pg_only", map fst pg_only);
   ("tied_sqlite", map (fun t => snd (fst t)) tied); ("tied_pg", map snd tied); ("sqlite_inlined", sqlite_inlined);
   ("pg_consts", pg_consts); ("diff_ids", map d_id allowed_diffs);
   ("divergent_ids", map d_id (filter (fun d => match d_kind d with Divergent => true | _ => false end) allowed_diffs))].
Definition why := map (fun d => (d_id d, [d_why d])) allowed_diffs.
Definition stm := [map (fun p => (fst p, length (stmts_of (snd p)))) sqlite_skeletons;
                   map (fun p => (fst p, length (stmts_of (snd p)))) pg_skeletons].
Definition covered (names only tiednames : list string) : bool := forallb (fun f => mem f tiednames || mem f only) names.
Definition checks : list (string * bool) :=
  [("C13pg_sqlite_functions_covered", covered (map fst sqlite_skeletons) (map fst sqlite_only) (map (fun t => snd (fst t)) tied));
   ("C13pg_pg_functions_covered", covered (map fst pg_skeletons) (map fst pg_only) (map snd tied));
   ("C13pg_tied_functions_exist", forallb (fun t => match t with (_, a, b) =>
       match assoc a sqlite_skeletons, assoc b pg_skeletons with Some _, Some _ => true | _, _ => false end end) tied);
   ("C13pg_untied_functions_exist",
      forallb (fun p => match assoc (fst p) sqlite_skeletons with Some _ => true | None => false end) sqlite_only
      && forallb (fun p => match assoc (fst p) pg_skeletons with Some _ => true | None => false end) pg_only);
   ("C13pg_methods_same", list_eqb pg_methods (filter (fun m => negb (m =? "EnqueueBatch")) sqlite_methods));
   ("C13pg_errors_same", list_eqb pg_errors_used sqlite_errors_used);
   ("C13pg_schema_columns", list_eqb pg_columns (filter (fun c => negb (String.prefix "queue_counters." c)) sqlite_columns));
   ("C13pg_limits", list_eqb pg_consts ["postgresBacklogMaxLimit=20000"; "postgresMaxDequeueBatch=100"; "postgresMaxListLimit=1000"]);
   ("C13pg_sqlite_tx_helpers_pinned",
      lleqb (stmts_of (look sqlite_skeletons "beginImmediateWithRetry")) [["BEGIN"; "IMMEDIATE"; ";"]]
      && lleqb (stmts_of (look sqlite_skeletons "commitTx")) [["COMMIT"; ";"]]
      && lleqb (stmts_of (look sqlite_skeletons "rollbackTx")) [["ROLLBACK"; ";"]]);
   ("C13pg_pg_wrappers_pinned", list_eqb (look pg_skeletons "runStoreOperation") ["#callparam:fn"]
      && list_eqb (look pg_skeletons "runPostgresStoreOperationResult") ["#callparam:fn"])].
Eval vm_compute in rows.
Eval vm_compute in inv.
Eval vm_compute in why.
Eval vm_compute in stm.
Eval vm_compute in checks.
"""

# detail path: the token lists of the ties named in NAMES (only run when something differs, or by the viewer)
DETAIL = PRELUDE + r"""
Definition names : list string := NAMES.
Definition rep := map (fun t => match t with (n, a, b) =>
   let before := sq_before a in
   (n, (a, b), apply_diffs allowed_diffs n before, pg_side (look pg_skeletons b), before) end)
   (filter (fun t => mem (fst (fst t)) names) tied).
Definition frag := map (fun d => (d_id d, (d_in d, d_sqlite d, d_pg d)))
   (filter (fun d => existsb (fun n => mem n names) (d_in d)) allowed_diffs).
Eval vm_compute in rep.
Eval vm_compute in frag.
"""


# ---------------------------------------------------------------------------
# parsing what coqc prints

def _tokens(s):
    i, n = 0, len(s)
    while i < n:
        c = s[i]
        if c.isspace():
            i += 1
        elif c == '"':
            j = i + 1
            buf = []
            while j < n:
                if s[j] == '"':
                    if j + 1 < n and s[j + 1] == '"':
                        buf.append('"')
                        j += 2
                        continue
                    break
                buf.append(s[j])
                j += 1
            yield ("s", "".join(buf))
            i = j + 1
        elif c in "[]();,":
            yield (c, c)
            i += 1
        else:
            j = i
            while j < n and not s[j].isspace() and s[j] not in '[]();,"':
                j += 1
            yield ("w", s[i:j])
            i = j


def parse_term(text):
    toks = list(_tokens(text))
    pos = [0]

    def term():
        k, v = toks[pos[0]]
        if k == "s":
            pos[0] += 1
            return v
        if k == "[":
            pos[0] += 1
            out = []
            while toks[pos[0]][0] != "]":
                out.append(term())
                if toks[pos[0]][0] == ";":
                    pos[0] += 1
            pos[0] += 1
            return out
        if k == "(":
            pos[0] += 1
            out = [term()]
            while toks[pos[0]][0] == ",":
                pos[0] += 1
                out.append(term())
            pos[0] += 1
            return tuple(out)
        pos[0] += 1
        return v
    return term()


def eval_results(out):
    """the `= term : type` blocks of a coqc run"""
    res = []
    for m in re.finditer(r"^\s*= (.*?)\n\s*: ", out, flags=re.S | re.M):
        res.append(parse_term(m.group(1)))
    return res


# ---------------------------------------------------------------------------
# readable rendering of a skeleton

def lines_tok(toks):
    """group a token list into lines (depth, [tokens]): one SQL clause / control marker per line; every token is kept"""
    brk = {"FROM", "WHERE", "SET", "ORDER", "GROUP", "LIMIT", "OFFSET", "VALUES", "RETURNING", "FOR", "#opt", "#optelse", "#endopt",
           "AND", "OR", "SELECT", "UPDATE", "DELETE", "INSERT", "WITH"}
    lines = []
    depth = 0
    i, n = 0, len(toks)
    while i < n:
        t = toks[i]
        nxt = toks[i + 1] if i + 1 < n else ""
        if t.startswith("#stmt:"):
            lines.append((depth, [t]))
            i += 1
            cur = []
            while i < n and toks[i] != "#endstmt":
                if toks[i] in brk and cur and not (toks[i] == "UPDATE" and cur[-1] == "FOR"):
                    lines.append((depth + 1, cur))
                    cur = []
                cur.append(toks[i])
                i += 1
            if i < n:
                cur.append(toks[i])     # #endstmt travels with the last clause
                i += 1
            if cur:
                lines.append((depth + 1, cur))
            continue
        if t in ("#if", "#for", "#switch") and nxt.startswith("go{"):
            lines.append((depth, [t, nxt]))
            depth += 1
            i += 2
            continue
        if t == "#case" and nxt.startswith("go{"):
            lines.append((max(0, depth - 1), [t, nxt]))
            i += 2
            continue
        if t in ("#assign", "#field") and nxt.startswith("go{"):
            lines.append((depth, [t, nxt]))
            i += 2
            continue
        if t in ("#closure", "#go"):
            lines.append((depth, [t]))
            depth += 1
            i += 1
            continue
        if t == "#else":
            lines.append((max(0, depth - 1), [t]))
            i += 1
            continue
        if t == "#end":
            depth = max(0, depth - 1)
            lines.append((depth, [t]))
            i += 1
            continue
        lines.append((depth, [t]))
        i += 1
    return lines


def lines_of(toks, show_end=False):
    return ["  " * d + " ".join(x for x in ts if show_end or x != "#endstmt") for d, ts in lines_tok(toks)]


def readable_diff(a_toks, b_toks, a_name, b_name, context=2, limit=60, show_end=False):
    la = lines_of(a_toks, show_end)
    lb = lines_of(b_toks, show_end)
    out = list(difflib.unified_diff(la, lb, a_name, b_name, n=context, lineterm=""))
    if len(out) > limit:
        out = out[:limit] + ["... (%d more diff lines)" % (len(out) - limit)]
    return out


# ---------------------------------------------------------------------------

def coqc_scratch(coq_dir, workdir, name, body, timeout=600):
    os.makedirs(workdir, exist_ok=True)
    p = os.path.join(workdir, name + ".v")
    open(p, "w").write(body)
    pr = subprocess.run(["coqc", "-Q", coq_dir, "HK", "-w", "-notation-overridden", p], cwd=workdir, timeout=timeout,
                        stdout=subprocess.PIPE, stderr=subprocess.STDOUT, text=True)
    return pr.returncode, pr.stdout


def evaluate_fast(coq_dir, workdir):
    """one coqc run, small output: returns (rows, inv, why) or raises RuntimeError(text)"""
    rc, out = coqc_scratch(coq_dir, workdir, "pgtie_fast", FAST)
    if rc != 0:
        raise RuntimeError(out[-3000:])
    res = eval_results(out)
    if len(res) != 5:
        raise RuntimeError("could not parse the evaluation output: " + out[:2000])
    rows = []
    for (name, fns, bools, counts) in res[0]:
        rows.append({"name": name, "sqlite_fn": fns[0], "pg_fn": fns[1], "holds": bools[0] == "true", "exact": bools[1] == "true",
                     "sqlite_statements": int(counts[0]), "sqlite_statements_exact": int(counts[1]),
                     "pg_statements": int(counts[2]), "pg_statements_exact": int(counts[3])})
    inv = {k: v for (k, v) in res[1]}
    why = {k: v[0] for (k, v) in res[2]}
    inv["_stmts"] = {"sqlite": {k: int(v) for (k, v) in res[3][0]}, "pg": {k: int(v) for (k, v) in res[3][1]}}
    inv["_checks"] = {k: (v == "true") for (k, v) in res[4]}
    return rows, inv, why


def evaluate_detail(coq_dir, workdir, names):
    """token lists of the named ties: returns (ties, fragments)"""
    body = DETAIL.replace("NAMES", "[" + "; ".join('"%s"' % n for n in names) + "]")
    rc, out = coqc_scratch(coq_dir, workdir, "pgtie_detail", body)
    if rc != 0:
        raise RuntimeError(out[-3000:])
    res = eval_results(out)
    if len(res) != 2:
        raise RuntimeError("could not parse the evaluation output: " + out[:2000])
    ties = []
    for (name, (a, b), (after, missing), pg, before) in res[0]:
        ties.append({"name": name, "sqlite_fn": a, "pg_fn": b, "sqlite_after_diffs": after, "unused_diffs": missing,
                     "pg": pg, "sqlite_before_diffs": before})
    frag = {k: {"in": v[0], "sqlite": v[1], "pg": v[2]} for (k, v) in res[1]}
    return ties, frag


def evaluate(coq_dir, workdir):
    """everything (viewer): (ties, inv, why)"""
    rows, inv, why = evaluate_fast(coq_dir, workdir)
    ties, frag = evaluate_detail(coq_dir, workdir, [r["name"] for r in rows])
    inv["_frag"] = frag
    return ties, inv, why


def what_changed(diff_lines):
    """a short word for the key: what kind of token differs"""
    txt = "\n".join(l for l in diff_lines if l[:1] in "+-" and not l.startswith(("+++", "---")))
    if re.search(r"ORDER BY", txt):
        return "ordering"
    if re.search(r"#ret:", txt):
        return "returned-error"
    if re.search(r"#begin|#commit|#rollback|#defer-rollback", txt):
        return "transaction"
    if re.search(r"#assign|#field", txt) and not re.search(r"#stmt|WHERE|SET", txt):
        return "default-or-clamp"
    if re.search(r"#do:|#call", txt) and not re.search(r"WHERE|SET|FROM", txt):
        return "helper-call"
    if re.search(r"\bstate\b|WHERE|AND", txt):
        return "guard"
    return "statement"


def coq_list(toks, indent="      "):
    out, line = [], ""
    for t in toks:
        q = '"' + t.replace('"', '""') + '"'
        if len(line) + len(q) > 100:
            out.append(line)
            line = ""
        line += q + "; "
    out.append(line)
    txt = ("\n" + indent).join(out).rstrip()
    return "[" + txt[:-1] + "]" if txt.endswith(";") else "[" + txt + "]"


def count_sub(hay, needle):
    n, c = len(needle), 0
    for i in range(len(hay) - n + 1):
        if hay[i:i + n] == needle:
            c += 1
    return c


def suggest(ties, names):
    """draft mkDiff entries (line-level hunks, context extended until the SQLite fragment is unique in its tie)"""
    hunks = {}
    order = []
    for t in ties:
        if names and t["name"] not in names:
            continue
        a, b = t["sqlite_after_diffs"], t["pg"]
        if a == b:
            continue
        la, lb = lines_tok(a), lines_tok(b)
        sa = [" ".join(x[1]) for x in la]
        sb = [" ".join(x[1]) for x in lb]
        sm = difflib.SequenceMatcher(None, sa, sb, autojunk=False)
        for tag, i1, i2, j1, j2 in sm.get_opcodes():
            if tag == "equal":
                continue
            while True:
                fr = [x for l in la[i1:i2] for x in l[1]]
                to = [x for l in lb[j1:j2] for x in l[1]]
                if fr and count_sub(a, fr) == 1:
                    break
                if i1 == 0 or j1 == 0:
                    break
                i1 -= 1
                j1 -= 1
            key = (tuple(fr), tuple(to))
            if key not in hunks:
                hunks[key] = []
                order.append(key)
            hunks[key].append(t["name"])
    k = 0
    for key in order:
        k += 1
        fr, to = key
        print('  mkDiff "D%02d"' % k)
        print("    %s" % coq_list(hunks[key], "     "))
        print("    %s" % coq_list(list(fr)))
        print("    %s" % coq_list(list(to)))
        print('    Structural "";')


def statement_statistics(rows, inv):
    """how many SQL statements of each file are tied exactly / modulo a listed difference / not tied"""
    out = {}
    for side, key in (("sqlite", "sqlite_fn"), ("pg", "pg_fn")):
        tied = set(r[key] for r in rows)
        exact = sum(r[side + "_statements_exact"] for r in rows)
        total = sum(r[side + "_statements"] for r in rows)
        untied_where = {}
        for fn, n in inv["_stmts"][side].items():
            if fn in tied or (side == "sqlite" and fn in inv.get("sqlite_inlined", [])) or n == 0:
                continue      # helpers read in place are counted where they are inlined
            untied_where[fn] = n
        out[side] = {"statements_tied_exactly": exact, "statements_tied_modulo_listed_difference": total - exact,
                     "statements_not_tied": sum(untied_where.values()), "not_tied_in": untied_where}
    return out


def split_stmts(toks):
    out, cur = [], None
    for t in toks:
        if t.startswith("#stmt:"):
            cur = []
        elif t == "#endstmt":
            if cur is not None:
                out.append(cur)
            cur = None
        elif cur is not None:
            cur.append(t)
    return out


def closest_window(hay, needle):
    """the window of `hay` most similar to `needle` (for showing what became of a listed fragment)"""
    n = len(needle)
    if not hay or not needle:
        return []
    best, best_r = hay[:n], -1.0
    step = 1 if len(hay) * n < 40000 else max(1, n // 8)
    for i in range(0, max(1, len(hay) - n + 1), step):
        w = hay[i:i + n]
        r = difflib.SequenceMatcher(None, w, needle, autojunk=False).ratio()
        if r > best_r:
            best, best_r = w, r
    return best


def theorem_of(name):
    return "C13pg_%s_same_skeleton" % name


def run(ctx, info, rng, fam, hs):
    """extra of props/c13.py: evaluate every tie, report the broken ones readably"""
    cov = {"pgtie_translator": "translate/pgtie.go -> coq/Gen/PgTie.v (regenerated on this run from %s)" % C.REPO}
    gen = os.path.join(C.COQ, "Gen", "PgTie.v")
    gtxt = open(gen).read() if os.path.exists(gen) else ""
    m = re.search(r'Definition pgtie_error : string := "(.*)"\.', gtxt, flags=re.S)
    if m or not gtxt:
        msg = (m.group(1) if m else "coq/Gen/PgTie.v was not generated").replace("|", "\n")
        C.report(ctx, "pgtie:translator:unresolved",
                 "translate/pgtie.go can no longer resolve the SQL of internal/queue/sqlite.go / postgres.go (source shape changed): "
                 + msg.split("\n")[0][:300],
                 {"kind": "obligation", "no_failing_input_found": True, "names": "every theorem of coq/Properties/C13pg.v", "detail": msg.split("\n")})
        return cov
    ok, log = C.coq_build(targets=["Gen/PgTie.vo", "Model/SqlNorm.vo", "Model/PgAllowedDiffs.vo"])
    try:
        if not ok:
            raise RuntimeError(log[-2000:])
        rows, inv, why = evaluate_fast(C.COQ, os.path.join(ctx.scratch, "pgtie"))
        bad = [r["name"] for r in rows if not r["holds"]]
        ties, inv["_frag"] = evaluate_detail(C.COQ, os.path.join(ctx.scratch, "pgtie"), bad) if bad else ([], {})
    except RuntimeError as e:
        C.report(ctx, "pgtie:evaluation:failed", "the skeleton comparison could not be evaluated in Coq",
                 {"kind": "obligation", "no_failing_input_found": True, "names": "every theorem of coq/Properties/C13pg.v", "detail": str(e)[-3000:]})
        return cov
    broken = []
    for t in ties:
        holds = t["sqlite_after_diffs"] == t["pg"] and not t["unused_diffs"]
        if holds:
            continue
        broken.append(t["name"])
        missing = [side for side, toks in (("sqlite.go:" + t["sqlite_fn"], t["sqlite_before_diffs"]), ("postgres.go:" + t["pg_fn"], t["pg"]))
                   if "#missing-function" in toks]
        detail = {"sqlite_function": t["sqlite_fn"], "postgres_function": t["pg_fn"],
                  "listed_differences_that_no_longer_occur": t["unused_diffs"]}
        if missing:
            what = "function-missing"
            msg = "%s no longer exists (or no longer touches the database)" % ", ".join(missing)
            diff = []
        else:
            diff = readable_diff(t["sqlite_after_diffs"], t["pg"], "sqlite.go:%s (normalised, after the listed differences)" % t["sqlite_fn"],
                                 "postgres.go:%s (normalised)" % t["pg_fn"], context=3, limit=80)
            what = what_changed(diff)
            changed = [l for l in diff if l[:1] in "+-" and not l.startswith(("+++", "---"))]
            msg = "the statement skeletons of %s differ beyond the listed differences (%d changed lines; first: %s)" % (
                t["name"], len(changed), (changed[0].strip() if changed else "?")[:160])
            for did in t["unused_diffs"]:
                fr = inv["_frag"].get(did, {})
                win = closest_window(t["sqlite_before_diffs"], fr.get("sqlite", []))
                detail["listed_difference_%s" % did] = {
                    "why_listed": why.get(did, ""),
                    "expected_sqlite_fragment_vs_what_is_there_now": [
                        "listed SQLite fragment: " + " ".join(fr.get("sqlite", [])),
                        "closest in sqlite.go:%s now: " % t["sqlite_fn"] + " ".join(win)]}
            if t["unused_diffs"]:
                what = "listed-difference-gone"
                msg += "; listed difference(s) %s no longer occur in sqlite.go" % ", ".join(t["unused_diffs"])
        detail["token_diff"] = diff
        C.report(ctx, "pgtie:%s:%s" % (t["name"], what), "Postgres store tie: " + msg,
                 {"kind": "obligation", "no_failing_input_found": True, "names": theorem_of(t["name"]), "detail": detail})
    for th, okb in sorted(inv["_checks"].items()):
        if okb:
            continue
        broken.append(th)
        d = {}
        who = "inventory"
        if "functions_covered" in th:
            side = "sqlite" if "sqlite" in th else "pg"
            cov_set = set(inv["tied_" + side]) | set(inv[side + "_only"])
            d["functions_with_database_statements_outside_the_table"] = [x for x in inv[side + "_all"] if x not in cov_set]
            who = ",".join(d["functions_with_database_statements_outside_the_table"])[:60] or "inventory"
            what = "untied-function"
        elif "functions_exist" in th:
            d["missing"] = [x for x in inv["tied_sqlite"] + inv["sqlite_only"] if x not in inv["sqlite_all"]] + \
                           [x for x in inv["tied_pg"] + inv["pg_only"] if x not in inv["pg_all"]]
            who = ",".join(d["missing"])[:60] or "inventory"
            what = "function-missing"
        elif th == "C13pg_methods_same":
            d["only_in_sqlite"] = [x for x in inv["sqlite_methods"] if x not in inv["pg_methods"]]
            d["only_in_postgres"] = [x for x in inv["pg_methods"] if x not in inv["sqlite_methods"]]
            who = ",".join(d["only_in_postgres"] + [x for x in d["only_in_sqlite"] if x != "EnqueueBatch"])[:60] or "methods"
            what = "method-set"
        elif th == "C13pg_errors_same":
            d["sqlite"], d["postgres"] = inv["sqlite_errors"], inv["pg_errors"]
            who, what = "errors", "sentinel-errors"
        elif th == "C13pg_schema_columns":
            d["only_in_sqlite"] = [x for x in inv["sqlite_columns"] if x not in inv["pg_columns"]]
            d["only_in_postgres"] = [x for x in inv["pg_columns"] if x not in inv["sqlite_columns"]]
            who, what = "schema", "columns"
        else:
            who, what = th.replace("C13pg_", ""), "pinned"
        C.report(ctx, "pgtie:%s:%s" % (who, what), "Postgres store tie: %s no longer holds" % th,
                 {"kind": "obligation", "no_failing_input_found": True, "names": th, "detail": d})
    # observable differences that the table records: known findings when the integrator lists them, notes otherwise
    known = {k.get("key"): k for k in C.load_known(ctx.prop)}
    unreviewed = []
    for did in inv.get("divergent_ids", []):
        key = "pgtie:divergence:%s" % did
        if key in known:
            C.report(ctx, key, why.get(did, ""), {"kind": "obligation", "no_failing_input_found": True})
        else:
            unreviewed.append(did)
    if unreviewed:
        ctx.notes.append("Postgres store: %d listed differences are OBSERVABLE divergences from the SQLite/memory stores (static finding, Postgres "
                         "cannot run here): %s - see docs/notes/C13pg.md" % (len(unreviewed), ", ".join(unreviewed)))
    exact_ties = [r["name"] for r in rows if r["exact"]]
    cov.update({
        "pgtie_ties": len(rows), "pgtie_ties_broken": len(broken), "pgtie_ties_with_no_listed_difference": len(exact_ties),
        "pgtie_listed_differences": len(inv.get("diff_ids", [])), "pgtie_listed_differences_observable": inv.get("divergent_ids", []),
        "pgtie_statements": statement_statistics(rows, inv),
        "pgtie_functions": {"sqlite_with_skeleton": len(inv["sqlite_all"]), "postgres_with_skeleton": len(inv["pg_all"]),
                            "sqlite_outside_the_tie": inv["sqlite_only"], "postgres_outside_the_tie": inv["pg_only"]},
    })
    return cov


def main_view(argv):
    coq = os.path.join(C.VERIF, "coq")
    ties, inv, why = evaluate(coq, "/tmp/b-pgtie-view")
    if argv and argv[0] == "suggest":
        suggest(ties, argv[1:])
        return
    only = argv[0] if argv else None
    nbad = 0
    for t in ties:
        if only and t["name"] != only:
            continue
        ok = t["sqlite_after_diffs"] == t["pg"] and not t["unused_diffs"]
        if ok and not only:
            print("== %-28s tied (%d tokens)" % (t["name"], len(t["pg"])))
            continue
        nbad += 0 if ok else 1
        print("== %-28s %s  unused listed differences: %s" % (t["name"], "tied" if ok else "DIFFERENT", t["unused_diffs"]))
        for l in readable_diff(t["sqlite_after_diffs"], t["pg"], "sqlite:" + t["sqlite_fn"], "postgres:" + t["pg_fn"], limit=400, show_end=True, context=4):
            print("   " + l)
        if only and len(argv) > 1:
            print(t["sqlite_after_diffs"])
            print(t["pg"])
    print("%d ties differ" % nbad)
    for k in ("sqlite_all", "pg_all"):
        side = "sqlite" if k.startswith("sqlite") else "pg"
        covered = set(inv["tied_" + side]) | set(inv[side + "_only"])
        print(k, "not covered:", [x for x in inv[k] if x not in covered])


def main_check():
    """python3 lib/pgtie.py check   (VERIF_REPO=<tree>): regenerate Gen/PgTie.v from the tree and run only the tie (no queue histories)"""
    import json
    ctx = C.Ctx("C13", "quick", 1)
    try:
        tr, log = C.go_build_translators(ctx)
        if tr is None:
            raise RuntimeError(log)
        rc, out = C.run([tr, C.REPO, os.path.join(C.COQ, "Gen")])
        print("translator rc=%d %s" % (rc, out.strip()[:300]))
        cov = run(ctx, {}, None, None, None)
        for v in ctx.violations:
            ro = json.load(open(v["replay"]))
            print("VIOLATION key=%s theorem=%s" % (v["key"], ro.get("names")))
            print("   " + v["what"][:300])
            det = ro.get("detail")
            if isinstance(det, dict):
                for l in (det.get("token_diff") or [])[:24]:
                    print("      " + l)
                for k, x in det.items():
                    if k.startswith("listed_difference_"):
                        print("      %s no longer occurs:" % k)
                        for l in x["expected_sqlite_fragment_vs_what_is_there_now"][:12]:
                            print("         " + l)
                    elif k not in ("token_diff", "sqlite_function", "postgres_function") and x:
                        print("      %s: %s" % (k, json.dumps(x)[:300]))
            elif det:
                print("      " + json.dumps(det)[:600])
        print("RESULT violations=%d keys=%s ties=%s broken=%s" % (len(ctx.violations), sorted(v["key"] for v in ctx.violations),
                                                              cov.get("pgtie_ties"), cov.get("pgtie_ties_broken")))
    finally:
        ctx.cleanup()


if __name__ == "__main__":
    if sys.argv[1:2] == ["check"]:
        main_check()
    else:
        main_view(sys.argv[1:])
