"""C13pg - the static tie of the Postgres store (internal/queue/postgres.go) to the SQLite store.

The Postgres store cannot be executed here.  translate/pgtie.go regenerates coq/Gen/PgTie.v (statement and
control skeletons of both files) on every run; the theorems of coq/Properties/C13pg.v say that the two
skeletons of every tied function are equal after the normaliser of Model/SqlNorm.v and the listed differences of
Model/PgAllowedDiffs.v.  This module is the `extra` of props/c13.py: it evaluates the same comparison in Coq
function by function, so that a broken obligation is reported with the name of the theorem and a readable
token-level diff (a Postgres difference cannot be replayed: `no-failing-input-found`)."""
import difflib
import os
import re
import subprocess
import sys

if __name__ == "__main__":
    sys.path.insert(0, os.path.dirname(os.path.dirname(os.path.abspath(__file__))))

from lib import common as C  # noqa: E402

SCRATCH = r"""From Coq Require Import String List.
From HK Require Import Gen.PgTie Model.SqlNorm Model.PgAllowedDiffs.
Import ListNotations.
Open Scope string_scope.
Definition look (tbl : list (string * list string)) (k : string) : list string :=
  match assoc k tbl with Some v => v | None => ["#missing-function"] end.
Definition rep := map (fun t => match t with (n, a, b) =>
   (n, (a, b), sqlite_side sqlite_skeletons n (look sqlite_skeletons a), pg_side (look pg_skeletons b),
    "#start" :: inline 3 sqlite_inlined (sk_table sqlite_calls Sqlite sqlite_skeletons) (norm_sqlite (look sqlite_skeletons a))) end) tied.
Definition inv := [("sqlite_all", map fst sqlite_skeletons); ("pg_all", map fst pg_skeletons);
   ("sqlite_methods", sqlite_methods); ("pg_methods", pg_methods); ("sqlite_funcs", sqlite_funcs); ("pg_funcs", pg_funcs);
   ("sqlite_errors", sqlite_errors_used); ("pg_errors", pg_errors_used); ("sqlite_columns", sqlite_columns);
   ("pg_columns", pg_columns); ("sqlite_only", map fst sqlite_only); ("pg_only", map fst pg_only);
   ("tied_sqlite", map (fun t => snd (fst t)) tied); ("tied_pg", map snd tied);
   ("diff_ids", map d_id allowed_diffs);
   ("divergent_ids", map d_id (filter (fun d => match d_kind d with Divergent => true | _ => false end) allowed_diffs))].
Definition why := map (fun d => (d_id d, [d_why d])) allowed_diffs.
Set Printing Width 200.
Set Printing Depth 1000000.
Eval vm_compute in rep.
Eval vm_compute in inv.
Eval vm_compute in why.
"""


# ---------------------------------------------------------------------------
# parsing what coqc prints

def _tokens(s):
    i, n = 0, len(s)
    while i < n:
        c = s[i]
        if c.isspace():
            i += 1
        elif c == '"':
            j = i + 1
            buf = []
            while j < n:
                if s[j] == '"':
                    if j + 1 < n and s[j + 1] == '"':
                        buf.append('"')
                        j += 2
                        continue
                    break
                buf.append(s[j])
                j += 1
            yield ("s", "".join(buf))
            i = j + 1
        elif c in "[]();,":
            yield (c, c)
            i += 1
        else:
            j = i
            while j < n and not s[j].isspace() and s[j] not in '[]();,"':
                j += 1
            yield ("w", s[i:j])
            i = j


def parse_term(text):
    toks = list(_tokens(text))
    pos = [0]

    def term():
        k, v = toks[pos[0]]
        if k == "s":
            pos[0] += 1
            return v
        if k == "[":
            pos[0] += 1
            out = []
            while toks[pos[0]][0] != "]":
                out.append(term())
                if toks[pos[0]][0] == ";":
                    pos[0] += 1
            pos[0] += 1
            return out
        if k == "(":
            pos[0] += 1
            out = [term()]
            while toks[pos[0]][0] == ",":
                pos[0] += 1
                out.append(term())
            pos[0] += 1
            return tuple(out)
        pos[0] += 1
        return v
    return term()


def eval_results(out):
    """the `= term : type` blocks of a coqc run"""
    res = []
    for m in re.finditer(r"^\s*= (.*?)\n\s*: ", out, flags=re.S | re.M):
        res.append(parse_term(m.group(1)))
    return res


# ---------------------------------------------------------------------------
# readable rendering of a skeleton

def lines_tok(toks):
    """group a token list into lines (depth, [tokens]): one SQL clause / control marker per line; every token is kept"""
    brk = {"FROM", "WHERE", "SET", "ORDER", "GROUP", "LIMIT", "OFFSET", "VALUES", "RETURNING", "FOR", "#opt", "#optelse", "#endopt",
           "AND", "OR", "SELECT", "UPDATE", "DELETE", "INSERT", "WITH"}
    lines = []
    depth = 0
    i, n = 0, len(toks)
    while i < n:
        t = toks[i]
        nxt = toks[i + 1] if i + 1 < n else ""
        if t.startswith("#stmt:"):
            lines.append((depth, [t]))
            i += 1
            cur = []
            while i < n and toks[i] != "#endstmt":
                if toks[i] in brk and cur and not (toks[i] == "UPDATE" and cur[-1] == "FOR"):
                    lines.append((depth + 1, cur))
                    cur = []
                cur.append(toks[i])
                i += 1
            if i < n:
                cur.append(toks[i])     # #endstmt travels with the last clause
                i += 1
            if cur:
                lines.append((depth + 1, cur))
            continue
        if t in ("#if", "#for", "#switch") and nxt.startswith("go{"):
            lines.append((depth, [t, nxt]))
            depth += 1
            i += 2
            continue
        if t == "#case" and nxt.startswith("go{"):
            lines.append((max(0, depth - 1), [t, nxt]))
            i += 2
            continue
        if t in ("#assign", "#field") and nxt.startswith("go{"):
            lines.append((depth, [t, nxt]))
            i += 2
            continue
        if t in ("#closure", "#go"):
            lines.append((depth, [t]))
            depth += 1
            i += 1
            continue
        if t == "#else":
            lines.append((max(0, depth - 1), [t]))
            i += 1
            continue
        if t == "#end":
            depth = max(0, depth - 1)
            lines.append((depth, [t]))
            i += 1
            continue
        lines.append((depth, [t]))
        i += 1
    return lines


def lines_of(toks, show_end=False):
    return ["  " * d + " ".join(x for x in ts if show_end or x != "#endstmt") for d, ts in lines_tok(toks)]


def readable_diff(a_toks, b_toks, a_name, b_name, context=2, limit=60, show_end=False):
    la = lines_of(a_toks, show_end)
    lb = lines_of(b_toks, show_end)
    out = list(difflib.unified_diff(la, lb, a_name, b_name, n=context, lineterm=""))
    if len(out) > limit:
        out = out[:limit] + ["... (%d more diff lines)" % (len(out) - limit)]
    return out


# ---------------------------------------------------------------------------

def coqc_scratch(coq_dir, workdir, name, body, timeout=600):
    os.makedirs(workdir, exist_ok=True)
    p = os.path.join(workdir, name + ".v")
    open(p, "w").write(body)
    pr = subprocess.run(["coqc", "-Q", coq_dir, "HK", "-w", "-notation-overridden", p], cwd=workdir, timeout=timeout,
                        stdout=subprocess.PIPE, stderr=subprocess.STDOUT, text=True)
    return pr.returncode, pr.stdout


def evaluate(coq_dir, workdir):
    """returns (ties, inv, why) or raises RuntimeError(text)"""
    rc, out = coqc_scratch(coq_dir, workdir, "pgtie_eval", SCRATCH)
    if rc != 0:
        raise RuntimeError(out[-3000:])
    res = eval_results(out)
    if len(res) != 3:
        raise RuntimeError("could not parse the evaluation output: " + out[:2000])
    ties = []
    for (name, (a, b), (after, missing), pg, before) in res[0]:
        ties.append({"name": name, "sqlite_fn": a, "pg_fn": b, "sqlite_after_diffs": after, "unused_diffs": missing,
                     "pg": pg, "sqlite_before_diffs": before})
    inv = {k: v for (k, v) in res[1]}
    why = {k: v[0] for (k, v) in res[2]}
    return ties, inv, why


def what_changed(diff_lines):
    """a short word for the key: what kind of token differs"""
    txt = "\n".join(l for l in diff_lines if l[:1] in "+-" and not l.startswith(("+++", "---")))
    if re.search(r"ORDER BY", txt):
        return "ordering"
    if re.search(r"#ret:", txt):
        return "returned-error"
    if re.search(r"#begin|#commit|#rollback|#defer-rollback", txt):
        return "transaction"
    if re.search(r"#assign|#field", txt) and not re.search(r"#stmt|WHERE|SET", txt):
        return "default-or-clamp"
    if re.search(r"#do:|#call", txt) and not re.search(r"WHERE|SET|FROM", txt):
        return "helper-call"
    if re.search(r"\bstate\b|WHERE|AND", txt):
        return "guard"
    return "statement"


def coq_list(toks, indent="      "):
    out, line = [], ""
    for t in toks:
        q = '"' + t.replace('"', '""') + '"'
        if len(line) + len(q) > 100:
            out.append(line)
            line = ""
        line += q + "; "
    out.append(line)
    txt = ("\n" + indent).join(out).rstrip()
    return "[" + txt[:-1] + "]" if txt.endswith(";") else "[" + txt + "]"


def count_sub(hay, needle):
    n, c = len(needle), 0
    for i in range(len(hay) - n + 1):
        if hay[i:i + n] == needle:
            c += 1
    return c


def suggest(ties, names):
    """draft mkDiff entries (line-level hunks, context extended until the SQLite fragment is unique in its tie)"""
    hunks = {}
    order = []
    for t in ties:
        if names and t["name"] not in names:
            continue
        a, b = t["sqlite_after_diffs"], t["pg"]
        if a == b:
            continue
        la, lb = lines_tok(a), lines_tok(b)
        sa = [" ".join(x[1]) for x in la]
        sb = [" ".join(x[1]) for x in lb]
        sm = difflib.SequenceMatcher(None, sa, sb, autojunk=False)
        for tag, i1, i2, j1, j2 in sm.get_opcodes():
            if tag == "equal":
                continue
            while True:
                fr = [x for l in la[i1:i2] for x in l[1]]
                to = [x for l in lb[j1:j2] for x in l[1]]
                if fr and count_sub(a, fr) == 1:
                    break
                if i1 == 0 or j1 == 0:
                    break
                i1 -= 1
                j1 -= 1
            key = (tuple(fr), tuple(to))
            if key not in hunks:
                hunks[key] = []
                order.append(key)
            hunks[key].append(t["name"])
    k = 0
    for key in order:
        k += 1
        fr, to = key
        print('  mkDiff "D%02d"' % k)
        print("    %s" % coq_list(hunks[key], "     "))
        print("    %s" % coq_list(list(fr)))
        print("    %s" % coq_list(list(to)))
        print('    Structural "";')


def main_view(argv):
    coq = os.path.join(C.VERIF, "coq")
    ties, inv, why = evaluate(coq, "/tmp/b-pgtie-view")
    if argv and argv[0] == "suggest":
        suggest(ties, argv[1:])
        return
    only = argv[0] if argv else None
    nbad = 0
    for t in ties:
        if only and t["name"] != only:
            continue
        ok = t["sqlite_after_diffs"] == t["pg"] and not t["unused_diffs"]
        if ok and not only:
            print("== %-28s tied (%d tokens)" % (t["name"], len(t["pg"])))
            continue
        nbad += 0 if ok else 1
        print("== %-28s %s  unused listed differences: %s" % (t["name"], "tied" if ok else "DIFFERENT", t["unused_diffs"]))
        for l in readable_diff(t["sqlite_after_diffs"], t["pg"], "sqlite:" + t["sqlite_fn"], "postgres:" + t["pg_fn"], limit=400, show_end=True, context=4):
            print("   " + l)
        if only and len(argv) > 1:
            print(t["sqlite_after_diffs"])
            print(t["pg"])
    print("%d ties differ" % nbad)
    for k in ("sqlite_all", "pg_all"):
        side = "sqlite" if k.startswith("sqlite") else "pg"
        covered = set(inv["tied_" + side]) | set(inv[side + "_only"])
        print(k, "not covered:", [x for x in inv[k] if x not in covered])


if __name__ == "__main__":
    main_view(sys.argv[1:])
