"""Shared machinery for every check: scratch dirs, Coq build, Go overlay build,
evidence writer, known findings, violation reporting.  Python stdlib only."""
import fcntl
import hashlib
import json
import os
import re
import shutil
import subprocess
import sys
import time

VERIF = os.path.dirname(os.path.dirname(os.path.abspath(__file__)))
REPO = os.environ.get("VERIF_REPO", "/repo")
COQ = os.path.join(VERIF, "coq")
GOENV = dict(os.environ, GOFLAGS="-mod=mod", GOPROXY="off")
GOENV.pop("GOTOOLCHAIN", None)
GOENV.pop("GOSUMDB", None)

FORBIDDEN = re.compile(
    r"\b(Admitted|admit|Axiom|Axioms|Parameter|Parameters|Conjecture|Conjectures|Admit Obligations)\b"
    r"|Unset Guard Checking|Unset Positivity Checking|Unset Universe Checking|bypass_check|type-in-type|impredicative-set")


class Ctx:
    def __init__(self, prop, tier, seed):
        self.prop = prop
        self.tier = tier
        self.seed = seed
        self.t0 = time.time()
        base = "/dev/shm" if os.path.isdir("/dev/shm") else "/tmp"
        self.scratch = os.path.join(base, "verif-%s-%d" % (prop, os.getpid()))
        os.makedirs(self.scratch, exist_ok=True)
        self.replay_key = None
        self.violations = []      # list of dict(key, what, replay)
        self.known_printed = []
        self.notes = []

    def cleanup(self):
        shutil.rmtree(self.scratch, ignore_errors=True)

    def wall(self):
        return round(time.time() - self.t0, 2)


# --------------------------------------------------------------------------
# Coq
# --------------------------------------------------------------------------

def run(cmd, cwd=None, env=None, timeout=1800, input=None):
    p = subprocess.run(cmd, cwd=cwd, env=env, timeout=timeout, input=input,
                       stdout=subprocess.PIPE, stderr=subprocess.STDOUT, text=True)
    return p.returncode, p.stdout


def coq_lock():
    f = open(os.path.join(COQ, ".lock"), "w")
    fcntl.flock(f, fcntl.LOCK_EX)
    return f


def forbidden_scan():
    """grep the whole development for declared axioms / admitted proofs /
    disabled kernel checks.  Returns list of 'file:line: text'."""
    hits = []
    for root, _, files in os.walk(COQ):
        if "/Cases" in root:
            continue
        for fn in files:
            if not fn.endswith(".v"):
                continue
            p = os.path.join(root, fn)
            txt = open(p).read()
            # strip comments (non-nested is enough: we never nest)
            txt2 = re.sub(r"\(\*.*?\*\)", lambda m: "\n" * m.group(0).count("\n"), txt, flags=re.S)
            for i, line in enumerate(txt2.split("\n"), 1):
                if FORBIDDEN.search(line):
                    hits.append("%s:%d: %s" % (os.path.relpath(p, VERIF), i, line.strip()))
    return hits


# Files that restate what a translator extracted from the Go source and therefore stop compiling when
# that source changes.  They are listed in _CoqProject (make knows their dependencies) but are not part
# of the default build: a change of internal/queue breaks only the obligations of the properties that
# own them (built on demand by coq_check_property_file), not the development every other check needs.
ISOLATED = ("Proofs/TransitionsProofs.v", "Properties/C02trans.v")


def coq_build(targets=None, jobs=16):
    """(Re)generate the Makefile and build the development (full .vo).
    Returns (ok, log)."""
    lock = coq_lock()
    try:
        mk = os.path.join(COQ, "Makefile")
        cp = os.path.join(COQ, "_CoqProject")
        regen = (not os.path.exists(mk)) or os.path.getmtime(mk) < os.path.getmtime(cp)
        # _CoqProject lists files explicitly; regenerate it from the tree
        files = []
        for d in ("Base", "Gen", "Model", "Proofs", "Properties"):
            dd = os.path.join(COQ, d)
            if os.path.isdir(dd):
                for fn in sorted(os.listdir(dd)):
                    if fn.endswith(".v"):
                        files.append("%s/%s" % (d, fn))
        want = "-Q . HK\n-arg -w -arg -notation-overridden,-deprecated-hint-without-locality,-deprecated-instance-without-locality\n" + "\n".join(files) + "\n"
        if not os.path.exists(cp) or open(cp).read() != want:
            open(cp, "w").write(want)
            regen = True
        if regen:
            rc, out = run(["coq_makefile", "-f", "_CoqProject", "-o", "Makefile"], cwd=COQ)
            if rc != 0:
                return False, out
        cmd = ["make", "-k", "-j%d" % jobs]     # -k: one broken component does not keep the others from being built
        if targets:
            cmd += targets
        else:
            cmd += [f[:-2] + ".vo" for f in files if f not in ISOLATED]
        rc, out = run(cmd, cwd=COQ, timeout=3000)
        return rc == 0, out
    finally:
        lock.close()


# Components whose obligations belong to one property only: when nothing but these fails to build, the other
# properties (whose own files and dependencies compiled) are not broken by it.
COMPONENT_OWNER = {
    "Proofs/PgTieProofs.vo": "C13",      # static tie of the Postgres store: depends on Gen/PgTie.v (translate/pgtie.go)
    "Properties/C13pg.vo": "C13",
    "Proofs/AdminProxyShape.vo": "C14",  # retry policy / proxied methods of the MCP Admin-proxy transport: depend on Gen/AdminProxy.v (translate/adminproxy.go)
    "Proofs/ManageProxyProofs.vo": "C14",
    "Properties/C14proxy.vo": "C14",
    "Proofs/PushShapeProofs.vo": "C06",   # shape of runRoute: depends on Gen/PushShape.v (translate/pushshape.go)
    "Properties/C06loop.vo": "C06",
}


def failed_targets(log):
    return sorted(set(re.findall(r"\*\*\* \[[^\]]*?:\s*([\w/.-]+\.vo)\] Error", log)))


def coq_check_property_file(prop):
    """Force-recompile Properties/<prop>.v, return (ok, n_theorems, assumptions_text, log)."""
    src = os.path.join(COQ, "Properties", prop + ".v")
    txt = open(src).read()
    txt_nc = re.sub(r"\(\*.*?\*\)", "", txt, flags=re.S)
    names = re.findall(r"^\s*(?:Theorem|Lemma|Corollary)\s+([A-Za-z0-9_']+)", txt_nc, flags=re.M)
    lock = coq_lock()
    try:
        for ext in (".vo", ".glob", ".vok", ".vos"):
            try:
                os.remove(src[:-2] + ext)
            except FileNotFoundError:
                pass
        rc, out = run(["make", "Properties/%s.vo" % prop], cwd=COQ, timeout=1800)
    finally:
        lock.close()
    return rc == 0, names, out


def coq_check_property_files(props, jobs=8):
    """Force-recompile several Properties/<prop>.v files with one parallel make.
    Returns {prop: (ok, theorem names)}, combined log."""
    out = {}
    lock = coq_lock()
    try:
        targets = []
        for prop in props:
            src = os.path.join(COQ, "Properties", prop + ".v")
            txt_nc = re.sub(r"\(\*.*?\*\)", "", open(src).read(), flags=re.S)
            out[prop] = [False, re.findall(r"^\s*(?:Theorem|Lemma|Corollary)\s+([A-Za-z0-9_']+)", txt_nc, flags=re.M)]
            for ext in (".vo", ".glob", ".vok", ".vos"):
                try:
                    os.remove(src[:-2] + ext)
                except FileNotFoundError:
                    pass
            targets.append("Properties/%s.vo" % prop)
        rc, log = run(["make", "-k", "-j%d" % jobs] + targets, cwd=COQ, timeout=1800)
        for prop in props:
            out[prop][0] = os.path.exists(os.path.join(COQ, "Properties", prop + ".vo"))
    finally:
        lock.close()
    return {k: tuple(v) for k, v in out.items()}, log


def add_property_files(info, files):
    """further files of theorems that belong to the property of this run: their obligations are added to info (one parallel make)"""
    res, plog = coq_check_property_files(list(files))
    closed, axioms = parse_assumptions(plog)
    info["closed"] += closed
    info["axioms"] = info["axioms"] + axioms
    for pf in files:
        pok, names = res[pf]
        info["prop_ok"] = info["prop_ok"] and pok
        info["theorems"] = info["theorems"] + names
        if not pok:
            info["prop_log"] = info.get("prop_log", "") + ("Properties/%s.v did not compile: " % pf) + plog[-2500:]


def parse_assumptions(log):
    """Split the output of Print Assumptions commands."""
    closed = len(re.findall(r"Closed under the global context", log))
    axioms = []
    m = re.findall(r"Axioms:\n((?:.+\n?)+?)(?:\n|$)", log)
    for blk in m:
        axioms.append(blk.strip())
    return closed, axioms


def coq_eval_cases(ctx, name, body, timeout=1800):
    """Write a scratch .v (outside the project), compile it against the built
    development, return (rc, stdout)."""
    d = os.path.join(ctx.scratch, "cases")
    os.makedirs(d, exist_ok=True)
    p = os.path.join(d, name + ".v")
    open(p, "w").write(body)
    rc, out = run(["coqc", "-Q", COQ, "HK", "-w", "-notation-overridden", p], cwd=d, timeout=timeout)
    return rc, out


def coq_eval_shards(ctx, name, bodies, timeout=1800, par=16):
    """Compile several scratch files in parallel; returns list of (rc,out)."""
    d = os.path.join(ctx.scratch, "cases")
    os.makedirs(d, exist_ok=True)
    procs = []
    results = [None] * len(bodies)
    idx = 0
    running = []
    while idx < len(bodies) or running:
        while idx < len(bodies) and len(running) < par:
            p = os.path.join(d, "%s_%d.v" % (name, idx))
            open(p, "w").write(bodies[idx])
            pr = subprocess.Popen(["coqc", "-Q", COQ, "HK", "-w", "-notation-overridden", p], cwd=d,
                                  stdout=subprocess.PIPE, stderr=subprocess.STDOUT, text=True)
            running.append((idx, pr))
            idx += 1
        i, pr = running.pop(0)
        try:
            out, _ = pr.communicate(timeout=timeout)
            results[i] = (pr.returncode, out)
        except subprocess.TimeoutExpired:
            pr.kill()
            results[i] = (124, "timeout")
    return results


def coq_list_result(out, marker):
    """Find '<marker> = [ ... ]' in coqc output and return the bracket text flattened."""
    flat = " ".join(out.split())
    m = re.search(re.escape(marker) + r"\s*=\s*(.*?)\s*:\s*list", flat)
    if not m:
        return None
    return m.group(1)


# --------------------------------------------------------------------------
# Go: overlay build of the harness from /repo's working tree
# --------------------------------------------------------------------------

def go_overlay(ctx, extra_replace=None, without_optional=False):
    """Build overlay.json mounting the harness main package and white-box shims
    into /repo without touching it.  Shim files named zz_verifopt_*.go are OPTIONAL: they export unexported helper functions
    (twins compared with their Coq models) through function variables; when the source no longer has such a helper the harness is
    built without them (without_optional) and the behavioural checks still run."""
    ov = {}
    hdir = os.path.join(VERIF, "harness", "cmd", "verifharness")
    for fn in sorted(os.listdir(hdir)):
        if fn.endswith(".go"):
            ov[os.path.join(REPO, "cmd", "verifharness", fn)] = os.path.join(hdir, fn)
    sdir = os.path.join(VERIF, "harness", "shims")
    for pkg in sorted(os.listdir(sdir)):
        pd = os.path.join(sdir, pkg)
        if not os.path.isdir(pd):
            continue
        for fn in sorted(os.listdir(pd)):
            if fn.endswith(".go"):
                if without_optional and fn.startswith("zz_verifopt_"):
                    continue
                ov[os.path.join(REPO, "internal", pkg.replace("__", "/"), fn)] = os.path.join(pd, fn)
    if extra_replace:
        ov.update(extra_replace)
    path = os.path.join(ctx.scratch, "overlay.json")
    json.dump({"Replace": ov}, open(path, "w"), indent=1)
    return path


def go_build_harness(ctx, extra_replace=None, name="h", tags="verif"):
    out = os.path.join(ctx.scratch, name)
    ov = go_overlay(ctx, extra_replace)
    rc, log = run(["go", "build", "-tags", tags, "-overlay", ov, "-o", out, "./cmd/verifharness"],
                  cwd=REPO, env=GOENV, timeout=1200)
    if rc != 0:
        # a helper that an optional shim exports may be gone (renamed / folded into another function): build without those shims
        ov = go_overlay(ctx, extra_replace, without_optional=True)
        rc2, log2 = run(["go", "build", "-tags", tags, "-overlay", ov, "-o", out, "./cmd/verifharness"],
                        cwd=REPO, env=GOENV, timeout=1200)
        if rc2 != 0:
            return None, log
        ctx.notes.append("harness built without the optional helper shims (zz_verifopt_*.go): " + log[-600:])
        ctx.optional_shims_dropped = log[-1500:]
        return out, log2
    return out, log


def go_build_translators(ctx):
    out = os.path.join(ctx.scratch, "translate")
    rc, log = run(["go", "build", "-o", out, "."], cwd=os.path.join(VERIF, "translate"), env=GOENV, timeout=600)
    if rc != 0:
        return None, log
    return out, log


def harness_run(hbin, args, stdin_obj=None, timeout=1800, env=None):
    inp = None
    if stdin_obj is not None:
        inp = json.dumps(stdin_obj)
    p = subprocess.run([hbin] + args, input=inp, stdout=subprocess.PIPE, stderr=subprocess.PIPE,
                       text=True, timeout=timeout, env=env)
    return p.returncode, p.stdout, p.stderr


# --------------------------------------------------------------------------
# Known findings, violations, evidence
# --------------------------------------------------------------------------

def load_known(prop):
    known = []
    p = os.path.join(VERIF, "known_findings.jsonl")
    if os.path.exists(p):
        for line in open(p):
            line = line.strip()
            if not line or line.startswith("#"):
                continue
            try:
                o = json.loads(line)
            except ValueError:
                continue
            if o.get("property") == prop and o.get("status") == "known":
                known.append(o)
    return known


class HarnessBuildFailed(Exception):
    """The correspondence harness (cmd/verifharness + the white-box shims mounted with -overlay) does not compile against the
    tree under check.  On the pinned tree it compiles, so the tree changed under it: the tie between model and code can no
    longer be run.  `check` turns this into a violation that names the correspondence (no-failing-input-found)."""

    def __init__(self, log):
        Exception.__init__(self, "harness build failed:\n" + (log or ""))
        self.log = log or ""


def harness_unbuildable(ctx, exc):
    report(ctx, "correspondence-unbuildable",
           "the correspondence harness no longer compiles against this tree: the model cannot be run against the code",
           {"kind": "obligation", "no_failing_input_found": True,
            "broken": ["correspondence: harness/cmd/verifharness with harness/shims (go build -tags verif -overlay) against the tree"],
            "go_log": exc.log[-4000:],
            "note": "no input could be searched: the implementation side of the correspondence does not build"})
    cov = {"evaluations": 0, "distinct_nontrivial": 0, "obligations": 1, "discharged": 0, "traces_validated_against_impl": 0,
           "rule": "the harness did not build; nothing was run",
           "samples": [{"broken": "harness build", "log_tail": exc.log[-600:]}]}
    return finish(ctx, cov, ["harness must compile against the tree for the correspondence to be checked"])


def report(ctx, key, what, replay_obj):
    """Record a violation.  key identifies the specific failing input class;
    if known_findings lists it as `known` it is printed as KNOWN-FINDING."""
    for k in load_known(ctx.prop):
        if k.get("key") == key:
            line = "KNOWN-FINDING: property=%s %s" % (ctx.prop, k.get("what", what))
            if line not in ctx.known_printed:
                ctx.known_printed.append(line)
                print(line, flush=True)
            return False
    os.makedirs(os.path.join(VERIF, "replays"), exist_ok=True)
    h = hashlib.sha1(json.dumps(replay_obj, sort_keys=True, default=str).encode()).hexdigest()[:10]
    path = os.path.join(VERIF, "replays", "%s-%s-%s.json" % (ctx.prop, ctx.seed, h))
    replay_obj = dict(replay_obj)
    replay_obj.setdefault("property", ctx.prop)
    replay_obj.setdefault("seed", ctx.seed)
    replay_obj.setdefault("key", key)
    replay_obj.setdefault("what", what)
    json.dump(replay_obj, open(path, "w"), indent=1, default=str)
    ctx.violations.append({"key": key, "what": what, "replay": path,
                           "no_input": bool(replay_obj.get("no_failing_input_found"))})
    return True


def _sanitize_coverage(cov):
    """keep the evidence valid against EVIDENCE.schema.json whatever a property module put in"""
    ints = ("evaluations", "distinct_nontrivial", "states", "transitions", "traces_validated_against_impl",
            "obligations", "discharged", "programs", "disagreements_checked")
    for k in ints:
        if k in cov:
            try:
                cov[k] = max(0, int(cov[k]))
            except (TypeError, ValueError):
                cov[k + "_note"] = str(cov.pop(k))
    if "exhaustive" in cov and not isinstance(cov["exhaustive"], bool):
        cov["exhaustive_note"] = str(cov["exhaustive"])
        cov["exhaustive"] = False
    if "samples" in cov and not isinstance(cov["samples"], list):
        cov["samples"] = [cov["samples"]]
    if not cov.get("samples"):
        cov["samples"] = [{"note": "no case recorded"}]
    for k in ("rule", "checker_cmd", "explanation"):
        if k in cov and not isinstance(cov[k], str):
            cov[k] = json.dumps(cov[k], default=str)
    if "trusted_base" in cov:
        cov["trusted_base"] = [str(x) for x in cov["trusted_base"]]
    return cov


def finish(ctx, coverage, assumptions, level="proof"):
    coverage = _sanitize_coverage(coverage)
    assumptions = [str(a) for a in (assumptions or [])]
    ev = {
        "property_id": ctx.prop,
        "tier": ctx.tier,
        "seed": ctx.seed,
        "level": level,
        "coverage": coverage,
        "assumptions": assumptions,
        "wall_s": ctx.wall(),
        "violations": len(ctx.violations),
        "violation_keys": sorted(set(v["key"] for v in ctx.violations))[:50],
        "known_findings_printed": ctx.known_printed,
        "notes": ctx.notes,
    }
    os.makedirs(os.path.join(VERIF, "evidence"), exist_ok=True)
    p = os.path.join(VERIF, "evidence", ctx.prop + ".json")
    tmp = p + ".tmp%d" % os.getpid()
    json.dump(ev, open(tmp, "w"), indent=1, default=str)
    os.replace(tmp, p)
    seen = set()
    keys = set()
    printed = 0
    for v in ctx.violations:
        if v["replay"] in seen:
            continue
        seen.add(v["replay"])
        # one line per distinct key, at most 8 lines; every violation stays in replays/ and the evidence
        kclass = v["key"].split(":")[0]
        if v["key"] in keys or printed >= 8:
            continue
        keys.add(v["key"])
        printed += 1
        tail = " no-failing-input-found" if v["no_input"] else ""
        print("VIOLATION property=%s replay=%s%s" % (ctx.prop, v["replay"], tail), flush=True)
    if ctx.replay_key is not None:
        hit = any(v["key"] == ctx.replay_key for v in ctx.violations)
        print("REPLAY key=%s %s" % (ctx.replay_key, "still-fails" if hit else "no-longer-fails"), flush=True)
        return 1 if hit else 0
    return 1 if ctx.violations else 0


def sha(obj):
    return hashlib.sha1(json.dumps(obj, sort_keys=True, default=str).encode()).hexdigest()


# --------------------------------------------------------------------------
# Coq term printers
# --------------------------------------------------------------------------

def coq_string(s):
    """Coq string literal for an ASCII-printable python str (others -> must use bytes lists)."""
    return '"' + s.replace('"', '""') + '"'


def coq_bytes(bs):
    return "[" + ";".join(str(b) for b in bs) + "]%N"


def coq_list(items):
    return "[" + "; ".join(items) + "]"


def coq_bool(b):
    return "true" if b else "false"


def coq_Z(n):
    return "(%d)%%Z" % n


def coq_N(n):
    return "%d%%N" % n


def coq_opt(x, f):
    return "None" if x is None else "(Some %s)" % f(x)


# --------------------------------------------------------------------------
# Standard prologue: regenerate Gen/, scan, build, re-check the property file
# --------------------------------------------------------------------------

TRUSTED_BASE = [
    "Coq 8.16.1 kernel (coqc, full .vo build via coq_makefile; vm_compute used; no native_compute)",
    "no Axiom/Parameter/Admitted in the development (grep run on every check)",
    "translator /verif/translate (go/ast) for coq/Gen/*.v",
    "correspondence harness: /verif/harness (Go, mounted with go build -overlay), /verif/lib, /verif/props (Python)",
]


# --------------------------------------------------------------------------
# one build of the shared Coq development at a time (concurrent `make`s in one directory corrupt each other)
# --------------------------------------------------------------------------
_BUILD_LOCK = {"depth": 0, "fh": None}


class build_lock:
    def __enter__(self):
        import fcntl
        if _BUILD_LOCK["depth"] == 0:
            _BUILD_LOCK["fh"] = open(os.path.join(VERIF, ".build.lock"), "w")
            fcntl.flock(_BUILD_LOCK["fh"], fcntl.LOCK_EX)
        _BUILD_LOCK["depth"] += 1

    def __exit__(self, *a):
        import fcntl
        _BUILD_LOCK["depth"] -= 1
        if _BUILD_LOCK["depth"] == 0:
            fcntl.flock(_BUILD_LOCK["fh"], fcntl.LOCK_UN)
            _BUILD_LOCK["fh"].close()
            _BUILD_LOCK["fh"] = None


def prologue(ctx, need_go=True):
    """Returns dict with keys: coq_ok, prop_ok, theorems, assumptions_closed,
    axioms, hbin, logs."""
    info = {"coq_ok": False, "prop_ok": False, "theorems": [], "axioms": [], "closed": 0, "hbin": None}
    with build_lock():
        return _prologue_locked(ctx, info, need_go)


def _prologue_locked(ctx, info, need_go):
    tr, log = go_build_translators(ctx)
    if tr is None:
        raise RuntimeError("translator build failed:\n" + log)
    rc, out = run([tr, REPO, os.path.join(COQ, "Gen")])
    # exit code 3: only the isolated state-machine extraction (Gen/Transitions.v) failed; the file is then a
    # stub with empty tables and the queue checks that own Properties/C02trans.v report it (lib/c02trans.py)
    info["translate_ok"] = rc in (0, 3)
    info["translate_isolated_failed"] = rc == 3
    info["translate_log"] = out
    info["translator"] = tr
    hits = forbidden_scan()
    info["forbidden"] = hits
    ok, log = coq_build()
    failed = [] if ok else failed_targets(log)
    # a failure confined to a component that another property owns does not break this property, provided its own
    # file (force-recompiled below together with everything it depends on) still checks
    foreign = bool(failed) and all(COMPONENT_OWNER.get(f) not in (None, ctx.prop) for f in failed)
    info["coq_ok"] = ok or foreign
    info["coq_log"] = log[-4000:]
    info["coq_failed"] = failed
    if foreign:
        ctx.notes.append("coq build: %s did not compile; owned by %s, not a dependency of %s" % (
            ", ".join(failed), ", ".join(sorted(set(COMPONENT_OWNER[f] for f in failed))), ctx.prop))
    src = os.path.join(COQ, "Properties", ctx.prop + ".v")
    if os.path.exists(src):
        pok, names, plog = coq_check_property_file(ctx.prop)
        info["prop_ok"] = pok
        info["theorems"] = names
        closed, axioms = parse_assumptions(plog)
        info["closed"] = closed
        info["axioms"] = axioms
        info["prop_log"] = plog[-4000:]
    if ctx.tier == "thorough" and info["prop_ok"]:
        # independent re-check of the compiled property file and everything it depends on
        try:
            rc, out = run(["coqchk", "-silent", "-o", "-Q", COQ, "HK", "HK.Properties." + ctx.prop], cwd=COQ, timeout=3000)
            m = re.search(r"\* Axioms:(.*?)\n\s*\n", out, flags=re.S)
            info["coqchk"] = {"rc": rc, "axioms": (m.group(1).strip() if m else out[-400:])}
            if rc != 0:
                info["prop_ok"] = False
                info["prop_log"] = info.get("prop_log", "") + "\ncoqchk failed: " + out[-1500:]
        except Exception as e:     # coqchk missing or timed out: recorded, not fatal
            info["coqchk"] = {"rc": -1, "axioms": "not run: %r" % (e,)}
    if need_go:
        hbin, log = go_build_harness(ctx)
        info["hbin"] = hbin
        info["go_log"] = log[-4000:]
    return info


def proof_coverage(info, prop):
    n = len(info["theorems"])
    return {
        "obligations": n,
        "discharged": n if info["prop_ok"] else 0,
        "checker_cmd": "coq_makefile -f _CoqProject -o Makefile && make -j16 && rm Properties/%s.vo && make Properties/%s.vo (coqc 8.16.1)" % (prop, prop),
        "theorems": info["theorems"],
        "print_assumptions_closed": info["closed"],
        "print_assumptions_axioms": info["axioms"],
        "forbidden_keyword_hits": info.get("forbidden", []),
        "coqchk": info.get("coqchk", "thorough tier only"),
        "trusted_base": list(TRUSTED_BASE),
    }


def proof_status(info, prop):
    """List of reasons why the proof side of this run does not check (empty = all obligations discharged)."""
    broken = []
    if not info.get("translate_ok", True):
        broken.append("translator could not regenerate coq/Gen (source shape changed): " + info.get("translate_log", "")[-800:])
    if not info["coq_ok"]:
        broken.append("coq build failed: " + info.get("coq_log", "")[-1500:])
    elif not info["prop_ok"]:
        broken.append("Properties/%s.v no longer checks: " % prop + info.get("prop_log", "")[-1500:])
    if info.get("forbidden"):
        broken.append("forbidden keyword in development: %s" % info["forbidden"])
    return broken


def conclude(ctx, info, cov, assumptions, proof_broken=None, searched_note=""):
    """Standard ending: if a proof obligation is broken and the correspondence/search found no failing input,
    report the violation with no-failing-input-found; then write evidence and print VIOLATION lines."""
    if proof_broken is None:
        proof_broken = proof_status(info, ctx.prop)
    if proof_broken and not ctx.violations:
        report(ctx, "proof-broken", "proof obligation no longer checks",
               {"kind": "obligation", "no_failing_input_found": True, "broken": proof_broken,
                "theorems": info["theorems"], "note": searched_note})
    if proof_broken:
        ctx.notes.append("proof obligations broken: %s" % proof_broken)
        cov["discharged"] = 0
    return finish(ctx, cov, assumptions)
