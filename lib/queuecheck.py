"""Correspondence between the Go queue stores and Model/Queue.v on generated histories.

For each (history, backend): run the real store (harness `queue`), translate the ops and
the observed nondeterministic choices into a Coq case, let Coq compute the checksum of
(result, stored messages) after every step, and compare with the checksum of what the
implementation returned and stored."""
import json
import os
import re

from lib import common as C

HM = 2305843009213693951
HP = 1000003
ST = {"queued": 1, "leased": 2, "delivered": 3, "dead": 4, "canceled": 5}
STC = {"queued": "Queued", "leased": "Leased", "delivered": "Delivered", "dead": "Dead", "canceled": "Canceled"}
ERR = {"not_found": 1, "expired": 2, "full": 3, "pressure": 4, "exists": 5, "invalid": 6}
REASONS = ["", "max_retries", "no_retry", "policy_denied", "boom"]
UNKNOWN_LEASE = 999999


def mix(h, x):
    return (h * HP + x + 1) % HM


def mixl(h, xs):
    for x in xs:
        h = mix(h, x)
    return h


class Maps:
    """string <-> number maps of one (history, backend) run"""

    def __init__(self, hist, out):
        ids = set()
        for op in hist["ops"]:
            for e in op.get("enq") or []:
                if e["id"]:
                    ids.add(e["id"])
            for i in op.get("ids") or []:
                if i.strip():
                    ids.add(i.strip())
        for st in out["steps"]:
            for r in st.get("snap") or []:
                ids.add(r["id"])
            for r in (st["res"].get("items") or []) + (st["res"].get("listed") or []):
                ids.add(r["id"])
            for r in st["res"].get("lookup") or []:
                ids.add(r[0])
        self.ids = {s: i + 1 for i, s in enumerate(sorted(ids))}   # byte order == numeric order (ASCII ids)
        self.next_dummy = 900000
        self.leases = {}
        for st in out["steps"]:
            for r in st["res"].get("items") or []:
                if r["lease"] not in self.leases:
                    self.leases[r["lease"]] = len(self.leases) + 1
        self.routes = {}
        self.targets = {}

    def idn(self, s):
        return self.ids[s]

    def route(self, s):
        if s not in self.routes:
            self.routes[s] = len(self.routes) + 1
        return self.routes[s]

    def target(self, s):
        if s not in self.targets:
            self.targets[s] = len(self.targets) + 1
        return self.targets[s]

    def lease(self, s):
        return self.leases.get(s, UNKNOWN_LEASE)


def handle_body(s):
    if s == "" or s is None:
        return 0
    m = re.match(r"^body-(\d+)\x00", s)
    return int(m.group(1)) if m else 777777


# twin of verifCompanion in harness/cmd/verifharness/queue.go
COMPANION = ["v\"é", "plain-value", "C:\\new\\table.json", "^a\\\\d+$", "C:\\hooks\\inbox", "a<b>&c", "tab\there", "sep\u2028end", "\\u0041\\"]


def handle_map(m, key):
    if not m:
        return 0
    if key not in m or len(m) != 2:
        return 777777
    try:
        h = int(m[key])
    except ValueError:
        return 777777
    if m.get("X-Verif") != COMPANION[h % len(COMPANION)]:
        return 777777
    return h


# dead-letter reasons with white space around a non-blank core (scenario S17): stored and returned verbatim by every backend
EXTRA_REASONS = ["\tmax_retries ", "upstream reset\r\n", " boom"]


def reason_n(s):
    """Index of a dead-letter reason in the model.  A reason given to MarkDead that is blank after trimming is NO reason (the stores'
    `strings.TrimSpace(reason) == ""` test) and reaches the model as the empty reason; a blank reason READ BACK from a store that is
    not the empty string has no index (777777), so a store that keeps the white space shows as a difference."""
    allr = REASONS + EXTRA_REASONS
    return allr.index(s) if s in allr else 777777


def row_tuple(mp, r):
    return (mp.idn(r["id"]), mp.route(r["route"]), mp.target(r["target"]), ST.get(r["state"], 9), r["recv"], r["attempt"], r["next"],
            handle_body(r["payload"]), handle_map(r.get("headers"), "X-H"), handle_map(r.get("trace"), "t"),
            reason_n(r["reason"]), (mp.lease(r["lease"]) + 1) if r["lease"] else 0, r["until"])


def hash_snap(mp, rows):
    acc = 11
    for r in rows:
        acc = (acc + mixl(7, row_tuple(mp, r))) % HM
    return acc


def cref_code(mp, s):
    if s.strip() == "":
        return 1
    n = mp.leases.get(s)
    return 2 if n is None else n + 10


def hash_res(mp, op, res):
    err = res.get("err") or ""
    name = op["op"]
    if err:
        if err in ERR:
            return mix(102, ERR[err])
        return mix(102, 99)
    if name == "enqueue" or name == "lease" or name == "reopen":
        return 101
    if name == "enqueue_batch":
        return mixl(103, [res["count"], 0, 0])
    if name in ("manage", "manage_f"):
        matched = res["matched"]
        if name == "manage" and op["kind"] in ("requeue_dead", "delete_dead"):
            matched = 0
        return mixl(103, [res["count"], matched, 1 if res["preview"] else 0])
    if name == "dequeue":
        h = 104
        for r in res.get("items") or []:
            h = mixl(h, [mp.idn(r["id"]), mp.lease(r["lease"]), r["attempt"], r["until"]])
        return h
    if name == "lease_batch":
        h = mix(105, res["succeeded"])
        for c in res.get("conflicts") or []:
            h = (h + mixl(5, [cref_code(mp, c["lease"]), 1 if c["expired"] else 0])) % HM
        return h
    if name in ("list", "list_dead"):
        h = 106
        for r in res.get("listed") or []:
            h = mix(h, mp.idn(r["id"]))
        return h
    if name == "lookup":
        h = 107
        for r in res.get("lookup") or []:
            h = mixl(h, [mp.idn(r[0]), mp.route(r[1]), ST.get(r[2], 9)])
        return h
    if name == "stats":
        s = res.get("stats") or {}
        return mixl(108, [res["total"], s.get("queued", 0), s.get("leased", 0), s.get("delivered", 0), s.get("dead", 0), s.get("canceled", 0)])
    return 0


# ---------------------------------------------------------------------------
# Coq term printers

def cN(n):
    return "%d%%N" % n


def cZ(n):
    return "(%d)" % n if n < 0 else "%d" % n


def copt(x, f):
    return "None" if x is None else "(Some %s)" % f(x)


def coq_cfg(c):
    return "(mkCfg %s %s %s %s %s %s %s %s)" % (cZ(c["max_depth"]), C.coq_bool(c["drop_oldest"]), cZ(c["ret_age"]), cZ(c["prune_iv"]),
                                                cZ(c["deliv_age"]), cZ(c["dlq_age"]), cZ(c["dlq_depth"]), cZ(c["press_items"]))


def coq_lref(mp, ref, concrete):
    """concrete = the lease string the harness actually presented"""
    if concrete.strip() == "":
        return "LBlank"
    n = mp.leases.get(concrete.strip())
    if n is None:
        return "LUnknown"
    return "(LKnown %s %s)" % (cN(n), C.coq_bool(concrete != concrete.strip()))


def coq_rid(mp, s):
    t = s.strip()
    if t == "":
        return "RBlank"
    if t not in mp.ids:
        mp.ids[t] = mp.next_dummy
        mp.next_dummy += 1
    return "(%s %s)" % ("RPlain" if t == s else "RPadded", cN(mp.ids[t]))


def coq_filt(mp, f):
    st = f["state"]
    if st and st not in STC:
        st = None
    return "(mkFilt %s %s %s %s %s %s)" % (
        copt(f["route"] or None, lambda x: cN(mp.route(x))), copt(f["target"] or None, lambda x: cN(mp.target(x))),
        copt(st or None, lambda x: STC[x]), cZ(f["limit"]), copt(f["before"], cZ), C.coq_bool(f.get("preview", False)))


def norm_order(s):
    t = s.strip().lower()
    if t in ("", "desc"):
        return "ODesc"
    if t == "asc":
        return "OAsc"
    return "OInvalid"


def coq_case(mp, hist, out, backend):
    """returns (coq term for list (op*oracle), observed hashes, mask)"""
    steps = out["steps"]
    terms = []
    prev_ids = set()
    for i, (op, st) in enumerate(zip(hist["ops"], steps)):
        res = st["res"]
        name = op["op"]
        now = op["now"]
        picked, gone, gen, listed = [], [], [], []
        if st.get("has_snap"):
            cur_ids = set(r["id"] for r in st["snap"])
            if i > 0 and steps[i - 1].get("has_snap"):
                gone = sorted(mp.idn(x) for x in prev_ids - cur_ids)
            prev_ids = cur_ids
        if name in ("enqueue", "enqueue_batch"):
            es = []
            snap_by_body = {}
            if st.get("has_snap"):
                for r in st["snap"]:
                    snap_by_body[handle_body(r["payload"])] = r["id"]
            for e in op["enq"]:
                if e["id"] == "":
                    gid = snap_by_body.get(e["body"])
                    if gid is None or not gid.startswith("evt_"):
                        n = mp.next_dummy
                        mp.next_dummy += 1
                    else:
                        n = mp.idn(gid)
                    gen.append(n)
                es.append("(mkEnq %s %s %s %s %s %s %s %s)" % (
                    copt(e["id"] or None, lambda x: cN(mp.idn(x))), cN(mp.route(e["route"])), cN(mp.target(e["target"])),
                    copt(e["recv"], cZ), copt(e["next"], cZ), cN(e["body"]), cN(e["hdr"]), cN(e["trace"])))
            if name == "enqueue":
                t = "(Enqueue %s %s)" % (cZ(now), es[0])
            else:
                t = "(EnqueueBatch %s [%s])" % (cZ(now), "; ".join(es))
        elif name == "dequeue":
            for r in res.get("items") or []:
                picked.append((mp.idn(r["id"]), mp.lease(r["lease"])))
            t = "(Dequeue %s %s %s %s %s)" % (cZ(now), copt(op["route"] or None, lambda x: cN(mp.route(x))),
                                              copt(op["target"] or None, lambda x: cN(mp.target(x))), cZ(op["batch"]), cZ(op["ttl"]))
        elif name in ("lease", "lease_batch"):
            k = op["kind"]
            kind = {"ack": "KAck", "nack": "(KNack %s)" % cZ(op["dur"]), "extend": "(KExtend %s)" % cZ(op["dur"]),
                    "dead": "(KDead %s)" % cN(reason_n(op["reason"] if op["reason"].strip() else ""))}[k]
            args = res.get("lease_args") or []
            if name == "lease":
                t = "(LeaseOp %s %s %s)" % (cZ(now), kind, coq_lref(mp, op["lease"], args[0]))
            else:
                t = "(LeaseBatch %s %s [%s])" % (cZ(now), kind, "; ".join(coq_lref(mp, r, a) for r, a in zip(op["leases"], args)))
        elif name in ("manage", "manage_f"):
            kind = {"cancel": "MCancel", "requeue": "MRequeue", "resume": "MResume", "requeue_dead": "MRequeueDead",
                    "delete_dead": "MDeleteDead"}[op["kind"]]
            if name == "manage":
                t = "(Manage %s %s [%s])" % (cZ(now), kind, "; ".join(coq_rid(mp, s) for s in op["ids"]))
            else:
                t = "(ManageF %s %s %s)" % (cZ(now), kind, coq_filt(mp, op["filt"]))
        elif name == "list":
            t = "(ListMessages %s %s %s)" % (cZ(now), coq_filt(mp, op["filt"]), norm_order(op["filt"]["order"]))
        elif name == "list_dead":
            f = op["filt"]
            listed = [mp.idn(r["id"]) for r in res.get("listed") or []]
            t = "(ListDead %s %s %s %s)" % (cZ(now), copt(f["route"] or None, lambda x: cN(mp.route(x))), cZ(f["limit"]), copt(f["before"], cZ))
        elif name == "lookup":
            t = "(Lookup %s [%s])" % (cZ(now), "; ".join(coq_rid(mp, s) for s in op["ids"]))
        elif name == "stats":
            t = "(Stats %s)" % cZ(now)
        elif name == "reopen":
            t = "(Reopen %s)" % cZ(now)
        else:
            raise ValueError(name)
        orc = "(mkOracle [%s] [%s] [%s] [%s])" % ("; ".join("(%s, %s)" % (cN(a), cN(b)) for a, b in picked),
                                                  "; ".join(cN(x) for x in gone), "; ".join(cN(x) for x in gen),
                                                  "; ".join(cN(x) for x in listed))
        terms.append("(%s, %s)" % (t, orc))
    mask = [bool(st.get("has_snap")) for st in steps]
    obs = []
    for op, st in zip(hist["ops"], steps):
        hr = hash_res(mp, op, st["res"])
        if st.get("has_snap"):
            obs.append(mix(hr, hash_snap(mp, st["snap"])))
        else:
            obs.append(mix(hr, 0))
    return "[" + ";\n   ".join(terms) + "]", obs, mask


def projection_problems(mp, op, st):
    """Checks done outside the model: rows returned by dequeue/list equal the stored rows."""
    probs = []
    if not st.get("has_snap"):
        return probs
    by = {r["id"]: r for r in st["snap"]}
    res = st["res"]
    for r in res.get("items") or []:
        s = by.get(r["id"])
        if s is None:
            probs.append("dequeued message %s is not stored" % r["id"])
            continue
        for k in ("route", "target", "recv", "attempt", "payload", "headers", "trace", "lease", "until"):
            if (r.get(k) or None) != (s.get(k) or None):
                probs.append("dequeued %s field %s: returned %r stored %r" % (r["id"], k, r.get(k), s.get(k)))
        if r["state"] != "leased" or s["state"] != "leased" or r["next"] != r["until"]:
            probs.append("dequeued %s not leased / next != until" % r["id"])
    if op["op"] in ("list", "list_dead") and not res.get("err"):
        for r in res.get("listed") or []:
            s = by.get(r["id"])
            if s is None:
                probs.append("listed message %s is not stored" % r["id"])
                continue
            for k in ("route", "target", "state", "recv", "attempt", "next", "payload", "headers", "trace", "reason"):
                if (r.get(k) or None) != (s.get(k) or None):
                    probs.append("listed %s field %s: returned %r stored %r" % (r["id"], k, r.get(k), s.get(k)))
    if op["op"] == "stats" and not res.get("err") and res.get("stats_age"):
        # the backlog figures of Stats against the stored rows: oldest queued received_at / earliest queued next_run_at over ALL queued
        # messages, their age and ready lag at the call's clock, and the ten biggest (route, target) buckets with their own figures
        now = op["now"]
        qd = [r for r in st["snap"] if r["state"] == "queued"]

        def figures(rows):
            recv = min((r["recv"] for r in rows if r["recv"]), default=0)
            nxt = min((r["next"] for r in rows if r["next"]), default=0)
            return [recv, nxt, (now - recv) if recv and now >= recv else 0, (now - nxt) if nxt and now > nxt else 0]
        want = figures(qd)
        if res["stats_age"] != want:
            probs.append("Stats backlog figures [oldest received_at, earliest next_run_at, oldest age, ready lag] = %s; the stored queued rows give %s" % (res["stats_age"], want))
        buckets = {}
        for r in qd:
            buckets.setdefault((r["route"], r["target"]), []).append(r)
        top = sorted(buckets.items(), key=lambda kv: (-len(kv[1]), kv[0][0], kv[0][1]))[:10]
        want_top = [[k[0], k[1], str(len(v))] + [str(x) for x in figures(v)] for k, v in top]
        if (res.get("stats_top") or []) != want_top:
            probs.append("Stats top backlog buckets %s; the stored queued rows give %s" % (res.get("stats_top"), want_top))
    cnt = st.get("counters")
    if cnt:
        q = sum(1 for r in st["snap"] if r["state"] == "queued")
        l = sum(1 for r in st["snap"] if r["state"] == "leased")
        if [q, l] != cnt:
            probs.append("queue_counters %r != actual [%d, %d]" % (cnt, q, l))
    return probs


HEADER = """From Coq Require Import List ZArith NArith Bool.
From HK Require Import Model.Queue Model.QueueHash Model.QueueMon.
Import ListNotations.
Open Scope Z_scope.
"""


def run_impl(ctx, hbin, histories, backends=("memory", "sqlite"), par=16):
    rc, out, err = C.harness_run(hbin, ["queue"], {"dir": os.path.join(ctx.scratch, "qdb"), "backends": list(backends),
                                                   "histories": histories, "par": par}, timeout=3000)
    if rc != 0:
        raise RuntimeError("queue harness failed: " + err[-3000:])
    return json.loads(out)


def eval_model(ctx, cases, tag="q", shard=6):
    """cases: list of dict(flavour, cfg, term, mask).  Returns list of (hashes list, monitor bits) or None per case."""
    bodies = []
    idx = []
    for s in range(0, len(cases), shard):
        chunk = cases[s:s + shard]
        lines = [HEADER]
        for j, c in enumerate(chunk):
            lines.append("Definition h%d := %s." % (j, c["term"]))
            lines.append("Definition m%d : list bool := [%s]." % (j, "; ".join(C.coq_bool(b) for b in c["mask"])))
            lines.append("Definition r%d := Eval vm_compute in check_case %s %s h%d m%d." % (j, c["flavour"], coq_cfg(c["cfg"]), j, j))
            lines.append("Print r%d." % j)
        bodies.append("\n".join(lines) + "\n")
        idx.append(len(chunk))
    results = C.coq_eval_shards(ctx, tag, bodies)
    out = []
    logs = []
    for (rc, txt), n in zip(results, idx):
        if rc != 0:
            logs.append(txt[-2000:])
            out.extend([None] * n)
            continue
        flat = " ".join(txt.split())
        for j in range(n):
            m = re.search(r"r%d = \((.*?)\) : " % j, flat)
            if not m:
                out.append(None)
                continue
            body = m.group(1)
            # (hashes list, monitor list)
            parts = re.findall(r"\[([^\[\]]*)\]", body)
            hashes = [int(x) for x in re.findall(r"-?\d+", parts[0])] if parts else []
            mons = [int(x) for x in re.findall(r"-?\d+", parts[1])] if len(parts) > 1 else []
            out.append((hashes, mons))
    return out, logs
