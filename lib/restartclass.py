"""The push dispatcher is built once at start-up (run.go: buildDispatchRoutes + the egress policy) and never rebuilt by a reload.
A reload that changes anything it is built from must therefore be classified "restart required"; classified as live it would be
reported as applied while deliveries continue under the old retry / signing / egress configuration.  Used by C17 and C18.

Oracle: the textual rendering of what the dispatcher is built from (white-box dump of the real buildDispatchRoutes output and of the
compiled egress policy) under the running and under the new configuration - NOT the classifier's own notion of equality."""
import json

from lib import common as C

BASE = {
    "secrets": [("S1", "raw:alpha", "2026-01-01T00:00:00Z", None), ("S2", "raw:beta", "2026-06-01T00:00:00Z", "2027-06-01T00:00:00Z")],
    "refs": ["S1", "S2"], "selection": "newest_valid", "sig_header": "", "ts_header": "",
    "url": "https://t.example/hook", "retry": "retry exponential max 5 base 2s cap 2m jitter 0.2", "timeout": "10s",
    "second_target": False, "concurrency": "", "egress": ["https_only on", "dns_rebind_protection on"], "other_route_tol": "5m",
}


def render(c):
    out = ["secrets {"]
    for (sid, ref, frm, until) in c["secrets"]:
        out.append('  secret "%s" {\n    value "%s"\n    valid_from "%s"' % (sid, ref, frm))
        if until:
            out.append('    valid_until "%s"' % until)
        out.append("  }")
    out.append("}")
    out.append("defaults {\n  egress {\n" + "".join("    %s\n" % e for e in c["egress"]) + "  }\n}")
    out.append('"/push" {')
    if c["concurrency"]:
        out.append("  deliver_concurrency %s" % c["concurrency"])
    out.append('  deliver "%s" {' % c["url"])
    for r in c["refs"]:
        out.append('    sign hmac secret_ref "%s"' % r)
    if c["selection"]:
        out.append('    sign secret_selection "%s"' % c["selection"])
    if c["sig_header"]:
        out.append('    sign signature_header "%s"' % c["sig_header"])
    if c["ts_header"]:
        out.append('    sign timestamp_header "%s"' % c["ts_header"])
    out.append("    %s\n    timeout %s\n  }" % (c["retry"], c["timeout"]))
    if c["second_target"]:
        out.append('  deliver "https://u.example/second" {}')
    out.append("}")
    out.append('"/in" {\n  auth hmac {\n    secret "raw:k"\n    tolerance %s\n  }\n  pull { path "/pull/in" }\n}' % c["other_route_tol"])
    out.append('pull_api {\n  listen "127.0.0.1:19443"\n  auth token "raw:t"\n}')
    return "\n".join(out) + "\n"


def deltas():
    """(name, mutate(config dict))"""
    def sec(i, **kw):
        def f(c):
            s = list(c["secrets"][i])
            for k, v in kw.items():
                s[{"ref": 1, "frm": 2, "until": 3}[k]] = v
            c["secrets"][i] = tuple(s)
        return f
    return [
        ("open-ended-secret-gains-valid_until", sec(0, until="2026-09-01T00:00:00Z")),
        ("secret-loses-valid_until", sec(1, until=None)),
        ("valid_until-moved", sec(1, until="2028-01-01T00:00:00Z")),
        ("valid_from-moved", sec(1, frm="2026-07-01T00:00:00Z")),
        ("secret-value-changed", sec(0, ref="raw:alpha2")),
        ("secret_ref-dropped", lambda c: c.update(refs=["S1"])),
        ("secret_ref-order-swapped", lambda c: c.update(refs=["S2", "S1"])),
        ("selection-changed", lambda c: c.update(selection="oldest_valid")),
        ("signature-header-renamed", lambda c: c.update(sig_header="X-Sig")),
        ("timestamp-header-renamed", lambda c: c.update(ts_header="X-Ts")),
        ("target-url-changed", lambda c: c.update(url="https://t.example/hook2")),
        ("retry-max-changed", lambda c: c.update(retry="retry exponential max 6 base 2s cap 2m jitter 0.2")),
        ("retry-base-changed", lambda c: c.update(retry="retry exponential max 5 base 3s cap 2m jitter 0.2")),
        ("retry-cap-changed", lambda c: c.update(retry="retry exponential max 5 base 2s cap 3m jitter 0.2")),
        ("retry-jitter-changed", lambda c: c.update(retry="retry exponential max 5 base 2s cap 2m jitter 0.3")),
        ("timeout-changed", lambda c: c.update(timeout="11s")),
        ("second-target-added", lambda c: c.update(second_target=True)),
        ("concurrency-changed", lambda c: c.update(concurrency="3")),
        ("egress-https_only-off", lambda c: c.update(egress=["https_only off", "dns_rebind_protection on"])),
        ("egress-deny-added", lambda c: c.update(egress=["https_only on", "dns_rebind_protection on", 'deny "evil.example"'])),
        ("egress-redirects-on", lambda c: c.update(egress=["https_only on", "dns_rebind_protection on", "redirects on"])),
        ("unrelated-ingress-tolerance", lambda c: c.update(other_route_tol="6m")),       # not dispatcher-relevant: may be applied live
        ("no-change", lambda c: None),
    ]


def run(ctx, info, rng=None, *_):
    import copy
    pairs, names = [], []
    base_text = render(copy.deepcopy(BASE))
    for name, f in deltas():
        c = copy.deepcopy(BASE)
        f(c)
        pairs.append({"running": base_text, "new": render(c)})
        names.append(name + ":forward")
        pairs.append({"running": render(c), "new": base_text})
        names.append(name + ":backward")
    # rule lists that hold the same rule twice (spelled differently) in the RUNNING file, one of the two replaced by a new rule in the new
    # file: same length, every old rule still present - and a different policy
    eg = BASE["egress"]
    dup_pairs = [
        ("egress-deny-duplicate-replaced", eg + ['deny "198.51.100.7"', 'deny "198.51.100.7/32"'], eg + ['deny "198.51.100.7"', 'deny "127.0.0.0/8"']),
        ("egress-deny-same-rule-twice-replaced", eg + ['deny "evil.example"', 'deny "evil.example"'], eg + ['deny "evil.example"', 'deny "worse.example"']),
        ("egress-allow-duplicate-replaced", eg + ['allow "T.example"', 'allow "t.example."'], eg + ['allow "t.example"', 'allow "u.example"']),
        ("egress-deny-mapped-duplicate-replaced", eg + ['deny "10.0.0.0/8"', 'deny "::ffff:10.0.0.0/104"'], eg + ['deny "10.0.0.0/8"', 'deny "192.168.0.0/16"']),
    ]
    for name, run_eg, new_eg in dup_pairs:
        a, b = copy.deepcopy(BASE), copy.deepcopy(BASE)
        a["egress"], b["egress"] = run_eg, new_eg
        pairs.append({"running": render(a), "new": render(b)})
        names.append(name + ":forward")
        pairs.append({"running": render(b), "new": render(a)})
        names.append(name + ":backward")
    rc, out, err = C.harness_run(info["hbin"], ["restart-class"], {"pairs": pairs}, timeout=120)
    if rc != 0:
        raise RuntimeError("restart-class failed: " + err[-1500:])
    res = json.loads(out)["pairs"]
    stats = {"pairs": len(pairs), "dispatcher_relevant": 0, "classified_restart": 0, "not_compiled": 0}
    for name, p, r in zip(names, pairs, res):
        if not (r["running_ok"] and r["new_ok"]):
            stats["not_compiled"] += 1
            C.report(ctx, "restart-class:generator:%s" % name.split(":")[0], "a configuration of the reload-classification family does not compile: %s" % r.get("errors"),
                     {"kind": "program", "case": p, "no_failing_input_found": True, "names": "generator lib/restartclass.py"})
            continue
        differs = r["dump_running"] != r["dump_new"]
        stats["dispatcher_relevant"] += differs
        stats["classified_restart"] += r["requires_restart"]
        if differs and not r["requires_restart"]:
            C.report(ctx, "reload-live-but-dispatcher-stale:%s" % name.split(":")[0],
                     "a reload from the running to the new configuration is classified as applicable live, but the push dispatcher (built once at start-up) "
                     "is built from different values under the two: deliveries would go on with the old ones while the reload is reported as applied",
                     {"kind": "program", "case": {"delta": name, "running_config": p["running"], "new_config": p["new"]},
                      "observed": {"requires_restart": False, "dispatcher_built_from_running": r["dump_running"], "dispatcher_built_from_new": r["dump_new"]}})
    return {"reload_classification": stats}
