"""Shared by props/c08.py and props/c09.py: Hookaidofile builders, request signing
(Python's own hmac/hashlib = third opinion beside Go and the Gallina instance), raw HTTP/1.1
wire encoding, Python twins of the few Go library functions the generator needs to phrase
expectations (path.Clean, CanonicalHeaderKey, strings.TrimSpace), Coq term printers."""
import base64
import hashlib
import hmac as pyhmac

SEC = 1_000_000_000
MAXI64 = (1 << 63) - 1
MINI64 = -(1 << 63)


# --------------------------------------------------------------------------
# Go library twins

def path_clean(p):
    """path.Clean (Go)."""
    if p == "":
        return "."
    rooted = p[0] == "/"
    out = []
    for seg in p.split("/"):
        if seg == "" or seg == ".":
            continue
        if seg == "..":
            if out and out[-1] != "..":
                out.pop()
            elif not rooted:
                out.append("..")
            continue
        out.append(seg)
    s = "/".join(out)
    if rooted:
        return "/" + s
    return s if s else "."


TOKEN_CHARS = set("!#$%&'*+-.^_`|~0123456789abcdefghijklmnopqrstuvwxyzABCDEFGHIJKLMNOPQRSTUVWXYZ")


def canonical_header(name):
    """http.CanonicalHeaderKey for names made of token characters; others are returned unchanged."""
    if name == "" or any(c not in TOKEN_CHARS for c in name):
        return name
    out = []
    up = True
    for c in name:
        out.append(c.upper() if up else c.lower())
        up = c == "-"
    return "".join(out)


SPACE_SEQS = [b"\t", b"\n", b"\x0b", b"\x0c", b"\r", b" ", b"\xc2\x85", b"\xc2\xa0", b"\xe1\x9a\x80",
              b"\xe2\x80\xa8", b"\xe2\x80\xa9", b"\xe2\x80\xaf", b"\xe2\x81\x9f", b"\xe3\x80\x80"] + \
             [bytes([0xe2, 0x80, 0x80 + i]) for i in range(11)]


def trim_space(b):
    """strings.TrimSpace on a byte string (unicode.IsSpace, UTF-8 decoding as Go does)."""
    changed = True
    while changed:
        changed = False
        for s in SPACE_SEQS:
            if b.startswith(s):
                b = b[len(s):]
                changed = True
    changed = True
    while changed:
        changed = False
        for s in SPACE_SEQS:
            if b.endswith(s) and len(b) >= len(s):
                b = b[:len(b) - len(s)]
                changed = True
    return b


# --------------------------------------------------------------------------
# signing

def string_to_sign(ts_text, method, cpath, body):
    if isinstance(ts_text, str):
        ts_text = ts_text.encode("latin-1")
    if isinstance(method, str):
        method = method.encode("latin-1")
    if isinstance(cpath, str):
        cpath = cpath.encode("latin-1")
    return ts_text + b"\n" + method + b"\n" + cpath + b"\n" + hashlib.sha256(body).hexdigest().encode()


def sign(secret, ts_text, method, cpath, body):
    return pyhmac.new(secret, string_to_sign(ts_text, method, cpath, body), hashlib.sha256).hexdigest()


def wire(method, target, headers, body, host="hook.test", content_length=True, version="HTTP/1.1"):
    """Raw request bytes.  headers: list of (name, value) as bytes or str (latin-1)."""
    def b(x):
        return x if isinstance(x, bytes) else x.encode("latin-1")
    lines = [b(method) + b" " + b(target) + b" " + b(version)]
    if host is not None:
        lines.append(b"Host: " + b(host))
    for k, v in headers:
        lines.append(b(k) + b": " + b(v))
    if content_length is True:
        lines.append(b"Content-Length: " + str(len(body)).encode())
    elif content_length is not None and content_length is not False:
        lines.append(b"Content-Length: " + str(content_length).encode())
    lines.append(b"Connection: close")
    return b"\r\n".join(lines) + b"\r\n\r\n" + body


def b64(b):
    return base64.b64encode(b).decode()


def basic_header(user, password):
    if isinstance(user, str):
        user = user.encode()
    if isinstance(password, str):
        password = password.encode()
    return "Basic " + base64.b64encode(user + b":" + password).decode()


# --------------------------------------------------------------------------
# Hookaidofile builders

PRELUDE = """ingress {
  listen ":18080"
}
pull_api {
  listen ":19443"
  auth token "raw:verif-token"
}
"""


def rfc3339(unix_s):
    import datetime
    return datetime.datetime.fromtimestamp(unix_s, datetime.timezone.utc).strftime("%Y-%m-%dT%H:%M:%SZ")


def secrets_block(versions):
    """versions: list of dict(id, value(ref), valid_from(unix s), valid_until(unix s or None))."""
    if not versions:
        return ""
    out = ["secrets {"]
    for v in versions:
        out.append('  secret "%s" {' % v["id"])
        out.append('    value "%s"' % v["value"])
        out.append('    valid_from "%s"' % rfc3339(v["valid_from"]))
        if v.get("valid_until") is not None:
            out.append('    valid_until "%s"' % rfc3339(v["valid_until"]))
        out.append("  }")
    out.append("}")
    return "\n".join(out) + "\n"


def hmac_block(secrets=(), secret_refs=(), sig=None, ts=None, nonce=None, tolerance=None):
    out = ["  auth hmac {"]
    for s in secrets:
        out.append('    secret "%s"' % s)
    for s in secret_refs:
        out.append('    secret_ref "%s"' % s)
    if sig:
        out.append('    signature_header "%s"' % sig)
    if ts:
        out.append('    timestamp_header "%s"' % ts)
    if nonce:
        out.append('    nonce_header "%s"' % nonce)
    if tolerance:
        out.append("    tolerance %s" % tolerance)
    out.append("  }")
    return "\n".join(out) + "\n"


def route_block(path, auth="", pull=True, delivers=(), extra=""):
    out = ['"%s" {\n' % path, auth, extra]
    if pull:
        out.append('  pull { path "/pull%s" }\n' % path.replace("/", "_"))
    for d in delivers:
        out.append('  deliver "%s" {}\n' % d)
    out.append("}\n")
    return "".join(out)


# --------------------------------------------------------------------------
# Coq printers

def cb(b):
    """bytes -> Coq list N"""
    if isinstance(b, str):
        b = b.encode("latin-1")
    return "[" + ";".join(str(x) for x in b) + "]%N"


def cz(n):
    return "(%d)%%Z" % n


def cbool(x):
    return "true" if x else "false"


def clist(items):
    return "[" + "; ".join(items) + "]"


# --------------------------------------------------------------------------
# Coq source printers with interning of byte strings (keeps the case files small)

class Intern:
    def __init__(self):
        self.tab = {}
        self.defs = []

    def b(self, x):
        if isinstance(x, str):
            x = x.encode("latin-1")
        x = bytes(x)
        if len(x) <= 2:
            return cb(x) if x else "(@nil N)"
        n = self.tab.get(x)
        if n is None:
            n = "b%d" % len(self.tab)
            self.tab[x] = n
            self.defs.append("Definition %s : list N := %s." % (n, cb(x)))
        return n

    def preamble(self):
        return "\n".join(self.defs)


def header_map(pairs):
    """[(name, value)] as written -> ordered [(canonical key, [values])] (what net/http's Header holds;
    the model looks keys up by equality, so the order of keys is irrelevant)."""
    out = {}
    for k, v in pairs:
        if isinstance(k, bytes):
            k = k.decode("latin-1")
        if isinstance(v, str):
            v = v.encode("latin-1")
        out.setdefault(canonical_header(k), []).append(v)
    return list(out.items())


def coq_headers(I, hmap):
    return clist("(%s, %s)" % (I.b(k), clist(I.b(v) for v in vs)) for k, vs in hmap)


def coq_hreq(I, method, cpath, hmap, body):
    return "{| q_method := %s; q_path := %s; q_headers := %s; q_body := %s |}" % (
        I.b(method), I.b(cpath), coq_headers(I, hmap), I.b(body))


def coq_version(I, v):
    return "{| v_value := %s; v_from := %s; v_until := %s |}" % (
        I.b(v["value"]), cz(v["from"]), "None" if v.get("until") is None else "(Some %s)" % cz(v["until"]))


def coq_hmac_cfg(I, cfg):
    """cfg: dict(sig, ts, nonce (canonical names), tol (ns), static [bytes], versions [dict(value, from, until)])"""
    return ("{| h_sig := %s; h_ts := %s; h_nonce := %s; h_tol := %s; h_static := %s; h_versions := %s |}" % (
        I.b(cfg["sig"]), I.b(cfg["ts"]), I.b(cfg["nonce"]), cz(cfg["tol"]),
        clist(I.b(s) for s in cfg["static"]), clist(coq_version(I, v) for v in cfg.get("versions", []))))


def nonce_weight(n):
    return 1 + sum((i + 1) * (b + 1) for i, b in enumerate(n))


def cache_checksum(entries):
    """entries: iterable of (nonce bytes, expiry ns); twin of AuthEval.cache_checksum"""
    return sum(nonce_weight(n) * e for n, e in entries)


def parse_rows(out, marker):
    """'<marker> = [(a, b, c); ...] : list ...' or '[a; b]' printed by coqc -> list of int tuples"""
    import re
    flat = " ".join(out.split())
    m = re.search(r"\b" + re.escape(marker) + r"\s*=\s*(\[.*?\])\s*:\s*list", flat)
    if not m:
        return None
    body = m.group(1)
    if "(" in body:
        return [tuple(int(x) for x in re.findall(r"-?\d+", part)) for part in re.findall(r"\(([^()]*)\)", body)]
    return [(int(x),) for x in re.findall(r"-?\d+", body)]
