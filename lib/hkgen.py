"""Grammar-directed generator of Hookaidofiles for the C19 check (props/c19.py).
Every choice comes from the random.Random passed in.  Texts are bytes."""
from lib.hkgrammar import SPEC, TOP_BLOCKS, RETRY_WORDS

UNSAFE = set(b' \t\n\r{}"#')

BOOL = [b'on', b'off', b'true', b'false', b'1', b'0', b'ON', b'Off', b'True']
DUR = [b'1s', b'5s', b'10s', b'30s', b'1m', b'5m', b'2h', b'500ms', b'1h30m', b'90s']
DURD = DUR + [b'7d', b'30d', b'1d', b'24h']
DUR0 = DURD + [b'0', b'off']
INT = [b'1', b'2', b'3', b'5', b'10', b'20', b'50', b'100', b'1000', b'10000']
PCT = [b'1', b'10', b'20', b'50', b'75', b'80', b'100']
SIZE = [b'2mb', b'64kb', b'1MB', b'512', b'1048576', b'10k', b'1g', b'8192b', b'16KB']
REFS = [b'env:HK_TOKEN', b'env:HK_TOKEN2', b'env:HOOKAIDO_PULL_TOKEN', b'raw:s3cr3t', b'raw:a b', b'raw:x"y',
        b'file:/etc/hk/token', b'file:C:\\hk\\token.txt', b'vault:secret/data/hk#token', b'raw:{$HK_A}',
        b'{$HK_REF}', b'{env.HK_REF}', b'{$HK_UNSET:raw:dflt}', b'{file.%FILE%}',
        b'raw:s3cr%t', b'raw:100%%', b'raw:tok%den']
URLS = [b'https://ci.internal/build', b'https://billing.internal/stripe', b'http://10.0.0.1:8080/x?y=1&z=2',
        b'https://hooks.example.com/a/b', b'https://{$HK_HOST}/hook', b'https://example.com/p#frag',
        b'https://example.com/with space', b'https://ex\xc3\xa4mple.com/\xc3\xbc', b'http://[::1]:9000/v6',
        b'https://a.example/1', b'https://a.example/2', b'https://a.example/3',
        b'https://a.example/p%20q', b'https://a.example/100%25?x=%s']
PATHS_ROUTE = [b'/webhooks/github', b'/webhooks/stripe', b'/a', b'/b', b'/jobs/deploy', b'/jobs/report', b'/x/y/z',
               b'/with space', b'/\xc3\xbcber', b'/hash#tag', b'/q"uote', b'/back\\slash', b'/{$HK_A}/hook',
               b'/brace{x}', b'/semi;colon', b'/webhooks/github/', b'/A', b'/v1.0/hook-2_x~']
PATHS_PULL = [b'/pull/github', b'/pull/stripe', b'/pull/a', b'/pull/b', b'/p', b'/pull/reports', b'/pull/x y',
              b'/{$HK_A}', b'/pull/\xc3\xa9', b'/q1', b'/q2', b'/q3']
FILES = [b'/etc/hk/cert.pem', b'/etc/hk/key.pem', b'/etc/hk/ca.pem', b'C:\\certs\\key.pem', b'/path with space/x.pem',
         b'./rel/cert.pem', b'{$HK_A}/cert.pem', b'/var/log/hk/access.log']
HOSTS = [b'hooks.example.com', b'*.example.com', b'example.com:8443', b'EXAMPLE.com', b'localhost', b'10.0.0.7']
METHODS = [b'POST', b'GET', b'put', b'PATCH', b'DELETE', b'Head']
HDRN = [b'X-GitHub-Event', b'Content-Type', b'X-Hub-Signature-256', b'x-lower', b'Authorization', b'X-A']
HDRV = [b'push', b'application/json', b'Bearer token', b'a,b', b'v=1;x', b'\xc3\xa9', b'50%', b'%v']
IPS = [b'203.0.113.0/24', b'10.0.0.1', b'2001:db8::/32', b'::1', b'192.168.0.0/16']
EGRESS = [b'*.internal.example.com', b'169.254.0.0/16', b'example.com', b'10.0.0.5', b'fd00::/8', b'api.github.com']
LABELS = [b'github', b'push-events', b'a.b:c-1', b'billing', b'ep_1', b'App2', b'x']
SECIDS = [b'S1', b'S2', b'S3', b'key-2026', b'rot.a']
STAMPS = [b'2026-01-01T00:00:00Z', b'2026-06-01T12:30:00+02:00', b'2025-12-31T23:59:59.5Z']
STAMPS_LATE = [b'2027-01-01T00:00:00Z', b'2030-06-01T00:00:00Z']
VARN = [b'BASE_URL', b'X1', b'PULL_ENDPOINT', b'_u', b'TARGET']
VARV = [b'https://internal.example.com', b'/pull/github', b'a b', b'{$HK_A}', b'plain', b'']
ACTORS = [b'ci-bot', b'deploy-', b'ops@example.com', b'svc:hook']
NAMES_M = [b'github-push', b'm1', b'only.post', b'ip_allow', b'M-2']
LISTEN = {'ingress': [b':8080', b'0.0.0.0:18080', b'127.0.0.1:8081', b'{$HK_LISTEN}', b'{$HK_UNSET::7070}', b'[::1]:8082'],
          'pull_api': [b':9443', b'127.0.0.1:9444', b'0.0.0.0:9445'],
          'admin_api': [b'127.0.0.1:2019', b':2020', b'127.0.0.1:2021'],
          'metrics': [b':9900', b'127.0.0.1:9901'],
          'grpc': [b'127.0.0.1:9943', b':9944']}
PREFIX = {'pull_api': [b'/pull', b'/p', b'/api/pull'], 'admin_api': [b'/admin', b'/a', b'/api/admin'],
          'metrics': [b'/metrics', b'/m']}

WEIRD = [b'', b'', b' ', b'\t', b'  ', b'a b', b'x#y', b'{foo}', b'{', b'}', b'"', b'\\', b'a"b\\c', b'line1\nline2',
         b'tab\there', b'cr\rhere', b'\xc3\xa9t\xc3\xa9', b'\xe6\x97\xa5\xe6\x9c\xac', b'\xf0\x9f\x98\x80', b'\xef\xbf\xbd',
         b'{$HK_UNSET}', b'{$HK_UNSET:dflt}', b'{$HK_BLANK}', b'{$}', b'{env.}', b'{file.}', b'{file./nonexistent/hk}',
         b'{vars.BASE_URL}', b'{vars.NOPE}', b'x{vars.X1}y', b'secret_ref', b'max', b'@x', b'/x', b'-', b'0', b'-1',
         b'NaN', b'1e3', b'99999999999999999999', b'{$HK_A}{$HK_A}', b'{$HK_A}x', b'pre{$HK_A}', b'{env.HK_A}',
         b'on;', b'\\n', b'#', b' lead', b'trail ', b'\xc2\xa0', b'\xe2\x80\xa8', b'deny', b'allow', b'retry', b'sign',
         b'method', b'host', b'secret', b'token', b'{$HK_A', b'$HK_A}', b'{{x}}', b'{"}', b'{#}',
         b'\x0b', b'\x0c', b'\xc2\x85', b'\xe3\x80\x80', b'\xe2\x80\x83\xc2\xa0', b'a\xc2\xa0b', b'\xe2\x80\x8b',
         b'%', b'%s', b'100%', b'%%', b'%[1]s', b'%!d(MISSING)', b'a%20b']
# unquoted spellings with an undecodable byte after the first rune: the lexer lets them through
RAW_INVALID = [b'a\xffb', b'x\xc3', b'/p\xfe', b'env:T\x80']


def is_placeholder(v):
    if not (v.startswith(b'{$') or v.startswith(b'{env.') or v.startswith(b'{file.')):
        return False
    if not v.endswith(b'}') or v.count(b'}') != 1:
        return False
    inner = v[1:-1]
    return not any(c in b' \t\n\r{' for c in inner) and _utf8_ok(v)


def _utf8_ok(v):
    try:
        v.decode('utf-8')
        return True
    except UnicodeDecodeError:
        return False


def can_unquoted(v):
    if not v:
        return False
    if is_placeholder(v):
        return True
    if any(c in UNSAFE for c in v):
        return False
    return _utf8_ok(v)


def quote(rng, v, fancy=True):
    out = bytearray(b'"')
    for c in v:
        ch = bytes([c])
        if ch == b'\\':
            out += b'\\\\'
        elif ch == b'"':
            out += b'\\"'
        elif ch == b'\n':
            out += b'\\n'
        elif ch == b'\r':
            out += b'\\r'
        elif ch == b'\t':
            out += b'\\t' if (not fancy or rng.random() < 0.7) else b'\t'
        elif fancy and c < 0x80 and ch not in b'ntr' and ch.isalnum() and rng.random() < 0.01:
            out += b'\\' + ch          # unknown escape: kept as the character itself
        else:
            out += ch
    out += b'"'
    return bytes(out)


class Item:
    __slots__ = ('toks', 'kind')

    def __init__(self, toks, kind):
        self.toks = list(toks)     # spellings (bytes)
        self.kind = kind           # 'dir' (may end with b'{'), 'close', 'comment'

    def copy(self):
        return Item(self.toks, self.kind)


COMMENTS = [b'# comment', b'#', b'#no space', b'# with "quote" and {brace}', b'# \xc3\xbcber', b'## double',
            b'# trailing space ', b'# tab\there', b'# bad byte \xff here', b'# {$HK_A}']


class Gen:
    def __init__(self, rng, file_path=b'/dev/null', wild=None):
        self.r = rng
        self.items = []
        self.file_path = file_path
        self.wild = (rng.random() < 0.3) if wild is None else wild
        self.p_weird = 0.22 if self.wild else 0.03
        self.p_quote = rng.choice([0.0, 0.3, 0.3, 0.5, 1.0])
        self.budget = rng.choice([1, 2, 3, 4, 6, 8, 10, 14, 18, 24, 30, 36, 40])
        self.used = {}
        self.matchers = []
        self.secret_ids = []
        self.need_secrets = False
        self.backend = rng.choice([None, None, b'sqlite', b'memory', b'postgres'])
        self.has_pull = False

    # ---- emission
    def d(self, *toks):
        self.items.append(Item(toks, 'dir'))
        self.budget -= 1

    def close(self):
        self.items.append(Item([b'}'], 'close'))

    def maybe_comment(self):
        if self.r.random() < 0.08:
            self.items.append(Item([self.r.choice(COMMENTS)], 'comment'))

    # ---- values
    def spell(self, v, force_quote=False):
        if v in RAW_INVALID:
            return v
        if not force_quote and can_unquoted(v) and self.r.random() >= self.p_quote:
            return v
        return quote(self.r, v)

    def fresh(self, key, pool):
        """a value from pool not used before under key (falls back to reuse)"""
        seen = self.used.setdefault(key, set())
        cands = [p for p in pool if p not in seen]
        v = self.r.choice(cands or pool)
        seen.add(v)
        return v

    def raw_value(self, blk, name, j=0):
        r = self.r
        if r.random() < self.p_weird:
            if r.random() < 0.1:
                return r.choice(RAW_INVALID)
            if r.random() < 0.15:
                return r.choice(sorted(SPEC.get(blk, {'x': 0}).keys())).encode()
            return r.choice(WEIRD)
        return self.valid_value(blk, name, j)

    def valid_value(self, blk, name, j=0):
        r = self.r
        n = name.split(' ')[-1] if not name.startswith('retry') else name
        if name in ('listen',):
            return self.fresh('listen', LISTEN.get(blk, LISTEN['ingress']))
        if name == 'grpc_listen':
            return self.fresh('listen', LISTEN['grpc'])
        if name == 'prefix':
            return r.choice(PREFIX.get(blk, PREFIX['metrics']))
        if name in ('auth token', 'auth hmac', 'sign hmac', 'value', 'secret'):
            return r.choice(REFS).replace(b'%FILE%', self.file_path)
        if name in ('auth hmac secret_ref', 'sign hmac secret_ref', 'secret_ref'):
            self.need_secrets = True
            return r.choice(SECIDS[:3])
        if name.startswith('auth basic'):
            return r.choice([b'user', b'admin', b'u2', b'bob'] if j == 0 else [b'pass', b'p w', b'{$HK_A}', b's3"cr\\et'])
        if name == 'auth forward':
            return r.choice([b'https://auth.example/check', b'http://127.0.0.1:9000/verify'])
        if name == 'deliver':
            return self.fresh('deliver', URLS)
        if name in ('cert_file', 'key_file', 'client_ca', 'ca_file'):
            return r.choice(FILES)
        if name == 'client_auth':
            return r.choice([b'none', b'request', b'require', b'verify_if_given', b'require_and_verify', b'require_any', b'off'])
        if name in ('rps',):
            return r.choice([b'100', b'50', b'0.5', b'1e2', b'10.25'])
        if name in ('burst', 'max_batch', 'concurrency', 'deliver_concurrency', 'max_depth', 'min_total', 'retry max',
                    'stale_grace_factor', 'sustained_growth_consecutive', 'sustained_growth_min_samples',
                    'sustained_growth_min_delta', 'recent_surge_min_total', 'recent_surge_min_delta',
                    'dead_share_high_min_total', 'queued_pressure_min_total', 'queued_pressure_leased_multiplier'):
            return r.choice(INT)
        if name in ('recent_surge_percent', 'dead_share_high_percent', 'queued_pressure_percent', 'queued_percent'):
            return r.choice(PCT)
        if name in ('max_body', 'max_headers', 'body_limit'):
            return r.choice(SIZE)
        if name in ('max_age',):
            return r.choice(DUR0 if blk != 'queue_retention' else DURD)
        if name in ('prune_interval', 'window', 'expected_capture_interval', 'ready_lag', 'oldest_queued_age', 'timeout',
                    'tolerance', 'default_lease_ttl', 'initial_interval', 'max_interval', 'max_elapsed_time',
                    'retry base', 'retry cap'):
            return r.choice(DUR)
        if name == 'max_lease_ttl':
            return r.choice([b'5m', b'10m', b'1h'])
        if name in ('default_max_wait', 'max_wait'):
            return r.choice([b'0', b'5s', b'30s'])
        if name == 'retry type':
            return r.choice([b'exponential', b'exponential', b'Exponential', b'linear'])
        if name == 'retry jitter':
            return r.choice([b'0.2', b'0', b'1', b'0.05', b'.5'])
        if name in ('https_only', 'redirects', 'dns_rebind_protection', 'direct', 'managed', 'allow_pull_routes',
                    'allow_deliver_routes', 'require_actor', 'require_request_id', 'fail_closed', 'enabled',
                    'sustained_growth', 'insecure', 'insecure_skip_verify', 'publish', 'publish.direct',
                    'publish.managed', 'metrics', 'tracing', 'access_log'):
            return r.choice(BOOL)
        if name in ('allow', 'deny'):
            return r.choice(EGRESS)
        if name == 'actor_allow':
            return r.choice(ACTORS)
        if name == 'actor_prefix':
            return r.choice(ACTORS)
        if name == 'drop_policy':
            return r.choice([b'reject', b'drop_oldest', b'Reject'])
        if name in ('queue', 'backend'):
            return self.backend or r.choice([b'sqlite', b'memory'])
        if name == 'runtime_log' or name == 'level':
            return r.choice([b'debug', b'info', b'warn', b'warning', b'error', b'off', b'INFO'])
        if name == 'output':
            return r.choice([b'stdout', b'stderr', b'file'])
        if name == 'path' and blk in ('access_log', 'runtime_log'):
            return r.choice(FILES)
        if name == 'path':
            return self.fresh('pullpath', PATHS_PULL)
        if name == 'format':
            return r.choice([b'json', b'JSON', b'text'])
        if name == 'collector':
            return r.choice([b'https://otel.example.com/v1/traces', b'http://127.0.0.1:4318'])
        if name == 'url_path':
            return r.choice([b'/v1/traces', b'/t'])
        if name == 'compression':
            return r.choice([b'gzip', b'none'])
        if name == 'proxy_url':
            return r.choice([b'http://proxy.internal:3128', b'https://p.example'])
        if name == 'server_name':
            return r.choice([b'otel.example.com', b'localhost'])
        if name in ('header', 'query'):
            return r.choice(HDRN if j == 0 else HDRV)
        if name in ('header_exists', 'signature_header', 'timestamp_header', 'nonce_header', 'copy_headers',
                    'sign signature_header', 'sign timestamp_header'):
            if name.endswith('signature_header'):
                return r.choice([b'X-Signature', b'X-Sig', b'X-Hookaido-Signature'])
            if name.endswith('timestamp_header'):
                return r.choice([b'X-Timestamp', b'X-Ts'])
            if name == 'nonce_header':
                return r.choice([b'X-Nonce', b'X-N'])
            return r.choice(HDRN)
        if name == 'query_exists':
            return r.choice([b'token', b'env', b'a[]'])
        if name == 'method':
            return r.choice(METHODS)
        if name == 'host':
            return r.choice(HOSTS)
        if name == 'remote_ip':
            return r.choice(IPS)
        if name == 'sign secret_selection' or name == 'secret_selection':
            return r.choice([b'newest_valid', b'oldest_valid', b'Newest_Valid'])
        if name in ('application', 'endpoint_name'):
            return self.fresh(name, LABELS)
        if name == 'valid_from':
            return r.choice(STAMPS)
        if name == 'valid_until':
            return r.choice(STAMPS_LATE)
        return r.choice([b'x', b'value', b'1'])

    def val(self, blk, name, j=0, first=True):
        v = self.raw_value(blk, name, j)
        # an unquoted directive keyword in a non-first position of a multi-value list would end the list
        force = (not first) and v.decode('latin1') in SPEC.get(blk, {})
        return self.spell(v, force_quote=force)

    # ---- table-driven bodies
    def body(self, blk, must=(), avoid=(), p=None):
        """emit directives of block blk in random order, then '}'"""
        r = self.r
        spec = SPEC[blk]
        names = list(spec.keys())
        if p is None:
            p = min(0.9, max(0.12, (2.5 if self.budget > 6 else 1.0) / max(1, len(names))))
        chosen = [n for n in names if n not in avoid and (n in must or (self.budget > 0 and r.random() < p))]
        if not self.wild:
            chosen = self.coherent(blk, chosen)
        r.shuffle(chosen)
        # repeatable directives sometimes twice; unique ones duplicated rarely in wild mode (=> parse error)
        out = []
        for n in chosen:
            out.append(n)
            e = spec[n]
            rep = e[0] in ('vr', 'm', 'nb') or (e[0] == 'sub' and n in ('auth', 'sign'))
            if rep and r.random() < 0.3:
                out.append(n)
            elif (not rep) and self.wild and r.random() < 0.01:
                out.append(n)
        r.shuffle(out)
        for n in out:
            self.maybe_comment()
            self.entry(blk, n, spec[n])
        self.maybe_comment()
        self.close()

    def coherent(self, blk, chosen):
        s = set(chosen)
        if blk == 'tls':
            s |= {'cert_file', 'key_file'}
            if 'client_auth' in s:
                s.add('client_ca')
        if blk == 'rate_limit':
            s.add('rps')
        if blk in ('access_log', 'runtime_log'):
            s.discard('path')
        if blk == 'secret':
            s |= {'value', 'valid_from'}
        if blk == 'pull_api':
            s.add('auth')
            s.discard('grpc_listen') if not self.has_pull else None
        if blk == 'queue':
            s.add('backend')
        if blk == 'deliver':
            pass
        return [n for n in SPEC[blk] if n in s]

    def entry(self, blk, name, e, sub=None):
        r = self.r
        t = e[0]
        if t in ('v', 'vr'):
            vals = [self.val(blk, name, j) for j in range(e[1])]
            if not self.wild and blk in ('access_log', 'runtime_log') and name == 'output' and vals[0].strip(b'"') == b'file':
                self.d(name.encode(), *vals) if sub is None else self.d(*sub, *vals)
                self.d(b'path', self.spell(r.choice(FILES)))
                return
            self.d(*(sub or [name.encode()]), *vals)
        elif t == 'm':
            groups = r.choice([1, 1, 1, 2, 3])
            vals = []
            for g in range(groups):
                for j in range(e[1]):
                    vals.append(self.val(blk, name, j, first=(g == 0 and j == 0)))
            if groups > 1 and r.random() < 0.3:
                # a keyword-valued value, quoted so that it stays a value
                kw = r.choice(sorted(SPEC[blk].keys())).encode()
                vals[r.randrange(e[1], len(vals))] = quote(r, kw, fancy=False)
            if r.random() < 0.12:
                # a value that only survives quoted
                vals[r.randrange(len(vals))] = quote(r, r.choice([b'a b', b'x #y', b'{', b'}', b'p"q', b'b\\s', b'two  blanks']))
            self.d(name.encode(), *vals)
        elif t == 'b':
            self.d(name.encode(), b'{')
            self.body(e[1])
        elif t == 'vb':
            if r.random() < 0.5:
                self.d(name.encode(), self.val(blk, name))
            else:
                self.d(name.encode(), b'{')
                self.body(e[2])
        elif t == 'nb':
            self.d(*(sub or [name.encode()]), self.val(blk, name), b'{')
            self.body(e[2])
        elif t == 'nob':
            if r.random() < 0.5:
                self.d(*sub, self.val(blk, name))
            else:
                self.d(*sub, self.val(blk, name), b'{')
                self.body(e[2])
        elif t == 'sub':
            w = r.choice(sorted(e[1].keys()))
            self.entry(blk, '%s %s' % (name, w), e[1][w], sub=[name.encode(), w.encode()])
        elif t == 'retry':
            toks = [b'retry', self.val(blk, 'retry type')]
            words = [w for w in RETRY_WORDS if r.random() < 0.5]
            if r.random() < 0.3:
                r.shuffle(words)
            for w in words:
                toks += [w.encode(), self.val(blk, 'retry ' + w)]
            self.d(*toks)
        elif t == 'match':
            if self.matchers and r.random() < 0.4:
                refs = [b'@' + r.choice(self.matchers) for _ in range(r.choice([1, 1, 2]))]
                self.d(b'match', *refs)
            else:
                self.d(b'match', b'{')
                self.body('match')
        elif t == 'hmac':
            how = r.randrange(5)
            if how == 0:
                self.d(*sub, b'{')
                self.body('auth hmac', must=('secret',) if not self.wild else ())
            else:
                toks = list(sub)
                if r.random() < 0.3:
                    toks.append(b'secret_ref')
                    toks.append(self.val(blk, 'auth hmac secret_ref'))
                else:
                    toks.append(self.val(blk, 'auth hmac'))
                if how == 1:
                    self.d(*toks, b'{')
                    self.body('auth hmac', avoid=('secret', 'secret_ref') if r.random() < 0.6 else ())
                else:
                    self.d(*toks)
        elif t == 'signhmac':
            if r.random() < 0.4:
                n = r.choice([1, 1, 2, 3])
                seen = []
                for _ in range(n):
                    v = self.val(blk, 'sign hmac secret_ref', first=not seen)
                    seen.append(v)
                self.d(*sub, b'secret_ref', *seen)
            else:
                self.d(*sub, self.val(blk, 'sign hmac'))

    # ---- routes
    def route_head(self, path=None):
        r = self.r
        v = path if path is not None else self.fresh('route', PATHS_ROUTE)
        if r.random() < self.p_weird / 2:
            v = r.choice(WEIRD + [b'noslash', b'/'])
        if can_unquoted(v) and v.startswith(b'/') and r.random() >= self.p_quote:
            return v
        return quote(r, v)

    def route(self, channel, prefix=()):
        r = self.r
        self.maybe_comment()
        self.d(*prefix, self.route_head(), b'{')
        if self.wild:
            self.body('route')
            return
        spec = SPEC['route']
        plan = []
        mode = 'deliver' if channel == 'outbound' else 'pull' if channel == 'internal' else r.choice(['pull', 'deliver'])
        inbound = channel in (None, 'inbound')
        if r.random() < 0.3:
            plan += ['application', 'endpoint_name']
        if inbound and r.random() < 0.45:
            plan.append('match')
            if self.matchers and r.random() < 0.3:
                plan.append('match')
        if inbound and r.random() < 0.25:
            plan.append('rate_limit')
        authfam = r.choice(['none', 'none', 'basic', 'hmac', 'hmac', 'forward']) if inbound else 'none'
        if self.backend is not None and r.random() < 0.7:
            plan.append('queue')
        for n in ('max_body', 'max_headers'):
            if r.random() < 0.2:
                plan.append(n)
        pub = r.choice(['none', 'none', 'short', 'block', 'dot', 'dot2'])
        if mode == 'deliver' and r.random() < 0.3:
            plan.append('deliver_concurrency')
        plan.append(mode)
        if mode == 'deliver' and r.random() < 0.3:
            plan.append('deliver')
        r.shuffle(plan)
        extra = []
        if authfam == 'basic':
            extra = ['auth basic'] * r.choice([1, 1, 2])
        elif authfam == 'hmac':
            extra = ['auth hmac'] * r.choice([1, 1, 2])
        elif authfam == 'forward':
            extra = ['auth forward']
        if pub == 'short':
            extra.append('pub short')
        elif pub == 'block':
            extra.append('pub block')
        elif pub in ('dot', 'dot2'):
            extra.append('publish.direct')
            if pub == 'dot2':
                extra.append('publish.managed')
        for x in extra:
            plan.insert(r.randrange(len(plan) + 1), x)
        for n in plan:
            self.maybe_comment()
            if n == 'pull':
                self.has_pull = True
                self.d(b'pull', b'{')
                self.body('pull', must=('path',), p=0.35)
            elif n == 'auth basic':
                self.entry('route', 'auth basic', ('vr', 2), sub=[b'auth', b'basic'])
            elif n == 'auth hmac':
                self.entry('route', 'auth hmac', ('hmac',), sub=[b'auth', b'hmac'])
            elif n == 'auth forward':
                self.entry('route', 'auth forward', ('nob', 1, 'auth forward'), sub=[b'auth', b'forward'])
            elif n == 'pub short':
                self.d(b'publish', self.val('route', 'publish'))
            elif n == 'pub block':
                self.d(b'publish', b'{')
                self.body('publish')
            elif n == 'queue':
                if r.random() < 0.5:
                    self.d(b'queue', self.val('route', 'queue'))
                else:
                    self.d(b'queue', b'{')
                    self.body('queue')
            else:
                self.entry('route', n, spec[n])
        self.maybe_comment()
        self.close()

    # ---- whole program
    def program(self):
        r = self.r
        if r.random() < 0.25:
            for _ in range(r.choice([1, 2, 3])):
                self.items.append(Item([r.choice(COMMENTS)], 'comment'))
        n_routes = r.choice([0, 1, 1, 1, 2, 2, 3, 4]) if self.budget > 3 else r.choice([0, 1, 1])
        if not self.wild and n_routes == 0 and r.random() < 0.8:
            n_routes = 1
        n_match = r.choice([0, 0, 1, 2]) if self.budget > 2 else 0
        tops = [b for b in TOP_BLOCKS if r.random() < (0.3 if self.budget > 8 else 0.12)]
        # decide matcher names up-front so that routes can reference them wherever they are defined
        self.matchers = [self.fresh('matcher', NAMES_M) for _ in range(n_match)]
        elements = [('block', b) for b in tops] + [('matcher', m) for m in self.matchers]
        # routes, grouped into channel wrappers now and then
        i = 0
        while i < n_routes:
            ch = r.choice([None, None, None, 'inbound', 'outbound', 'internal'])
            if ch is not None and r.random() < 0.5:
                k = min(n_routes - i, r.choice([1, 2, 2, 3]))
                elements.append(('wrapper', ch, k))
                i += k
            else:
                elements.append(('route', ch))
                i += 1
        r.shuffle(elements)
        # pull_api goes last in coherent mode when a pull route needs it (its position is irrelevant)
        deferred = []
        for el in elements:
            if el[0] == 'block' and el[1] in ('pull_api', 'secrets') and not self.wild:
                deferred.append(el)
                continue
            self.element(el)
        if not self.wild:
            if self.has_pull and ('block', 'pull_api') not in deferred and r.random() < 0.92:
                deferred.append(('block', 'pull_api'))
            if self.need_secrets and ('block', 'secrets') not in deferred and r.random() < 0.92:
                deferred.append(('block', 'secrets'))
            for el in deferred:
                self.element(el)
        if r.random() < 0.1:
            self.items.append(Item([r.choice(COMMENTS)], 'comment'))
        return self.items

    def element(self, el):
        r = self.r
        self.maybe_comment()
        if el[0] == 'block':
            b = el[1]
            self.d(b.encode(), b'{')
            if b == 'vars':
                for _ in range(r.choice([0, 1, 2, 3])):
                    nm = self.fresh('var', VARN) if r.random() > self.p_weird else r.choice(WEIRD)
                    vv = r.choice(VARV) if r.random() > self.p_weird else r.choice(WEIRD)
                    self.d(self.spell(nm), self.spell(vv))
                self.close()
            elif b == 'secrets':
                ids = list(SECIDS[:3]) if self.need_secrets else [self.fresh('secid', SECIDS) for _ in range(r.choice([1, 2]))]
                for sid in ids:
                    if r.random() < self.p_weird:
                        sid = r.choice(WEIRD)
                    self.d(b'secret', self.spell(sid, force_quote=r.random() < 0.6), b'{')
                    self.body('secret')
                self.close()
            else:
                self.body(b)
        elif el[0] == 'matcher':
            self.d(b'@' + el[1], b'{')
            self.body('match', p=0.3)
        elif el[0] == 'route':
            ch = el[1]
            self.route(ch, prefix=(ch.encode(),) if ch else ())
        elif el[0] == 'wrapper':
            ch, k = el[1], el[2]
            self.d(ch.encode(), b'{')
            for _ in range(k):
                self.route(ch)
            self.maybe_comment()
            self.close()


# ---------------------------------------------------------------------------
# layout
# ---------------------------------------------------------------------------

def render(items, rng=None, style=None):
    """items -> bytes.  style: 'lines' (one directive per line, indented), 'compact' (as few line
    breaks as the language allows), 'messy' (random blanks, tabs, CRLF, BOM)."""
    if style is None:
        style = 'lines' if rng is None else rng.choice(['lines', 'lines', 'lines', 'compact', 'messy', 'messy'])
    out = bytearray()
    depth = 0
    ind = b'  ' if rng is None else rng.choice([b'  ', b'    ', b'\t', b''])
    first = True
    for it in items:
        if it.kind == 'close':
            depth = max(0, depth - 1)
        if style == 'lines' or rng is None:
            sep = b' '
            line = ind * depth + sep.join(it.toks)
            out += line + b'\n'
        elif style == 'compact':
            out += b' '.join(it.toks)
            out += b'\n' if it.kind == 'comment' else b' '
        else:
            ws = rng.choice([b' ', b' ', b'  ', b'\t', b' \t '])
            lead = rng.choice([b'', ind * depth, b' ', b'\t\t'])
            out += lead + ws.join(it.toks)
            if it.kind == 'comment':
                out += b'\n'
            else:
                out += rng.choice([b'\n', b'\n', b'\n', b'\n\n', b' ', b' \n', b'\t\n'])
        if it.kind == 'dir' and it.toks and it.toks[-1] == b'{':
            depth += 1
        first = False
    text = bytes(out)
    if style == 'compact':
        text = text.rstrip(b' ') + (b'\n' if rng is None or rng.random() < 0.7 else b'')
    if style == 'messy' and rng is not None:
        if rng.random() < 0.25:
            text = text.replace(b'\n', b'\r\n')
        elif rng.random() < 0.05:
            text = text.replace(b'\n', b'\r')
        if rng.random() < 0.15:
            text = b'\xef\xbb\xbf' + text
    return text


def flat(items):
    """[(kind, spelling, item_index, tok_index)] in the walker's vocabulary"""
    out = []
    for ii, it in enumerate(items):
        if it.kind == 'comment':
            out.append(('#', it.toks[0], ii, 0))
            continue
        for ti, t in enumerate(it.toks):
            if t == b'{':
                k = '{'
            elif t == b'}':
                k = '}'
            elif t.startswith(b'"'):
                k = 'str'
            else:
                k = 'id'
            out.append((k, t, ii, ti))
    return out
