"""Hookaidofile grammar as data (read off internal/config/parser.go), used by props/c19.py for
 (a) a slot walker: which token of a token stream is a value of which directive (context path),
 (b) the directive histogram of any text (generated or corpus),
 (c) the grammar-directed generator.
Python stdlib only.  Texts and token spellings are bytes (identifiers and comments may carry
undecodable bytes, the lexer lets them through)."""

# entry kinds
#  ('v', n)            n values, directive unique in its block
#  ('vr', n)           n values, directive repeatable
#  ('m', n)            groups of n values repeated until the next directive keyword / '}' / comment; repeatable
#  ('b', blk)          block, unique
#  ('vb', n, blk)      either n values (shorthand) or a block; unique
#  ('nb', n, blk)      n values then a block; repeatable
#  ('nob', n, blk)     n values then an optional block; unique
#  ('sub', {word: entry})   next identifier selects
#  ('retry',)          retry <type> [max v] [base v] [cap v] [jitter v]
#  ('match',)          match @ref... | match { ... }
#  ('hmac',)           auth hmac {..} | auth hmac [secret_ref] v [{..}]
#  ('signhmac',)       sign hmac secret_ref v... | sign hmac v
TLS = {'cert_file': ('v', 1), 'key_file': ('v', 1), 'client_ca': ('v', 1), 'client_auth': ('v', 1)}
SPEC = {
    'ingress': {'listen': ('v', 1), 'tls': ('b', 'tls'), 'rate_limit': ('b', 'rate_limit')},
    'tls': TLS,
    'rate_limit': {'rps': ('v', 1), 'burst': ('v', 1)},
    'defaults': {'max_body': ('v', 1), 'max_headers': ('v', 1), 'egress': ('b', 'egress'),
                 'publish_policy': ('b', 'publish_policy'), 'deliver': ('b', 'defaults.deliver'),
                 'trend_signals': ('b', 'trend_signals'), 'adaptive_backpressure': ('b', 'adaptive_backpressure')},
    'egress': {'allow': ('m', 1), 'deny': ('m', 1), 'https_only': ('v', 1), 'redirects': ('v', 1),
               'dns_rebind_protection': ('v', 1)},
    'publish_policy': {'direct': ('v', 1), 'managed': ('v', 1), 'allow_pull_routes': ('v', 1),
                       'allow_deliver_routes': ('v', 1), 'require_actor': ('v', 1), 'require_request_id': ('v', 1),
                       'fail_closed': ('v', 1), 'actor_allow': ('m', 1), 'actor_prefix': ('m', 1)},
    'defaults.deliver': {'retry': ('retry',), 'timeout': ('v', 1), 'concurrency': ('v', 1)},
    'trend_signals': {k: ('v', 1) for k in (
        'window', 'expected_capture_interval', 'stale_grace_factor', 'sustained_growth_consecutive',
        'sustained_growth_min_samples', 'sustained_growth_min_delta', 'recent_surge_min_total',
        'recent_surge_min_delta', 'recent_surge_percent', 'dead_share_high_min_total', 'dead_share_high_percent',
        'queued_pressure_min_total', 'queued_pressure_percent', 'queued_pressure_leased_multiplier')},
    'adaptive_backpressure': {k: ('v', 1) for k in (
        'enabled', 'min_total', 'queued_percent', 'ready_lag', 'oldest_queued_age', 'sustained_growth')},
    'secrets': {'secret': ('nb', 1, 'secret')},
    'secret': {'value': ('v', 1), 'valid_from': ('v', 1), 'valid_until': ('v', 1)},
    'pull_api': {'listen': ('v', 1), 'prefix': ('v', 1), 'max_batch': ('v', 1), 'grpc_listen': ('v', 1),
                 'default_lease_ttl': ('v', 1), 'max_lease_ttl': ('v', 1), 'default_max_wait': ('v', 1),
                 'max_wait': ('v', 1), 'tls': ('b', 'tls'), 'auth': ('sub', {'token': ('vr', 1)})},
    'admin_api': {'listen': ('v', 1), 'prefix': ('v', 1), 'tls': ('b', 'tls'), 'auth': ('sub', {'token': ('vr', 1)})},
    'observability': {'access_log': ('vb', 1, 'access_log'), 'runtime_log': ('vb', 1, 'runtime_log'),
                      'metrics': ('vb', 1, 'metrics'), 'tracing': ('vb', 1, 'tracing')},
    'access_log': {'enabled': ('v', 1), 'output': ('v', 1), 'path': ('v', 1), 'format': ('v', 1)},
    'runtime_log': {'level': ('v', 1), 'output': ('v', 1), 'path': ('v', 1), 'format': ('v', 1)},
    'metrics': {'enabled': ('v', 1), 'listen': ('v', 1), 'prefix': ('v', 1)},
    'tracing': {'enabled': ('v', 1), 'collector': ('v', 1), 'url_path': ('v', 1), 'timeout': ('v', 1),
                'compression': ('v', 1), 'insecure': ('v', 1), 'proxy_url': ('v', 1), 'tls': ('b', 'tracing.tls'),
                'retry': ('b', 'tracing.retry'), 'header': ('vr', 2)},
    'tracing.tls': {'ca_file': ('v', 1), 'cert_file': ('v', 1), 'key_file': ('v', 1), 'server_name': ('v', 1),
                    'insecure_skip_verify': ('v', 1)},
    'tracing.retry': {'enabled': ('v', 1), 'initial_interval': ('v', 1), 'max_interval': ('v', 1),
                      'max_elapsed_time': ('v', 1)},
    'queue_limits': {'max_depth': ('v', 1), 'drop_policy': ('v', 1)},
    'queue_retention': {'max_age': ('v', 1), 'prune_interval': ('v', 1)},
    'delivered_retention': {'max_age': ('v', 1)},
    'dlq_retention': {'max_age': ('v', 1), 'max_depth': ('v', 1)},
    'route': {'application': ('v', 1), 'endpoint_name': ('v', 1), 'match': ('match',), 'rate_limit': ('b', 'rate_limit'),
              'queue': ('vb', 1, 'queue'),
              'auth': ('sub', {'basic': ('vr', 2), 'hmac': ('hmac',), 'forward': ('nob', 1, 'auth forward')}),
              'pull': ('b', 'pull'), 'deliver': ('nb', 1, 'deliver'), 'max_body': ('v', 1), 'max_headers': ('v', 1),
              'publish': ('vb', 1, 'publish'), 'publish.direct': ('v', 1), 'publish.managed': ('v', 1),
              'deliver_concurrency': ('v', 1)},
    'queue': {'backend': ('v', 1)},
    'publish': {'enabled': ('v', 1), 'direct': ('v', 1), 'managed': ('v', 1)},
    'auth hmac': {'secret': ('m', 1), 'secret_ref': ('m', 1), 'signature_header': ('v', 1),
                  'timestamp_header': ('v', 1), 'nonce_header': ('v', 1), 'tolerance': ('v', 1)},
    'auth forward': {'timeout': ('v', 1), 'copy_headers': ('m', 1), 'body_limit': ('v', 1)},
    'match': {'method': ('m', 1), 'host': ('m', 1), 'header': ('m', 2), 'header_exists': ('m', 1),
              'query': ('m', 2), 'remote_ip': ('m', 1), 'query_exists': ('m', 1)},
    'pull': {'path': ('v', 1), 'auth': ('sub', {'token': ('vr', 1)})},
    'deliver': {'retry': ('retry',), 'timeout': ('v', 1),
                'sign': ('sub', {'hmac': ('signhmac',), 'signature_header': ('v', 1), 'timestamp_header': ('v', 1),
                                 'secret_selection': ('v', 1)})},
}
TOP_BLOCKS = ['ingress', 'defaults', 'vars', 'secrets', 'pull_api', 'admin_api', 'observability', 'queue_retention',
              'delivered_retention', 'dlq_retention', 'queue_limits']
CHANNELS = ['inbound', 'outbound', 'internal']
RETRY_WORDS = ('max', 'base', 'cap', 'jitter')


def all_kinds():
    """Every directive kind of the language as 'block/directive[ word]' (what the histogram counts)."""
    out = set()
    for b in TOP_BLOCKS:
        out.add('top/' + b)
    for c in CHANNELS:
        out.add('top/%s{}' % c)
        out.add('top/%s route' % c)
    out.add('top/route')
    out.add('top/route(quoted path)')
    out.add('top/@matcher')
    out.add('vars/item')
    for blk, ds in SPEC.items():
        for d, e in ds.items():
            if e[0] == 'sub':
                for w, e2 in e[1].items():
                    if e2[0] == 'hmac':
                        out.update({'%s/auth hmac' % blk, '%s/auth hmac secret_ref' % blk, '%s/auth hmac{}' % blk})
                    elif e2[0] == 'signhmac':
                        out.update({'%s/sign hmac' % blk, '%s/sign hmac secret_ref' % blk})
                    elif e2[0] == 'nob':
                        out.update({'%s/%s %s' % (blk, d, w), '%s/%s %s{}' % (blk, d, w)})
                    else:
                        out.add('%s/%s %s' % (blk, d, w))
            elif e[0] == 'vb':
                out.update({'%s/%s' % (blk, d), '%s/%s{}' % (blk, d)})
            elif e[0] == 'match':
                out.update({'%s/match @ref' % blk, '%s/match{}' % blk})
            elif e[0] == 'retry':
                out.add('%s/retry' % blk)
                for w in RETRY_WORDS:
                    out.add('%s/retry %s' % (blk, w))
            else:
                out.add('%s/%s' % (blk, d))
    return out


# ---------------------------------------------------------------------------
# slot walker
# ---------------------------------------------------------------------------

class Walk:
    """Walk a token stream [(kind, spelling)] with kind in 'id','str','{','}','#' the way the
    parser does and record
      slots[i]   = context path of token i when it is a value (else None)
      kinds      = list of directive kinds met (histogram input)
      ok         = the walk understood the whole stream (the real Parse is the authority; this is
                   only used to name things)."""

    def __init__(self, toks):
        self.t = [x for x in toks]
        self.i = 0
        self.slots = [None] * len(self.t)
        self.kinds = []
        self.ok = True
        try:
            self.top()
        except _Stop:
            self.ok = False

    # -- helpers
    def peek(self):
        while self.i < len(self.t) and self.t[self.i][0] == '#':
            self.i += 1
        if self.i >= len(self.t):
            return ('eof', b'')
        return self.t[self.i]

    def peek_raw(self):
        if self.i >= len(self.t):
            return ('eof', b'')
        return self.t[self.i]

    def next(self):
        k = self.peek()
        self.i += 1
        return k

    def value(self, ctx):
        # parseValue does not skip comments: a comment here is a parse error
        k = self.peek_raw()
        if k[0] not in ('id', 'str'):
            raise _Stop()
        self.slots[self.i] = ctx
        self.i += 1

    def expect(self, kind):
        k = self.peek_raw()
        if k[0] != kind:
            raise _Stop()
        self.i += 1

    def more_values(self, blk):
        """after one group of a multi-value directive: does the list go on?"""
        k = self.peek_raw()
        if k[0] in ('eof', '}', '#'):
            return False
        if k[0] == 'id' and k[1] in _dirnames(blk):
            return False
        return k[0] in ('id', 'str')

    # -- grammar
    def top(self):
        while True:
            k = self.peek()
            if k[0] == 'eof':
                return
            if k[0] == 'str':
                self.kinds.append('top/route(quoted path)')
                self.route()
            elif k[0] == 'id':
                w = k[1]
                if w.startswith(b'/'):
                    self.kinds.append('top/route')
                    self.route()
                elif w.startswith(b'@'):
                    self.kinds.append('top/@matcher')
                    self.i += 1
                    self.expect('{')
                    self.body('match')
                elif w.decode('latin1') in CHANNELS:
                    ch = w.decode('latin1')
                    self.i += 1
                    if self.peek_raw()[0] == '{':
                        self.kinds.append('top/%s{}' % ch)
                        self.i += 1
                        while True:
                            k2 = self.peek()
                            if k2[0] == '}':
                                self.i += 1
                                break
                            if k2[0] == 'eof':
                                raise _Stop()
                            self.route()
                    else:
                        self.kinds.append('top/%s route' % ch)
                        self.route()
                elif w.decode('latin1') in TOP_BLOCKS:
                    name = w.decode('latin1')
                    self.kinds.append('top/' + name)
                    self.i += 1
                    self.expect('{')
                    if name == 'vars':
                        self.vars()
                    else:
                        self.body(name)
                else:
                    raise _Stop()
            else:
                raise _Stop()

    def vars(self):
        while True:
            k = self.peek()
            if k[0] == '}':
                self.i += 1
                return
            if k[0] == 'eof':
                raise _Stop()
            self.kinds.append('vars/item')
            self.value('vars/name')
            self.value('vars/value')

    def route(self):
        k = self.peek_raw()
        if k[0] not in ('id', 'str'):
            raise _Stop()
        self.slots[self.i] = 'top/route path'
        self.i += 1
        self.expect('{')
        self.body('route')

    def body(self, blk):
        spec = SPEC[blk]
        while True:
            k = self.peek()
            if k[0] == '}':
                self.i += 1
                return
            if k[0] != 'id':
                raise _Stop()
            name = k[1].decode('latin1')
            if name not in spec:
                raise _Stop()
            self.i += 1
            self.entry(blk, name, spec[name])

    def entry(self, blk, name, e):
        kind = '%s/%s' % (blk, name)
        t = e[0]
        if t in ('v', 'vr'):
            self.kinds.append(kind)
            for j in range(e[1]):
                self.value(kind if e[1] == 1 else '%s#%d' % (kind, j))
        elif t == 'm':
            self.kinds.append(kind)
            while True:
                for j in range(e[1]):
                    self.value(kind if e[1] == 1 else '%s#%d' % (kind, j))
                if not self.more_values(blk):
                    break
        elif t == 'b':
            self.kinds.append(kind)
            self.expect('{')
            self.body(e[1])
        elif t == 'vb':
            if self.peek_raw()[0] == '{':
                self.kinds.append(kind + '{}')
                self.i += 1
                self.body(e[2])
            else:
                self.kinds.append(kind)
                self.value(kind)
        elif t == 'nb':
            self.kinds.append(kind)
            self.value(kind)
            self.expect('{')
            self.body(e[2])
        elif t == 'nob':
            self.value(kind)
            if self.peek_raw()[0] == '{':
                self.kinds.append(kind + '{}')
                self.i += 1
                self.body(e[2])
            else:
                self.kinds.append(kind)
        elif t == 'sub':
            k = self.peek_raw()
            if k[0] != 'id' or k[1].decode('latin1') not in e[1]:
                raise _Stop()
            self.i += 1
            w = k[1].decode('latin1')
            self.entry(blk, '%s %s' % (name, w), e[1][w])
        elif t == 'retry':
            self.kinds.append(kind)
            self.value(kind + ' type')
            while True:
                k = self.peek()
                if k[0] == 'id' and k[1].decode('latin1') in RETRY_WORDS:
                    w = k[1].decode('latin1')
                    self.i += 1
                    self.kinds.append('%s %s' % (kind, w))
                    self.value('%s %s' % (kind, w))
                else:
                    break
        elif t == 'match':
            k = self.peek()
            if k[0] == 'id' and k[1].startswith(b'@'):
                self.kinds.append(kind + ' @ref')
                while True:
                    self.i += 1
                    k = self.peek()
                    if not (k[0] == 'id' and k[1].startswith(b'@')):
                        break
            else:
                self.kinds.append(kind + '{}')
                self.expect('{')
                self.body('match')
        elif t == 'hmac':
            if self.peek()[0] == '{':
                self.kinds.append(kind + '{}')
                self.next()
                self.body('auth hmac')
                return
            k = self.peek()
            if k[0] == 'id' and k[1] == b'secret_ref':
                self.next()
                self.kinds.append(kind + ' secret_ref')
            else:
                self.kinds.append(kind)
            self.value(kind)
            if self.peek()[0] == '{':
                self.kinds.append(kind + '{}')
                self.next()
                self.body('auth hmac')
        elif t == 'signhmac':
            k = self.peek()
            if k[0] == 'id' and k[1] == b'secret_ref':
                self.next()
                self.kinds.append(kind + ' secret_ref')
                while True:
                    self.value(kind + ' secret_ref')
                    k = self.peek_raw()
                    if k[0] in ('eof', '}', '#') or (k[0] == 'id' and k[1].decode('latin1') in ('retry', 'timeout', 'sign')):
                        break
            else:
                self.kinds.append(kind)
                self.value(kind)
        else:
            raise _Stop()


class _Stop(Exception):
    pass


_DIRNAMES = {}


def _dirnames(blk):
    if blk not in _DIRNAMES:
        _DIRNAMES[blk] = set(k.encode() for k in SPEC[blk].keys())
    return _DIRNAMES[blk]


def family(ctx):
    """directive family of a value slot: drop the '#i' argument index."""
    return ctx.split('#')[0] if ctx else ctx
