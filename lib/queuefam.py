"""Shared driver of the queue-family checks (C02 C03 C04 C05 C12 C13 C14).

One run = generate histories with the property's profile, execute them on the real
memory and SQLite stores, evaluate Model/Queue.v on the same operations (the stores'
nondeterministic choices are oracle inputs, validated by the model), compare a checksum
of (result, complete stored state) after every step, and evaluate the property monitor
P_Cxx (Model/QueueMon.v) on the trace.  While the checksums agree the model trace *is*
the implementation trace, so the monitor verdict computed in Coq on the model trace is the
verdict for the implementation; from the first disagreement on, the monitors are evaluated
on the events rebuilt from what the implementation returned and stored."""
import copy
import json
import os
import random
import re

from lib import common as C
from lib import queuecheck as Q
from lib import queuegen as G

MON_INDEX = {"C02": 0, "C03": 1, "C04": 2, "C05": 3, "C12": 4, "C14": 5}
FL = {"memory": "Mem", "sqlite": "Sql"}
STN = {1: "Queued", 2: "Leased", 3: "Delivered", 4: "Dead", 5: "Canceled"}
ERRC = {"not_found": "ENotFound", "expired": "EExpired", "full": "EFull", "pressure": "EPressure", "exists": "EExists",
        "invalid": "EInvalid"}


# ---------------------------------------------------------------------------
# rebuilding Coq events from what the implementation did

def coq_msg(mp, r):
    t = Q.row_tuple(mp, r)
    lease = "None" if t[11] == 0 else "(Some %s)" % Q.cN(t[11] - 1)
    return "(mkMsg %s %s %s %s %s %s %s %s %s %s %s %s %s)" % (
        Q.cN(t[0]), Q.cN(t[1]), Q.cN(t[2]), STN.get(t[3], "Queued"), Q.cZ(t[4]), Q.cZ(t[5]), Q.cZ(t[6]),
        Q.cN(t[7]), Q.cN(t[8]), Q.cN(t[9]), Q.cN(t[10]), lease, Q.cZ(t[12]))


def coq_res(mp, op, res):
    err = res.get("err") or ""
    name = op["op"]
    if err:
        return "(RErr %s)" % ERRC.get(err, "EInvalid")
    if name in ("enqueue", "lease", "reopen"):
        return "RUnit"
    if name == "enqueue_batch":
        return "(RCount %s 0 false)" % Q.cZ(res["count"])
    if name in ("manage", "manage_f"):
        matched = res["matched"]
        if name == "manage" and op["kind"] in ("requeue_dead", "delete_dead"):
            matched = 0
        return "(RCount %s %s %s)" % (Q.cZ(res["count"]), Q.cZ(matched), C.coq_bool(res["preview"]))
    if name == "dequeue":
        return "(RItems [%s])" % "; ".join("(%s, %s, %s, %s)" % (Q.cN(mp.idn(r["id"])), Q.cN(mp.lease(r["lease"])), Q.cZ(r["attempt"]), Q.cZ(r["until"]))
                                            for r in res.get("items") or [])
    if name == "lease_batch":
        cs = []
        for c in res.get("conflicts") or []:
            s = c["lease"]
            if s.strip() == "":
                cr = "CBlank"
            elif s in mp.leases:
                cr = "(CKnown %s)" % Q.cN(mp.leases[s])
            else:
                cr = "CUnknown"
            cs.append("(%s, %s)" % (cr, C.coq_bool(c["expired"])))
        return "(RBatch %s [%s])" % (Q.cZ(res["succeeded"]), "; ".join(cs))
    if name in ("list", "list_dead"):
        return "(RList [%s])" % "; ".join(Q.cN(mp.idn(r["id"])) for r in res.get("listed") or [])
    if name == "lookup":
        return "(RLookup [%s])" % "; ".join("(%s, %s, %s)" % (Q.cN(mp.idn(r[0])), Q.cN(mp.route(r[1])), STN.get(Q.ST.get(r[2], 1)))
                                             for r in res.get("lookup") or [])
    if name == "stats":
        s = res.get("stats") or {}
        return "(RStats %s %s %s %s %s %s)" % tuple(Q.cZ(x) for x in (res["total"], s.get("queued", 0), s.get("leased", 0),
                                                                     s.get("delivered", 0), s.get("dead", 0), s.get("canceled", 0)))
    return "RUnit"


def impl_events_term(mp, hist, out, opterms):
    """list event built from the implementation's observations (needs a snapshot after every step)."""
    evs = []
    prev = []
    prev_ok = True           # the state before the first step is the empty store
    for (op, st, ot) in zip(hist["ops"], out["steps"], opterms):
        if not st.get("has_snap"):
            prev_ok = False
            continue
        after = [coq_msg(mp, r) for r in st["snap"]]
        if prev_ok:
            m = re.match(r"^\((.*), (\(mkOracle .*\))\)$", ot, flags=re.S)
            evs.append("(mkEvent %s %s %s [%s] [%s])" % (m.group(1), m.group(2), coq_res(mp, op, st["res"]), "; ".join(prev), "; ".join(after)))
        prev = after
        prev_ok = True
    if not evs:
        return None
    return "[" + ";\n ".join(evs) + "]"


def split_terms(term):
    """split the '[a;\n   b;\n ...]' produced by coq_case back into its elements"""
    inner = term[1:-1]
    return inner.split(";\n   ") if inner else []


# ---------------------------------------------------------------------------

class FamilyRun:
    def __init__(self, ctx, info, prop):
        self.ctx = ctx
        self.info = info
        self.prop = prop
        self.steps = 0
        self.cases = 0
        self.nontrivial = set()
        self.op_hist = {}
        self.err_hist = {}
        self.mismatches = 0
        self.bad_oracle = 0
        self.mon_fail = 0
        self.samples = []
        self.impl_mon_checked = 0
        self.state_changing_steps = 0
        self.lease_expiry_crossings = 0
        self.deq_short = 0
        self.deq_total = 0
        self.kept_outs = []

    # -- running ---------------------------------------------------------
    def execute(self, histories, backends=("memory", "sqlite"), tag="q"):
        outs = Q.run_impl(self.ctx, self.info["hbin"], histories, backends=backends)
        if tag.startswith("q"):
            self.kept_outs.extend(zip(histories, outs))
        cases = []
        meta = []
        for hi, (h, per_backend) in enumerate(zip(histories, outs)):
            for out in per_backend:
                if out.get("fatal"):
                    C.report(self.ctx, "harness-fatal:%s" % out["backend"], "store failed: " + out["fatal"],
                             {"kind": "history", "backend": out["backend"], "history": h, "observed": out["fatal"]})
                    continue
                mp = Q.Maps(h, out)
                term, obs, mask = Q.coq_case(mp, h, out, out["backend"])
                cases.append({"flavour": FL[out["backend"]], "cfg": h["cfg"], "term": term, "mask": mask})
                meta.append((hi, h, out, mp, obs, term))
        res, logs = Q.eval_model(self.ctx, cases, tag=tag)
        return meta, res, logs

    def account(self, h, out):
        self.cases += 1
        prev = None
        for op, st in zip(h["ops"], out["steps"]):
            self.steps += 1
            self.op_hist[op["op"]] = self.op_hist.get(op["op"], 0) + 1
            e = st["res"].get("err") or ""
            if e:
                self.err_hist[e.split(":")[0]] = self.err_hist.get(e.split(":")[0], 0) + 1
            if op["op"] == "dequeue":
                self.deq_total += 1
                b = op["batch"]
                b = 1 if b <= 0 else min(b, 100)
                if len(st["res"].get("items") or []) < b:
                    self.deq_short += 1
            if st.get("has_snap"):
                cur = json.dumps(st["snap"], sort_keys=True)
                if prev is not None and cur != prev:
                    self.state_changing_steps += 1
                prev = cur

    # -- judging ---------------------------------------------------------
    def judge(self, meta, res, logs, shrink=True):
        """returns list of problem dicts (already reported)"""
        idx = MON_INDEX.get(self.prop)
        need_impl_mon = []
        for (hi, h, out, mp, obs, term), r in zip(meta, res):
            self.account(h, out)
            key_case = C.sha({"h": h, "b": out["backend"]})
            if r is None:
                C.report(self.ctx, "model-eval-failed", "the model could not be evaluated on a history (%s)" % (logs[:1],),
                         {"kind": "history", "backend": out["backend"], "history": h, "no_failing_input_found": True})
                continue
            hashes, mons = r
            k_mis = None
            for k, (a, b) in enumerate(zip(hashes, obs)):
                if a != b:
                    k_mis = k
                    break
            if k_mis is None and len(hashes) != len(obs):
                k_mis = min(len(hashes), len(obs))
            proj = []
            for op, st in zip(h["ops"], out["steps"]):
                proj.extend(Q.projection_problems(mp, op, st))
            if proj:
                C.report(self.ctx, "projection:%s" % out["backend"], "returned rows differ from stored rows: " + proj[0],
                         {"kind": "history", "backend": out["backend"], "history": h, "problems": proj[:5]})
            if any(st["res"].get("err", "").startswith("other:") for st in out["steps"]):
                k = next(i for i, st in enumerate(out["steps"]) if st["res"].get("err", "").startswith("other:"))
                C.report(self.ctx, "unexpected-error:%s:%s" % (out["backend"], h["ops"][k]["op"]),
                         "store returned an unclassified error: " + out["steps"][k]["res"]["err"],
                         {"kind": "history", "backend": out["backend"], "history": h, "step": k})
            if k_mis is None:
                # model trace == implementation trace: the monitor verdict is the implementation's verdict
                if idx is not None and len(mons) > idx and mons[idx] >= 0:
                    self.mon_fail += 1
                    k = mons[idx]
                    self.report_monitor(h, out, k, "model-and-implementation")
                if len(mons) > 6 and mons[6] >= 0:
                    self.bad_oracle += 1
                self.nontrivial.add(key_case)
                if len(self.samples) < 3:
                    self.samples.append({"backend": out["backend"], "cfg": h["cfg"], "ops": h["ops"][:6], "n_ops": len(h["ops"])})
            else:
                self.mismatches += 1
                need_impl_mon.append((hi, h, out, mp, term, k_mis, mons))
        # implementation-side monitors for the diverging histories (and a sample of agreeing ones, to keep that path exercised)
        extra = [(hi, h, out, mp, term, None, None) for (hi, h, out, mp, obs, term) in meta[:4]]
        self.eval_impl_monitors(need_impl_mon, report=True, shrink=shrink)
        self.eval_impl_monitors(extra, report=True, shrink=False, sample=True)

    def report_monitor(self, h, out, k, where):
        op = h["ops"][k] if 0 <= k < len(h["ops"]) else {"op": "?"}
        kind = op.get("kind") or ""
        key = "%s:%s:%s%s" % (self.prop, out["backend"], op["op"], (":" + kind) if kind else "")
        C.report(self.ctx, key, "property monitor P_%s fails at step %d (%s %s) of a history on the %s store" % (self.prop, k, op["op"], kind, out["backend"]),
                 {"kind": "history", "backend": out["backend"], "history": {"cfg": h["cfg"], "ops": h["ops"][:k + 1], "snap_every": 1},
                  "failing_step": k, "observed": out["steps"][k]["res"] if k < len(out["steps"]) else None,
                  "stored_after": out["steps"][k].get("snap") if k < len(out["steps"]) else None,
                  "stored_before": out["steps"][k - 1].get("snap") if 0 < k <= len(out["steps"]) else [],
                  "verdict_on": where,
                  "how_to_replay": "./check %s --replay <this file>  (re-runs the history on the store built from the current tree)" % self.prop})

    def eval_impl_monitors(self, items, report, shrink, sample=False):
        if not items:
            return
        bodies = []
        for (hi, h, out, mp, term, k_mis, mons) in items:
            evs = impl_events_term(mp, h, out, split_terms(term))
            if evs is None:
                bodies.append(None)
                continue
            bodies.append(Q.HEADER + "Definition evs := %s.\nDefinition r0 := Eval vm_compute in mon_summary %s %s evs.\nPrint r0.\n" % (
                evs, FL[out["backend"]], Q.coq_cfg(h["cfg"])))
        todo = [b for b in bodies if b is not None]
        results = C.coq_eval_shards(self.ctx, "implmon%d" % (1 if sample else 0), todo) if todo else []
        ri = 0
        idx = MON_INDEX.get(self.prop)
        for (hi, h, out, mp, term, k_mis, mons), b in zip(items, bodies):
            if b is None:
                verdict = None
            else:
                rc, txt = results[ri]
                ri += 1
                flat = " ".join(txt.split())
                m = re.search(r"r0 = \[(.*?)\]", flat)
                verdict = [int(x) for x in re.findall(r"-?\d+", m.group(1))] if (rc == 0 and m) else None
            self.impl_mon_checked += 1
            if sample:
                if verdict is not None and idx is not None and verdict[idx] >= 0:
                    self.mon_fail += 1
                    self.report_monitor(h, out, verdict[idx], "implementation")
                continue
            found = False
            if verdict is not None and idx is not None and verdict[idx] >= 0:
                found = True
                self.mon_fail += 1
                self.report_monitor(h, out, verdict[idx], "implementation")
            if not found:
                # the correspondence broke without this property's monitor failing on this history
                op = h["ops"][k_mis] if k_mis < len(h["ops"]) else {"op": "end"}
                kind = op.get("kind") or ""
                small = self.shrink(h, out["backend"], k_mis) if shrink else {"cfg": h["cfg"], "ops": h["ops"][:k_mis + 1], "snap_every": 1}
                C.report(self.ctx, "corr:%s:%s%s" % (out["backend"], op["op"], (":" + kind) if kind else ""),
                         "Model/Queue.v and the %s store disagree at a %s %s step (checksum of result+stored state); P_%s itself did not fail on this history" % (out["backend"], op["op"], kind, self.prop),
                         {"kind": "history", "backend": out["backend"], "history": small, "first_disagreement_step_in_original": k_mis,
                          "no_failing_input_found": True,
                          "names": "correspondence Model/Queue.v step <-> internal/queue %s store; theorems in Properties/%s.v rest on it" % (out["backend"], self.prop),
                          "impl_monitor_verdicts": verdict})

    def shrink(self, h, backend, k_mis):
        """prefix + greedy removal of single ops while model and store still disagree somewhere"""
        cur = {"cfg": h["cfg"], "ops": copy.deepcopy(h["ops"][:k_mis + 1]), "snap_every": 1}
        if any(self._has_ref(o) for o in cur["ops"]):
            return cur     # symbolic lease refs are positional; keep the prefix as it is
        for _ in range(2):
            cands = []
            for i in range(len(cur["ops"]) - 1):
                c = {"cfg": cur["cfg"], "ops": cur["ops"][:i] + cur["ops"][i + 1:], "snap_every": 1}
                cands.append(c)
            if not cands or len(cands) > 80:
                break
            meta, res, _ = self.execute(cands, backends=(backend,), tag="shr")
            better = None
            for (hi, hh, out, mp, obs, term), r in zip(meta, res):
                if r is None:
                    continue
                if r[0] != obs:
                    if better is None or len(hh["ops"]) < len(better["ops"]):
                        better = hh
            if better is None:
                break
            cur = better
        return cur

    @staticmethod
    def _has_ref(op):
        if op.get("lease") and op["lease"].get("ref"):
            return True
        return any(l.get("ref") for l in (op.get("leases") or []))

    def coverage(self):
        return {
            "evaluations": self.cases,
            "distinct_nontrivial": len(self.nontrivial),
            "steps": self.steps,
            "traces_validated_against_impl": self.cases - self.mismatches,
            "model_impl_mismatches": self.mismatches,
            "oracle_rejected": self.bad_oracle,
            "monitor_failures": self.mon_fail,
            "impl_side_monitor_evaluations": self.impl_mon_checked,
            "samples": self.samples or [{}],
            "input_distribution": {"op_histogram": self.op_hist, "error_histogram": self.err_hist,
                                   "state_changing_steps": self.state_changing_steps,
                                   "dequeues": self.deq_total, "dequeues_returning_less_than_batch": self.deq_short},
        }


# ---------------------------------------------------------------------------
# profiles: what each property's generator emphasises

def gen_for(prop, rng, n):
    hs = []
    for i in range(n):
        if prop == "C12":
            cfg = G.gen_cfg(rng, profile=1.0)
            cfg["max_depth"] = rng.choice([1, 2, 3, 3, 5])
            cfg["drop_oldest"] = rng.random() < 0.65
            h = G.gen_history(rng, cfg=cfg, weights_override=[("enqueue", 34), ("enqueue_batch", 16), ("dequeue", 18), ("lease", 14),
                                                              ("lease_batch", 3), ("manage", 7), ("manage_f", 2), ("stats", 2), ("list", 2), ("reopen", 1)])
        elif prop == "C14":
            h = G.gen_history(rng, weights_override=[("enqueue", 26), ("enqueue_batch", 6), ("dequeue", 14), ("lease", 14),
                                                     ("lease_batch", 2), ("manage", 18), ("manage_f", 16), ("list", 2), ("lookup", 2)], many_ties=True)
        elif prop in ("C03", "C04"):
            h = G.gen_history(rng, weights_override=[("enqueue", 22), ("enqueue_batch", 4), ("dequeue", 26), ("lease", 26),
                                                     ("lease_batch", 10), ("manage", 8), ("manage_f", 2), ("stats", 1), ("reopen", 1)])
        elif prop == "C05":
            h = G.gen_history(rng, weights_override=[("enqueue", 24), ("enqueue_batch", 5), ("dequeue", 34), ("lease", 22),
                                                     ("lease_batch", 4), ("manage", 6), ("manage_f", 2), ("list", 1), ("reopen", 2)])
        elif prop == "C13":
            h = G.gen_history(rng, c13=True)
        else:
            h = G.gen_history(rng)
        hs.append(h)
    return hs


def run_property(ctx, prop, n_quick, n_thorough, extra=None, assumptions=None, extra_prop_files=()):
    rng = random.Random(ctx.seed * 1000003 + int(prop[1:]))
    info = C.prologue(ctx)
    if extra_prop_files:
        # further files of theorems that belong to this property: their obligations are added (one parallel make for all of them)
        res, plog = C.coq_check_property_files(list(extra_prop_files))
        closed, axioms = C.parse_assumptions(plog)
        info["closed"] += closed
        info["axioms"] = info["axioms"] + axioms
        for pf in extra_prop_files:
            pok, names = res[pf]
            info["prop_ok"] = info["prop_ok"] and pok
            info["theorems"] = info["theorems"] + names
            if not pok:
                info["prop_log"] = info.get("prop_log", "") + ("Properties/%s.v did not compile: " % pf) + plog[-2500:]
    if info["hbin"] is None:
        raise C.HarnessBuildFailed(info.get("go_log", ""))
    fam = FamilyRun(ctx, info, prop)
    n = n_quick if ctx.tier == "quick" else n_thorough
    corpus = load_corpus(prop)
    # (C13's direct store-vs-store comparison is defined for clock steps of 0 or >= the SQLite sweep interval only: no scenarios there)
    hs = corpus + [h for h in G.gen_scenarios(rng) if (prop != "C13" or h.get("c13_ok")) and (not h.get("only") or prop in h["only"])] + gen_for(prop, rng, n)
    if prop in ("C05", "C02", "C13"):
        # > 1024 inserts on one store: the memory backend's order-log compaction
        hs += [G.gen_long_history(rng) for _ in range(1 if ctx.tier == "quick" else 4)]
    if prop in ("C05", "C03") and ctx.tier != "quick":
        # hundreds of leases running out at once, re-offered by dequeues a millisecond apart, against the model (minutes of evaluation:
        # thorough tier; the quick tier has the closed-form probe bulk-ready of props/c05.py)
        hs += [G.gen_bulk_expiry(rng) for _ in range(2)]
    chunk = 400
    for s in range(0, len(hs), chunk):
        meta, res, logs = fam.execute(hs[s:s + chunk], tag="q%d" % s)
        fam.judge(meta, res, logs)
    cov = C.proof_coverage(info, prop)
    cov.update(fam.coverage())
    cov["rule"] = ("histories of 6-60 store operations from the %s profile of lib/queuegen.py (seeded PRNG; corpus first), each run on the real memory and "
                   "SQLite stores and on Model/Queue.v; a case (history, backend) counts as distinct non-trivial when it is a distinct (history, backend) "
                   "pair whose per-step checksums of result and complete stored state agree with the model to the end, so the monitor verdict is the "
                   "implementation's; state-changing steps are counted in input_distribution" % prop)
    cov["corpus_cases"] = len(corpus)
    extra_cov = {}
    if extra is not None:
        extra_cov = extra(ctx, info, rng, fam, hs) or {}
    cov.update(extra_cov)
    base_assumptions = [
        "store methods are atomic steps (one mutex / one SQLite transaction on a single pooled connection); histories are sequential",
        "payload, headers and trace are carried as opaque handles (distinct contents per message); lease ids and generated ids are renamed canonically",
        "SQLite engine semantics (atomic statements/transactions, ORDER BY, triggers) are trusted; Postgres backend is not executable here",
    ]
    return C.conclude(ctx, info, cov, base_assumptions + (assumptions or []),
                      searched_note="the queue histories of this run were executed on both stores and showed no failure of the property monitor")


def load_corpus(prop):
    d = os.path.join(C.VERIF, "corpus")
    out = []
    if os.path.isdir(d):
        for fn in sorted(os.listdir(d)):
            if fn.startswith("queue-") and fn.endswith(".json"):
                try:
                    o = json.load(open(os.path.join(d, fn)))
                except ValueError:
                    continue
                if "history" in o:
                    out.append(o["history"])
    return out
