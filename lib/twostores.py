"""C04 with TWO SQLiteStore objects on one database file (the gateway's and an operator's: `hookaido mcp` in direct SQLite mode opens its
own store on the live queue file).  The operator's cancel runs at the k-th clock reading inside the gateway's single lease operation
(harness mode two-stores).  Whatever the interleaving, the observable outcome must be that of one of the two serial orders of the two
calls on the queue model (Model/Queue.v lease_one / manage_effect; the table below is those two orders written out):

  lease expired:  A first: expired -> released to queued, A answers "lease expired"; then cancel: queued -> canceled (1)
                  B first: leased -> canceled (1), lease voided; then A: "lease not found"
  lease live:     A first: ack -> delivered / removed, cancel matches nothing (0); nack / extend / dead -> then cancel cancels it (1)
                  B first: canceled (1); then A: "lease not found"

so: a cancel acknowledged with 1 leaves the message canceled for good (it is never handed out again), and only a successful ack of a
live lease may leave it delivered."""
import json
import os

from lib import common as C


def gen_cases(tier):
    cases = []
    for a_op in ("ack", "nack", "extend", "dead"):
        for stale in (True, False):
            for b_op in ("cancel", "cancel_filter"):
                for hook in (1, 2, 3):
                    if tier == "quick" and b_op == "cancel_filter" and hook == 3:
                        continue
                    cases.append({"a_op": a_op, "stale": stale, "b_op": b_op, "hook_at": hook, "delivered": (hook % 2 == 0)})
    return cases


def allowed(c):
    """set of (a_err class, b_count, final state) of the two serial orders"""
    gone = "delivered" if c["delivered"] else ""
    out = set()
    if c["stale"]:
        out.add(("expired", 1, "canceled"))
        out.add(("notfound", 1, "canceled"))
    else:
        if c["a_op"] == "ack":
            out.add(("ok", 0, gone))
        else:
            out.add(("ok", 1, "canceled"))
        out.add(("notfound", 1, "canceled"))
    return out


def err_class(e):
    if not e:
        return "ok"
    if "expired" in e:
        return "expired"
    if "not found" in e:
        return "notfound"
    return "other:" + e


MODEL_TABLES = """From Coq Require Import ZArith List.
From HK Require Import Model.Queue Model.TwoCalls.
Import ListNotations.
Open Scope Z_scope.
Definition T1 := Eval vm_compute in lease_vs_cancel_table.
Definition T2 := Eval vm_compute in filter_vs_change_table.
Print T1.
Print T2.
"""


def model_tables(ctx, info):
    """the outcomes of the two serial orders, evaluated from Model/Queue.step (Model/TwoCalls.v); None when the model cannot be evaluated"""
    import re
    if not info.get("coq_ok"):
        return None
    rc, out = C.coq_eval_cases(ctx, "twocalls", MODEL_TABLES, timeout=300)
    if rc != 0:
        ctx.notes.append("Model/TwoCalls.v could not be evaluated: " + out[-300:])
        return None
    flat = " ".join(out.split())
    t = {}
    for name in ("T1", "T2"):
        m = re.search(name + r" = (\[.*?\]\]) : list", flat)
        if not m:
            ctx.notes.append("Model/TwoCalls.v: table %s not found in the output" % name)
            return None
        t[name] = [[int(x) for x in re.findall(r"-?\d+", row)] for row in re.findall(r"\[([^\[\]]*)\]", m.group(1))]
    # T1: for a in ack,nack,extend,dead; stale in T,F; deliv in T,F: [A first, B first]
    lvc = {}
    k = 0
    for a in ("ack", "nack", "extend", "dead"):
        for stale in (True, False):
            for deliv in (True, False):
                rows = t["T1"][k:k + 2]
                k += 2
                lvc[(a, stale, deliv)] = {({0: "ok", 1: "expired", 2: "notfound"}.get(r[0], "other"), r[1],
                                           {0: "", 1: "queued", 2: "leased", 3: "delivered", 4: "dead", 5: "canceled"}[r[2]]) for r in rows}
    fvc = {}
    k = 0
    for sc in ("requeue-vs-resume-and-lease", "resume-vs-requeue-and-lease", "cancel-vs-ack"):
        rows = t["T2"][k:k + 2]
        k += 2
        fvc[sc] = {(r[0], r[1], r[2], {0: "", 1: "queued", 2: "leased", 3: "delivered", 4: "dead", 5: "canceled"}[r[3]]) for r in rows}
    return {"lease_vs_cancel": lvc, "filter_vs_change": fvc}


def run(ctx, info):
    cases = gen_cases(ctx.tier)
    tables = model_tables(ctx, info)
    if tables is not None:
        for c in cases:
            if tables["lease_vs_cancel"][(c["a_op"], c["stale"], c["delivered"])] != allowed(c):
                C.report(ctx, "two-stores:table-differs-from-model", "the table of serial outcomes written out in lib/twostores.py differs from Model/TwoCalls.v for %s: %s vs %s" %
                         (c, sorted(allowed(c)), sorted(tables["lease_vs_cancel"][(c["a_op"], c["stale"], c["delivered"])])),
                         {"kind": "obligation", "no_failing_input_found": True, "case": c})
                break
    rc, out, err = C.harness_run(info["hbin"], ["two-stores"], {"dir": os.path.join(ctx.scratch, "twostores"), "cases": cases}, timeout=900)
    if rc != 0:
        raise RuntimeError("two-stores failed: " + err[-1500:])
    stats = {"cases": len(cases), "operator_inside_gateway_call": 0, "operator_refused_busy": 0, "clock_reads": {}}
    for c, o in zip(cases, json.loads(out)["cases"]):
        if o.get("err"):
            raise RuntimeError("two-stores case %s: %s" % (c, o["err"]))
        stats["operator_inside_gateway_call"] += 1 if o["b_inside"] else 0
        stats["operator_refused_busy"] += 1 if o["b_busy"] else 0
        stats["clock_reads"][str(o["clock_reads"])] = stats["clock_reads"].get(str(o["clock_reads"]), 0) + 1
        got = (err_class(o["a_err"]), o["b_count"], o["final"])
        problems = []
        if o.get("b_err"):
            problems.append("the operator's call failed: %s" % o["b_err"])
        elif got not in allowed(c):
            problems.append("gateway %s on %s lease answered %r, operator's %s reported %d canceled, the message ends %r - not the outcome of either "
                            "serial order %s" % (c["a_op"], "an expired" if c["stale"] else "a live", o["a_err"] or "ok", c["b_op"], o["b_count"],
                                                 o["final"] or "gone", sorted(allowed(c))))
        if o["b_count"] == 1 and (o["final"] != "canceled" or o["redelivered"]):
            problems.append("the operator was told the message is canceled, yet it ends %r and was handed out %d more time(s)" % (o["final"] or "gone", o["redelivered"]))
        if o["other"] != "queued":
            problems.append("the bystander message is %r" % o["other"])
        if problems:
            where = "inside" if o["b_inside"] else ("after-busy" if o["b_busy"] else "after")
            C.report(ctx, "two-stores:%s:%s:%s" % (c["a_op"], "stale" if c["stale"] else "live", where), "; ".join(problems),
                     {"kind": "history", "case": c, "observed": o, "allowed_outcomes": sorted(allowed(c)),
                      "calls": ["store A (gateway) and store B (operator) opened on one SQLite file", "A.Enqueue(evt_1); A.Dequeue -> lease L (10 s)",
                                "clock +%s" % ("11 s (L expired, not swept)" if c["stale"] else "1 s"),
                                "A.%s(L) with B.%s(evt_1) run at A's clock reading no. %d" % (c["a_op"], c["b_op"], c["hook_at"])]})
    stats["serial_outcomes_from_model"] = tables is not None
    return {"two_stores": stats}


FILTER_ALLOWED = {
    # (A's count, B's own count, messages B leased, final state)
    "requeue-vs-resume-and-lease": {(1, 0, 1, "leased"), (0, 1, 1, "leased")},
    "resume-vs-requeue-and-lease": {(1, 0, 1, "leased"), (0, 1, 1, "leased")},
    "cancel-vs-ack": {(1, 0, 0, "canceled"), (0, 1, 1, "delivered")},
}


def run_filter(ctx, info):
    """C14: a by-filter mutation (select, then write) of one store object with a competing state change made through the other store
    object at the clock reading between the two statements.  The outcome must be that of one of the two serial orders on the queue
    model: the mutation changes - and counts - only messages that are in a state it is defined for when it changes them."""
    cases = [{"scenario": sc, "hook_at": k} for sc in FILTER_ALLOWED for k in (1, 2, 3)]
    tables = model_tables(ctx, info)
    if tables is not None and tables["filter_vs_change"] != FILTER_ALLOWED:
        C.report(ctx, "two-stores-filter:table-differs-from-model", "the table of serial outcomes written out in lib/twostores.py differs from Model/TwoCalls.v: %s vs %s" %
                 (FILTER_ALLOWED, tables["filter_vs_change"]), {"kind": "obligation", "no_failing_input_found": True})
    rc, out, err = C.harness_run(info["hbin"], ["two-stores-filter"], {"dir": os.path.join(ctx.scratch, "twostoresf"), "cases": cases}, timeout=600)
    if rc != 0:
        raise RuntimeError("two-stores-filter failed: " + err[-1500:])
    stats = {"cases": len(cases), "operator_inside_gateway_call": 0}
    for c, o in zip(cases, json.loads(out)["cases"]):
        if o.get("err"):
            raise RuntimeError("two-stores-filter case %s: %s" % (c, o["err"]))
        stats["operator_inside_gateway_call"] += 1 if o["b_inside"] else 0
        got = (o["a_count"], o["b_count"], o["b_leased"], o["final"])
        problems = []
        if o.get("a_err"):
            problems.append("the by-filter call failed: %s" % o["a_err"])
        elif got not in FILTER_ALLOWED[c["scenario"]]:
            problems.append("by-filter call counted %d, the competing call counted %d and leased %d, the message ends %r - not the outcome of either serial "
                            "order %s" % (o["a_count"], o["b_count"], o["b_leased"], o["final"], sorted(FILTER_ALLOWED[c["scenario"]])))
        if o["final"] == "leased" and not o["final_lease"]:
            problems.append("the message is leased without a lease id")
        if problems:
            C.report(ctx, "two-stores-filter:%s:%s" % (c["scenario"], "inside" if o["b_inside"] else "after"), "; ".join(problems),
                     {"kind": "history", "case": c, "observed": o, "allowed_outcomes": sorted(FILTER_ALLOWED[c["scenario"]])})
    return {"two_stores_filter": stats}


# ---------------------------------------------------------------------------
# a second process re-lets a message while the first process's late lease operation is in progress (C03 / C04)

def run_relet(ctx, info):
    """worker A answers after its lease ran out; at every clock reading of that call the other process's dequeue runs.  Whatever the
    interleaving: a message handed to worker B is B's while B's lease runs - a third dequeue does not return it, and B's extend and
    ack on its lease are accepted."""
    cases = [{"a_op": op, "hook_at": k, "extra": e}
             for op in ("ack", "nack", "dead", "extend", "ack_batch", "nack_batch", "dead_batch") for k in (1, 2, 3) for e in (0, 2)]
    rc, out, err = C.harness_run(info["hbin"], ["two-stores-relet"], {"dir": os.path.join(ctx.scratch, "tworelet"), "cases": cases}, timeout=600)
    if rc != 0:
        raise RuntimeError("two-stores-relet failed: " + err[-1500:])
    stats = {"cases": len(cases), "second_process_inside_call": 0, "second_process_refused_busy": 0, "relet": 0}
    for c, o in zip(cases, json.loads(out)["cases"]):
        if o.get("err"):
            raise RuntimeError("two-stores-relet case %s: %s" % (c, o["err"]))
        stats["second_process_inside_call"] += 1 if o["b_inside"] else 0
        stats["second_process_refused_busy"] += 1 if o["b_busy"] else 0
        b_items = o.get("b_items") or []
        problems = []
        if "evt_1" in b_items:
            stats["relet"] += 1
            if not o["b_lease_live"]:
                problems.append("worker B was handed evt_1 under a lease that is not live")
            again = [i for i in (o.get("third") or []) if i in b_items]
            if again:
                problems.append("a third dequeue one millisecond later returned %s although worker B's one-minute lease on it had just begun" % again)
            if o["extend_err"] or o["ack_err"]:
                problems.append("worker B's extend / ack on its live lease were answered %r / %r" % (o["extend_err"], o["ack_err"]))
        else:
            problems.append("the second process's dequeue did not get the message whose lease had run out (%s)" % b_items)
        if problems:
            where = "inside" if o["b_inside"] else ("after-busy" if o["b_busy"] else "after")
            C.report(ctx, "two-stores-relet:%s:%s" % (c["a_op"], where), "; ".join(problems),
                     {"kind": "history", "case": c, "observed": o,
                      "calls": ["stores A and B opened on one SQLite file", "A.Enqueue(evt_1..); A.Dequeue -> leases (1 s) for worker A", "clock +2 s (expired, not swept)",
                                "A.%s(worker A's lease(s)) with B.Dequeue(lease 1 m, for worker B) run at A's clock reading no. %d" % (c["a_op"], c["hook_at"]),
                                "clock +1 ms; A.Dequeue (third worker); B.Extend / B.Ack on worker B's lease"]})
    return {"two_stores_relet": stats}


def run_busy(ctx, info):
    """the gateway's dequeue is refused as busy (another process holds the write lock); afterwards the gateway keeps working: its next
    dequeue returns, and returns the message whose lease had run out (C05)"""
    cases = [{"hook_at": k, "b_op": b} for b in ("extend", "nack", "dead") for k in (1, 2, 3)]
    rc, out, err = C.harness_run(info["hbin"], ["two-stores-busy"], {"dir": os.path.join(ctx.scratch, "twobusy"), "cases": cases}, timeout=600)
    if rc != 0:
        raise RuntimeError("two-stores-busy failed: " + err[-1500:])
    stats = {"cases": len(cases), "refused_busy": 0, "arrived_before_the_lock": 0}
    for c, o in zip(cases, json.loads(out)["cases"]):
        if o.get("err"):
            raise RuntimeError("two-stores-busy case %s: %s" % (c, o["err"]))
        if o["first_err"]:
            stats["refused_busy"] += 1
        elif o["attempted"]:
            stats["arrived_before_the_lock"] += 1
        problems = []
        got = (o.get("first_items") or []) + (o.get("second_items") or [])
        if not o["second_returned"]:
            problems.append("after a dequeue that was refused (%s) the gateway's next dequeue did not return within five seconds" % (o["first_err"] or "-"))
        elif o["second_err"]:
            problems.append("the gateway's next dequeue failed: %s" % o["second_err"])
        elif "evt_1" not in got:
            problems.append("the message whose lease had run out was not offered again (first dequeue %s / %r, second %s)" % (
                o.get("first_items"), o["first_err"], o.get("second_items")))
        elif not o["stats_returned"]:
            problems.append("Stats did not return within five seconds after the refused dequeue")
        if o.get("enqueue_tried"):
            stats["enqueues_while_locked"] = stats.get("enqueues_while_locked", 0) + 1
            if o["enqueue_err"]:
                stats["enqueues_refused_busy"] = stats.get("enqueues_refused_busy", 0) + 1
            if not o["enqueue_err"] and not o["enqueue_stored"]:
                problems.append("an enqueue by the gateway while the other process held the write lock reported SUCCESS, yet its message is not in the queue")
            if o["enqueue_err"] and o["enqueue_stored"]:
                problems.append("an enqueue by the gateway was answered %r, yet its message is in the queue" % o["enqueue_err"])
        if problems:
            C.report(ctx, "two-stores-busy:%s%s" % ("refused" if o["first_err"] else "not-refused", ":enqueue-acknowledged-not-stored" if (o.get("enqueue_tried") and not o["enqueue_err"] and not o["enqueue_stored"]) else ""), "; ".join(problems),
                     {"kind": "history", "case": c, "observed": o,
                      "calls": ["stores A (gateway, busy_timeout 15 ms) and B opened on one SQLite file", "evt_2 leased by B (1 s), evt_1 leased by A (1 s); clock +2 s",
                                "B.%s(its expired lease) with A.Dequeue run at B's clock reading no. %d (no. 2 is inside B's write transaction)" % (c["b_op"], c["hook_at"]),
                                "clock +1 s; A.Dequeue(batch 5); A.Stats"]})
    if stats["refused_busy"] == 0:
        ctx.notes.append("two-stores-busy: no dequeue was refused as busy in this run (the lock-holding call no longer reads the clock inside its transaction?)")
    return {"two_stores_busy": stats}


def run_dequeue_stress(ctx, info):
    """two processes poll one route concurrently (batch 2) while 1000 messages are ready and nothing else happens: a call that returns fewer
    than `batch` items although a call that STARTED AFTER IT RETURNED was still handed messages was starved (C05: a dequeue returns
    min(batch, ready))"""
    trials = 6 if ctx.tier == "quick" else 40
    rc, out, err = C.harness_run(info["hbin"], ["two-stores-dequeue-stress"], {"dir": os.path.join(ctx.scratch, "twostress"), "trials": trials, "messages": 1000, "batch": 2},
                                 timeout=900)
    if rc != 0:
        raise RuntimeError("two-stores-dequeue-stress failed: " + err[-1500:])
    stats = {"trials": 0, "calls": 0, "short_calls": 0, "both_stores_served": 0}
    for t in json.loads(out)["trials"]:
        if t.get("err"):
            raise RuntimeError("two-stores-dequeue-stress: " + t["err"])
        calls = sorted(t["calls"], key=lambda c: c["start"])
        stats["trials"] += 1
        stats["calls"] += len(calls)
        if all(any(c["store"] == s and c["n"] > 0 for c in calls) for s in "AB"):
            stats["both_stores_served"] += 1
        errs = [c for c in calls if c.get("err")]
        short = [c for c in calls if c["n"] < 2 and not c.get("err")]
        stats["short_calls"] += len(short)
        last_served_start = max([c["start"] for c in calls if c["n"] > 0] or [0])
        starved = [c for c in short if c["end"] < last_served_start]
        problems = []
        if starved:
            problems.append("%d dequeue call(s) returned fewer than 2 items although calls that started after they had returned were still handed messages "
                            "(first: store %s returned %d item(s) at logical time %d..%d; messages were handed out until %d)" % (
                                len(starved), starved[0]["store"], starved[0]["n"], starved[0]["start"], starved[0]["end"], last_served_start))
        if t["leased"] != 1000 or t["distinct"] != 1000:
            problems.append("%d hand-outs of %d distinct messages for 1000 ready messages" % (t["leased"], t["distinct"]))
        if errs:
            problems.append("dequeue errors: %s" % [c["err"] for c in errs][:3])
        if problems:
            C.report(ctx, "two-stores-dequeue-stress:%s" % ("starved" if starved else "count"), "; ".join(problems),
                     {"kind": "schedule", "case": {"stores": 2, "messages": 1000, "batch": 2}, "observed": {"calls": len(calls), "starved_calls": starved[:10]},
                      "how_to_replay": "the interleaving is chosen by the scheduler; the run is repeated (%d trials)" % trials})
    return {"two_stores_dequeue_stress": stats}
