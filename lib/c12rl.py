"""C12, rate-limit and size-limit part (reusable module; the depth/drop-policy part lives elsewhere).

run(ctx, info, rng) -> coverage fragment (dict).  Violations are reported through C.report(ctx, key, ...)
(ctx.prop is "C12" when the integrator calls it).

  (d1) white-box tokenBucketLimiter.AllowAt on arrival sequences: binary64 twin bit-exact (Model/TokenBucketFloat.v),
       exact-rational model replayed on the implementation's decisions (Model/TokenBucket.v replay_bad),
       windowed count bound evaluated directly on the decisions for ALL windows
  (d2) runtimeState.allowIngress on configs from the real config.Compile with an injected clock: limiter choice
       (route override, else global, else admit), per-limiter twin, re-arm on reload
  (d3) rate_limit directives through the real Compile: NaN / Inf / 0 / negative / garbage rejected
  (d4) concurrent hammering of one limiter through allowIngress with the real clock
  (e)  size limits and 429 through the real ingress.Server over loopback HTTP, queue unchanged on refusal
"""
import json
import os
import re
from fractions import Fraction

from lib import common as C
from lib import fpq

NOW = 1790000000000000000
MAXI = (1 << 63) - 1
NS = 10 ** 9

REQ = "From HK Require Import Model.Retry Model.RetryFloat Model.TokenBucket Model.TokenBucketFloat Model.SizeLimit.\n" \
      "Import ListNotations.\n" \
      "Definition rq (c : Q * Z * Q * list (Q * bool) * Q) : Z := let '(r, b, s, calls, sl) := c in replay_bad (new_bucket r b s) calls sl.\n" \
      "Definition sz (c : bool * Z * Z * list (Z * Z) * Z) : Z := let '(ro, b, mb, hs, mh) := c in\n" \
      "  match size_verdict ro b mb hs mh with V429 => 429 | V413 => 413 | VAdmit => 202 end."


# ----------------------------------------------------------------------------------------------
# exact evaluation of the bound on a decision list (any order of call times)

def window_violation(start, times, decs, rate, burst, slack):
    """Largest excess of admitted(i..j) over burst + rate*(M_j - M_i) (M = running max of creation time and
    call times; for non-decreasing times with t_1 >= start this is the window [t_i, t_j]).  Returns
    (excess, i, j) with excess > 0 when the bound is broken."""
    best = None            # max over i of rate*M_i - A_i
    best_i = 0
    worst = (Fraction(-1), 0, 0)
    m = Fraction(start)
    a = 0
    for k, (t, d) in enumerate(zip(times, decs)):
        m = max(m, Fraction(t))
        v = rate * m - a                 # A_k = admitted strictly before call k
        if best is None or v > best:
            best, best_i = v, k
        if d:
            a += 1
        excess = a - rate * m + best - burst - slack
        if excess > worst[0]:
            worst = (excess, best_i, k)
    return worst


def sec(ns):
    return Fraction(ns, NS)


# ----------------------------------------------------------------------------------------------
# generators

RPS_TEXT = ["0.2", "0.5", "1", "2", "3.7", "10", "100", "1000", "0.001", "0.1", "0.3333333333333333", "7.25", "1e6", "2.5e-7", "50"]


def arrival_pattern(rng, rps, burst, start, n):
    """ns timestamps; returns (kind, times)"""
    kind = rng.choice(["burst", "exact_refill", "sub_token", "still", "backwards", "long_gaps", "poisson", "mixed", "mixed"])
    tok_ns = int(Fraction(NS) / Fraction(rps)) if rps > 0 else NS
    tok_ns = max(1, min(tok_ns, 10 ** 13))
    t = start + rng.choice([0, 0, 1, tok_ns, -5, 10 ** 6])
    out = []
    for _ in range(n):
        k = kind if kind != "mixed" else rng.choice(["burst", "exact_refill", "sub_token", "still", "backwards", "long_gaps", "poisson"])
        if k == "burst":
            t += rng.choice([0, 0, 0, 1])
        elif k == "exact_refill":
            t += tok_ns * rng.choice([1, 1, 1, 2, burst])
        elif k == "sub_token":
            t += max(0, tok_ns - rng.choice([1, 1, 2, 1000]))
        elif k == "still":
            t += 0
        elif k == "backwards":
            t += rng.choice([-tok_ns, -1, -10 ** 9, tok_ns, 2 * tok_ns, 0])
        elif k == "long_gaps":
            t += rng.choice([86400 * NS, 3650 * 86400 * NS, tok_ns * (burst + 1), tok_ns * burst * 3, 1])
        else:
            t += int(rng.expovariate(1.0) * tok_ns * rng.choice([0.2, 1, 3]))
        t = max(-MAXI, min(MAXI, t))
        out.append(t)
    return kind, out


def seq_cases(rng, tier):
    cases = []
    n_cases = 70 if tier == "quick" else 2000
    for i in range(n_cases):
        rps_txt = rng.choice(RPS_TEXT)
        rps = float(rps_txt)
        burst = rng.choice([1, 1, 2, 3, 5, 10, 100])
        start = rng.choice([NOW, NOW, 0, 10 ** 9, -5 * 10 ** 9])
        n = rng.randint(5, 90)
        kind, times = arrival_pattern(rng, Fraction(rps), burst, start, n)
        cases.append({"rps_bits": fpq.float_bits(rps), "burst": burst, "start": start, "times": times, "_kind": kind, "_wb": False})
    # hand-made edge cases
    edge = [
        # exact refill instant and one ns earlier (rps 0.2: one token per 5 s)
        {"rps": 0.2, "burst": 3, "start": 0, "times": [0, 0, 0, 0, 4999999999, 5000000000, 5000000000, 100 * NS, 100 * NS], "_kind": "edge_exact"},
        # clock standing still for many calls
        {"rps": 5.0, "burst": 4, "start": NOW, "times": [NOW] * 40, "_kind": "edge_still"},
        # clock steps back by an hour, then forward again
        {"rps": 1.0, "burst": 2, "start": NOW, "times": [NOW, NOW, NOW - 3600 * NS, NOW - 3600 * NS, NOW - 1, NOW, NOW + NS, NOW + NS, NOW + 2 * NS], "_kind": "edge_back"},
        # first call before the creation time
        {"rps": 1.0, "burst": 1, "start": NOW, "times": [NOW - 10 * NS, NOW - 9 * NS, NOW - NS, NOW, NOW + NS], "_kind": "edge_before_creation"},
        # gap beyond the range of time.Duration (Sub saturates at ~292 years)
        {"rps": 1e-9, "burst": 20, "start": -MAXI, "times": [-MAXI] * 21 + [MAXI - 5, MAXI - 5, MAXI], "_kind": "edge_saturating_sub"},
        {"rps": 1000.0, "burst": 1, "start": 0, "times": [k * 10 ** 6 for k in range(60)], "_kind": "edge_1ms_grid"},
        {"rps": 1000.0, "burst": 1, "start": 0, "times": [k * 10 ** 6 - (k % 2) for k in range(1, 60)], "_kind": "edge_1ms_grid_minus_1ns"},
        {"rps": 0.1, "burst": 1, "start": 0, "times": [k * 10 * NS for k in range(40)], "_kind": "edge_decimal_rate"},
        {"rps": 0.3333333333333333, "burst": 2, "start": 0, "times": [k * 3 * NS for k in range(50)], "_kind": "edge_third"},
    ]
    for e in edge:
        cases.append({"rps_bits": fpq.float_bits(e["rps"]), "burst": e["burst"], "start": e["start"], "times": e["times"], "_kind": e["_kind"], "_wb": False})
    # long sequences (float twin + window bound only)
    for i in range(2 if tier == "quick" else 12):
        rps = rng.choice([2.0, 37.0, 0.7])
        burst = rng.choice([3, 10])
        kind, times = arrival_pattern(rng, Fraction(rps), burst, NOW, 1200)
        cases.append({"rps_bits": fpq.float_bits(rps), "burst": burst, "start": NOW, "times": times, "_kind": "long_" + kind, "_wb": False})
    # white-box only: arguments config.Compile never lets through (newTokenBucketLimiter's own guards)
    for rps, burst in ((0.0, 3), (-2.0, 3), (5.0, 0), (5.0, -1), (float("nan"), 2), (float("inf"), 2)):
        cases.append({"rps_bits": fpq.float_bits(rps), "burst": burst, "start": NOW, "times": [NOW] * 6 + [NOW + NS] * 3 + [NOW + 10 * NS] * 6,
                      "_kind": "whitebox_guard", "_wb": True})
    return cases


def eff_rate_burst(rps_bits, burst):
    """effective (rate, burst) of newTokenBucketLimiter as exact rationals; None rate for NaN/Inf"""
    b = Fraction(burst) if burst > 0 else Fraction(1)
    if not fpq.is_finite_bits(rps_bits):
        f = fpq.bits_float(rps_bits)
        if f != f or f > 0:
            return None, b
        return Fraction(1), b
    r = fpq.bits_fraction(rps_bits)
    return (r if r > 0 else Fraction(1)), b


RL_DIRECTIVES = [
    # (block body, valid, why)
    ("rps 100\n burst 200", True, ""), ("rps 0.5", True, ""), ("rps 0.001\n burst 1", True, ""), ("rps 1e-300", True, ""),
    ("rps 2.5\n burst 1", True, ""), ("rps 1e6\n burst 1000000", True, ""), ("rps 0x1p-1", True, ""), ("rps 3", True, ""),
    ("rps NaN", False, "rps-NaN"), ("rps nan\n burst 5", False, "rps-NaN"), ("rps Inf", False, "rps-Inf"), ("rps +Inf\n burst 5", False, "rps-Inf"),
    ("rps -Inf", False, "rps-negInf"), ("rps infinity", False, "rps-Inf"), ("rps 0", False, "rps-0"), ("rps -1", False, "rps-negative"),
    ("rps -0.0", False, "rps-0"), ("rps abc", False, "rps-garbage"), ("rps 1e309", False, "rps-range"), ("rps 1e-400", False, "rps-range"),
    ("rps 10\n burst 0", False, "burst-0"), ("rps 10\n burst -3", False, "burst-negative"), ("rps 10\n burst 1.5", False, "burst-fraction"),
    ("rps 10\n burst NaN", False, "burst-NaN"), ("rps 10\n burst 99999999999999999999", False, "burst-range"), ("burst 5", False, "rps-missing"),
]


def cfg_text(global_rl=None, routes=(), defaults=None):
    """routes: list of dict(path, rl, max_body, max_headers, targets)"""
    out = ["ingress {", '  listen ":18080"']
    if global_rl is not None:
        out += ["  rate_limit {", "    " + global_rl.replace("\n", "\n   "), "  }"]
    out.append("}")
    if defaults:
        out += ["defaults {"] + ["  " + d for d in defaults] + ["}"]
    for r in routes:
        out.append('"%s" {' % r["path"])
        if r.get("rl") is not None:
            out += ["  rate_limit {", "    " + r["rl"].replace("\n", "\n   "), "  }"]
        if r.get("max_body") is not None:
            out.append("  max_body %s" % r["max_body"])
        if r.get("max_headers") is not None:
            out.append("  max_headers %s" % r["max_headers"])
        for t in range(r.get("targets", 1)):
            out.append('  deliver "http://127.0.0.1:9/t%d" { }' % t)
        out.append("}")
    return "\n".join(out) + "\n"


def state_cases(rng, tier):
    cases = []
    shapes = [
        ("global+override", "rps 2\n burst 2", [{"path": "/a", "rl": "rps 0.5"}, {"path": "/b"}, {"path": "/c", "rl": "rps 10\n burst 3"}]),
        ("global-only", "rps 1\n burst 3", [{"path": "/a"}, {"path": "/b"}]),
        ("override-only", None, [{"path": "/a", "rl": "rps 4\n burst 2"}, {"path": "/b"}]),
        ("none", None, [{"path": "/a"}, {"path": "/b"}]),
        ("all-overridden", "rps 1\n burst 1", [{"path": "/a", "rl": "rps 3"}, {"path": "/b", "rl": "rps 0.25\n burst 4"}]),
    ]
    reps = 3 if tier == "quick" else 60
    for name, g, routes in shapes:
        for rep in range(reps):
            paths = [r["path"] for r in routes] + ["/unknown"]
            t = NOW
            reqs = []
            for _ in range(rng.randint(20, 70)):
                t += rng.choice([0, 0, 0, 10 ** 8, 5 * 10 ** 8, NS, 2 * NS, -10 ** 8, 7 * NS])
                reqs.append({"route": rng.choice(paths), "t": t})
            reload_at = rng.randrange(5, len(reqs)) if rep == 1 else 0
            cases.append({"config": cfg_text(g, routes), "start": NOW, "reqs": reqs, "reload_at": reload_at, "_name": name})
    return cases


def size_plan(rng, tier):
    routes = [
        {"path": "/b", "max_body": "16", "max_headers": "64", "targets": 2},
        {"path": "/c", "max_body": "1kb", "targets": 1},
        {"path": "/d", "rl": "rps 0.001\n burst 2", "max_body": "32", "max_headers": "100", "targets": 1},
        {"path": "/e", "targets": 3},
    ]
    cfg = cfg_text(None, routes, defaults=["max_body 2kb", "max_headers 256"])
    cases = []

    def add(path, body, headers=(), chunked=False, t=0, tag=""):
        cases.append({"path": path, "body_len": body, "headers": [{"name": n, "len": l} for n, l in headers], "chunked": chunked, "t": t, "_tag": tag})

    for path, mb in (("/b", 16), ("/c", 1024), ("/e", 2048)):
        for body in (0, 1, mb - 1, mb, mb + 1, mb + 2, 2 * mb, mb * 3 + 7):
            add(path, body, tag="body")
            if body in (mb - 1, mb, mb + 1):
                add(path, body, chunked=True, tag="body-chunked")
    # header limits: Content-Length: N contributes 14 + digits
    for path, mh in (("/b", 64), ("/e", 256)):
        for body in (4, 12):
            base = 14 + len(str(body))
            for total in (mh - 1, mh, mh + 1, mh + 50):
                pad = total - base - len("X-Pad")
                add(path, body, [("X-Pad", pad)], tag="hdr-single")
            # several headers adding up around the limit
            k = 3
            each = (mh - base) // k
            names = ["X-A", "X-Bb", "X-Ccc"]
            used = sum(len(n) for n in names)
            for delta in (-1, 0, 1):
                vals = [each - len(n) for n in names]
                vals[-1] += (mh - base) - sum(len(n) + v for n, v in zip(names, vals)) + delta
                add(path, body, list(zip(names, vals)), tag="hdr-multi")
            # credentials are not stored, so they do not count
            add(path, body, [("X-Pad", mh - base - 5), ("Authorization", 300)], tag="hdr-credentials-ignored")
            add(path, body, [("X-Pad", mh - base - 5), ("Cookie", 100), ("Proxy-Authorization", 80)], tag="hdr-credentials-ignored")
            add(path, body, [("X-Pad", mh - base - 4), ("Authorization", 300)], tag="hdr-credentials-ignored")
            # lower-case name is canonicalised (same length), repeated name is joined with ','
            add(path, body, [("x-pad", mh - base - 5)], tag="hdr-lowercase")
            add(path, body, [("X-Dup", 10), ("X-Dup", mh - base - 5 - 10 - 1)], tag="hdr-dup")
            add(path, body, [("X-Dup", 10), ("X-Dup", mh - base - 5 - 10)], tag="hdr-dup")
    # both too large: body is checked first, still 413
    add("/b", 17, [("X-Pad", 200)], tag="both")
    # 429: burst 2 then refused, also when the body is too large (rate limit comes first); one token is back after 1000 s
    add("/d", 4, tag="rate")
    add("/d", 4, tag="rate")
    add("/d", 4, tag="rate")
    add("/d", 400, tag="rate")
    add("/d", 4, [("X-Pad", 500)], tag="rate")
    add("/d", 4, t=NOW + 1000 * NS, tag="rate")
    add("/d", 33, t=NOW + 2000 * NS, tag="rate")        # token available, body too large: 413, and the token is spent
    add("/d", 4, t=NOW + 2000 * NS, tag="rate")
    add("/nope", 4, tag="notfound")
    for _ in range(10 if tier == "quick" else 500):
        path, mb, mh = rng.choice([("/b", 16, 64), ("/c", 1024, 256), ("/e", 2048, 256)])
        body = rng.choice([mb - 1, mb, mb + 1, rng.randint(0, 2 * mb)])
        hdrs = [("X-R%d" % i, rng.randint(0, mh // 2)) for i in range(rng.randint(0, 3))]
        add(path, body, hdrs, chunked=rng.random() < 0.3, tag="random")
    return cfg, routes, cases


def canonical_len(name):
    return len(name)


# ----------------------------------------------------------------------------------------------

def run(ctx, info, rng):
    H = info["hbin"]
    frag = {"part": "rate-limit and size limits"}
    evaluations = 0
    nontrivial = set()
    samples = []
    dist = {}
    mism = 0
    model_ok = info.get("coq_ok", False)
    t_start = ctx.wall()

    # proof obligations of this module (Properties/C12rl.v until the integrator merges it into C12.v)
    pfile = os.path.join(C.COQ, "Properties", "C12rl.v")
    if os.path.exists(pfile) and model_ok:
        pok, names, plog = C.coq_check_property_file("C12rl")
        closed, axioms = C.parse_assumptions(plog)
        frag["rl_theorems"] = names
        frag["rl_obligations"] = len(names)
        frag["rl_discharged"] = len(names) if pok else 0
        frag["rl_print_assumptions_closed"] = closed
        frag["rl_print_assumptions_axioms"] = axioms
        if not pok:
            frag["rl_proof_broken"] = plog[-1500:]

    def coq_eval(name, fn, terms):
        if not model_ok:
            return None
        res, log = fpq.coq_map_eval(ctx, name, REQ, fn, terms)
        if res is None:
            ctx.notes.append("model evaluation %s failed: %s" % (name, log[-600:]))
        return res

    # ------------------------------------------------------------------ (d1) AllowAt sequences
    cases = seq_cases(rng, ctx.tier)
    rc, out, err = C.harness_run(H, ["ratelimit-seq"], {"cases": [{k: v for k, v in c.items() if not k.startswith("_")} for c in cases]})
    if rc != 0:
        raise RuntimeError("ratelimit-seq failed: " + err[-2000:])
    sres = json.loads(out)
    f_terms = ["(%d, %d, %d, [%s])" % (c["rps_bits"], c["burst"], c["start"], "; ".join("(%d)" % t for t in c["times"])) for c in cases]
    fres = coq_eval("c12rlF", "runF_case", f_terms)
    q_terms, q_idx = [], []
    for i, (c, r) in enumerate(zip(cases, sres)):
        rate, burst = eff_rate_burst(c["rps_bits"], c["burst"])
        if rate is None or len(c["times"]) > 150:
            continue
        slack = (burst + 1) * (len(c["times"]) + 1) * Fraction(1, 1 << 48)
        calls = "; ".join("(%s, %s)" % (fpq.coq_Q(sec(t)), "true" if d == "1" else "false") for t, d in zip(c["times"], r["dec"]))
        rq = fpq.bits_fraction(c["rps_bits"]) if fpq.is_finite_bits(c["rps_bits"]) else Fraction(0)
        q_terms.append("(%s, %d, %s, [%s], %s)" % (fpq.coq_Q(rq), c["burst"], fpq.coq_Q(sec(c["start"])), calls, fpq.coq_Q(slack)))
        q_idx.append(i)
    qres = coq_eval("c12rlQ", "rq", q_terms)
    qmap = dict(zip(q_idx, qres)) if qres is not None else {}
    kinds = {}
    admitted_total = calls_total = 0
    twin_only = []
    seq_property_failures = 0
    for i, (c, r) in enumerate(zip(cases, sres)):
        evaluations += 1
        kinds[c["_kind"]] = kinds.get(c["_kind"], 0) + 1
        decs = [ch == "1" for ch in r["dec"]]
        calls_total += len(decs)
        admitted_total += sum(decs)
        problems = []
        corr = []
        key = "bucket:%s" % c["_kind"].split("_")[0]
        case = {"rps_bits": c["rps_bits"], "rps": repr(fpq.bits_float(c["rps_bits"])), "burst": c["burst"], "start": c["start"], "times": c["times"]}
        if fres is not None:
            m = fres[i]
            mdec, mtok, mlast = m[:-2], m[-2], m[-1]
            nan_tok = (r["tokens_bits"] >> 52) & 0x7FF == 0x7FF and (r["tokens_bits"] & ((1 << 52) - 1)) != 0
            if mdec != [1 if d else 0 for d in decs] or (not nan_tok and mtok != r["tokens_bits"]) or mlast != r["last"]:
                mism += 1
                corr.append("binary64 model: decisions %s tokens %d last %d; implementation: %s tokens %d last %d" %
                                ("".join(map(str, mdec)), mtok, mlast, r["dec"], r["tokens_bits"], r["last"]))
        rate, burst = eff_rate_burst(c["rps_bits"], c["burst"])
        if fpq.is_finite_bits(r["tokens_bits"]):
            tk = fpq.bits_fraction(r["tokens_bits"])
            if not (0 <= tk <= burst):
                key = "bucket-invariant"
                problems.append("final token count %s outside [0, burst=%s]" % (float(tk), burst))
        else:
            key = "bucket-invariant"
            problems.append("token count is not a finite number (%r)" % fpq.bits_float(r["tokens_bits"]))
        if rate is None:
            # a limiter whose rate is NaN/Inf has no bound to compare with: the check is that Compile never builds one (d3)
            if not c["_wb"]:
                problems.append("limiter built with a non-finite rate")
        else:
            slack = (burst + 1) * (len(decs) + 1) * Fraction(1, 1 << 48)
            excess, wi, wj = window_violation(sec(c["start"]), [sec(t) for t in c["times"]], decs, rate, burst, slack)
            if excess > 0:
                key = "rate-window"
                problems.append("calls %d..%d admit %d requests in %s s: more than burst %s + rps %s x window" %
                                (wi, wj, sum(decs[wi:wj + 1]), float(sec(max(c["times"][wi:wj + 1])) - sec(c["times"][wi])), burst, float(rate)))
            if i in qmap and qmap[i] != 0:
                corr.append("%d decisions are not justified by the exact token count within the float slack" % qmap[i])
        if sum(decs) > 0 and sum(decs) < len(decs):
            nontrivial.add(("seq", c["rps_bits"], c["burst"], c["start"], tuple(c["times"])))
        if c["_wb"] and rate is None and key == "bucket-invariant":
            problems = []        # white-box call with a NaN/Inf rate: nothing to judge, only the twin is compared
        if corr and not problems:
            twin_only.append({"case": case, "observed": {"decisions": r["dec"], "tokens_bits": r["tokens_bits"], "last": r["last"]}, "disagreement": corr})
        if problems:
            seq_property_failures += 1
            problems += corr
            C.report(ctx, key, "; ".join(problems),
                     {"kind": "schedule", "case": case, "observed": {"decisions": r["dec"], "tokens_bits": r["tokens_bits"], "last": r["last"]},
                      "problems": problems, "how_to_replay": "./check C12 --replay <this file>  (harness command ratelimit-seq)"})
        elif len(samples) < 4 and rng.random() < 0.04:
            samples.append({"part": "token-bucket", "case": {"rps": fpq.bits_float(c["rps_bits"]), "burst": c["burst"], "pattern": c["_kind"], "calls": len(decs)},
                            "observed": {"admitted": sum(decs)}})
    if twin_only:
        C.report(ctx, "bucket-model-correspondence", "AllowAt disagrees with the model on %d of %d arrival sequences while every window bound holds" % (len(twin_only), len(cases)),
                 {"kind": "obligation", "no_failing_input_found": seq_property_failures == 0,
                  "correspondence": "app.tokenBucketLimiter.AllowAt vs Model/TokenBucketFloat.v (bit-exact) and Model/TokenBucket.v replay (within the float slack)",
                  "sequences": len(twin_only), "examples": twin_only[:4],
                  "note": "searched %d arrival sequences (all windows each) for more than burst + rps x window admitted calls: %d found" % (len(cases), seq_property_failures)})
    dist["sequences"] = {"cases": len(cases), "patterns": kinds, "calls": calls_total, "admitted": admitted_total,
                         "exact_model_replayed_in_coq": len(q_terms)}

    # ------------------------------------------------------------------ (d2)+(d3) allowIngress on compiled configs
    scases = state_cases(rng, ctx.tier)
    dcases = []
    for body, valid, why in RL_DIRECTIVES:
        for where in ("global", "route"):
            g = body if where == "global" else None
            routes = [{"path": "/a", "rl": body if where == "route" else None}]
            reqs = [{"route": "/a", "t": NOW}] * 40 + [{"route": "/a", "t": NOW + NS}] * 5
            dcases.append({"config": cfg_text(g, routes), "start": NOW, "reqs": reqs, "reload_at": 0, "_name": "directive", "_valid": valid, "_why": why,
                           "_where": where, "_body": body})
    allc = scases + dcases
    rc, out, err = C.harness_run(H, ["ratelimit-state"], {"cases": [{k: v for k, v in c.items() if not k.startswith("_")} for c in allc]})
    if rc != 0:
        raise RuntimeError("ratelimit-state failed: " + err[-2000:])
    stres = json.loads(out)
    twin_terms, twin_idx = [], []
    accepted = rejected = 0
    choice_hist = {"route": 0, "global": 0, "none": 0}
    plan = []
    for ci, (c, r) in enumerate(zip(allc, stres)):
        evaluations += 1
        if c["_name"] == "directive":
            if r["ok"]:
                accepted += 1
                lim = r["global"] if c["_where"] == "global" else r["routes"][0]
                bad = []
                if not lim["enabled"]:
                    bad.append("limiter not enabled")
                if not fpq.is_finite_bits(lim["rps_bits"]) or fpq.bits_fraction(lim["rps_bits"]) <= 0:
                    bad.append("rps %r is not a positive finite number" % fpq.bits_float(lim["rps_bits"]))
                if lim["burst"] < 1:
                    bad.append("burst %d" % lim["burst"])
                if bad or not c["_valid"]:
                    C.report(ctx, "compile-accepts:%s" % (c["_why"] or "invalid-values"),
                             "config.Compile accepted rate_limit { %s } (%s): %s; the limiter then admitted %d of 40 simultaneous requests" %
                             (c["_body"].replace("\n", ";"), c["_where"], bad, r["dec"][:40].count("1")),
                             {"kind": "program", "case": {"config": c["config"]}, "observed": {"compiled": lim, "decisions": r["dec"]},
                              "expected": "rejected by Compile", "how_to_replay": "./check C12 --replay <this file>  (harness command ratelimit-state)"})
            else:
                rejected += 1
                if c["_valid"]:
                    ctx.notes.append("rate_limit directive expected to compile was rejected: %s -> %s" % (c["_body"], r.get("errors")))
        if not r["ok"]:
            if c["_name"] != "directive":
                raise RuntimeError("state config rejected: %s" % r.get("errors"))
            continue
        # limiter choice (route override, else global, else none) and per-limiter projection
        own = {x["path"]: x for x in r["routes"] if x["enabled"]}
        glob = r["global"] if r["global"]["enabled"] else None
        seqs = {}            # limiter id -> list of (request index, t)
        epoch = {}           # limiter id -> start time of the current arming
        cur_start = c["start"]
        prev_t = c["start"]
        segs = []            # (limiter id, start, [(idx, t)], epoch)
        open_seg = {}
        ep = 0
        for k, q in enumerate(c["reqs"]):
            if c["reload_at"] and k == c["reload_at"]:
                cur_start = prev_t          # updateAll re-arms every bucket at the clock's current value
                open_seg = {}
                ep = 1
            lid = q["route"] if q["route"] in own else ("" if glob else None)
            choice_hist["route" if lid not in ("", None) else ("global" if lid == "" else "none")] += 1
            if lid is None:
                if r["dec"][k] != "1":
                    C.report(ctx, "limiter-choice:none", "request %d for %s refused although neither the route nor the ingress declares a rate limit" % (k, q["route"]),
                             {"kind": "schedule", "case": {"config": c["config"], "reqs": c["reqs"][:k + 1]}, "observed": r["dec"]})
            else:
                if lid not in open_seg:
                    open_seg[lid] = (lid, cur_start, [], ep)
                    segs.append(open_seg[lid])
                open_seg[lid][2].append((k, q["t"]))
            prev_t = q["t"]
        for lid, st, items, sep in segs:
            lim = own[lid] if lid else glob
            twin_terms.append("(%d, %d, %d, [%s])" % (lim["rps_bits"], lim["burst"], st, "; ".join("(%d)" % t for _, t in items)))
            twin_idx.append((ci, lid, st, [k for k, _ in items], [t for _, t in items], lim, sep))
        plan.append(ci)
    tres = coq_eval("c12rlS", "runF_case", twin_terms)
    last_seg = {}
    for n, (ci, lid, st, idxs, ts, lim, sep) in enumerate(twin_idx):
        c, r = allc[ci], stres[ci]
        evaluations += 1
        decs = [r["dec"][k] == "1" for k in idxs]
        problems = []
        key = "limiter-choice:%s" % ("route" if lid else "global")
        if tres is not None:
            m = tres[n]
            if m[:-2] != [1 if d else 0 for d in decs]:
                mism += 1
                problems.append("decisions for the requests this limiter must see are %s; its model on exactly those requests gives %s" %
                                ("".join("1" if d else "0" for d in decs), "".join(map(str, m[:-2]))))
            last_seg[(ci, lid)] = (sep, m[-2], m[-1])
        rate, burst = eff_rate_burst(lim["rps_bits"], lim["burst"])
        if rate is None:
            key = "rate-window:unbounded"
            problems.append("limiter %r runs with the non-finite rate %r: %d of %d requests admitted, no bound applies" %
                            (lid or "<global>", fpq.bits_float(lim["rps_bits"]), sum(decs), len(decs)))
        else:
            slack = (burst + 1) * (len(decs) + 1) * Fraction(1, 1 << 48)
            excess, wi, wj = window_violation(sec(st), [sec(t) for t in ts], decs, rate, burst, slack)
            if excess > 0:
                key = "rate-window:%s" % ("route" if lid else "global")
                problems.append("limiter %r admits %d requests between its calls %d..%d: more than burst %s + rps %s x window" %
                                (lid or "<global>", sum(decs[wi:wj + 1]), wi, wj, burst, float(rate)))
        if any(decs) and not all(decs):
            nontrivial.add(("state", c["config"], lid, st, tuple(ts)))
        if problems:
            C.report(ctx, key, "; ".join(problems),
                     {"kind": "schedule", "case": {"config": c["config"], "start": c["start"], "reqs": c["reqs"], "reload_at": c["reload_at"], "limiter": lid or "<global>"},
                      "observed": {"decisions": r["dec"]}, "problems": problems,
                      "how_to_replay": "./check C12 --replay <this file>  (harness command ratelimit-state)"})
    # final state of every limiter = its twin's final state on its last arming (others untouched)
    for ci in plan:
        r = stres[ci]
        for f in r.get("final") or []:
            got = (f["tokens_bits"], f["last"])
            final_ep = 1 if allc[ci]["reload_at"] else 0
            ls = last_seg.get((ci, f["path"]))
            if ls is not None and ls[0] == final_ep:
                want = (ls[1], ls[2])
            else:
                lim = r["global"] if f["path"] == "" else [x for x in r["routes"] if x["path"] == f["path"]][0]
                st = allc[ci]["start"]
                if allc[ci]["reload_at"]:
                    st = allc[ci]["reqs"][allc[ci]["reload_at"] - 1]["t"]
                want = (fpq.float_bits(float(lim["burst"])), st)      # not consulted since it was (re-)armed: still full
            if tres is not None and got != want and fpq.is_finite_bits(got[0]):
                mism += 1
                C.report(ctx, "limiter-choice:untouched", "limiter %r ends with tokens/last %s, expected %s (a limiter that was not consulted must not change)" % (f["path"] or "<global>", got, want),
                         {"kind": "schedule", "case": {"config": allc[ci]["config"], "reqs": allc[ci]["reqs"], "reload_at": allc[ci]["reload_at"]}, "observed": r})
    dist["allow_ingress"] = {"configs": len(scases), "requests": sum(len(c["reqs"]) for c in scases), "limiter_chosen": choice_hist,
                             "limiter_segments": len(twin_idx), "reload_cases": sum(1 for c in scases if c["reload_at"])}
    dist["rate_limit_directives"] = {"generated": len(dcases), "accepted": accepted, "rejected": rejected,
                                     "expected_invalid": sum(1 for c in dcases if not c["_valid"])}

    # ------------------------------------------------------------------ (d4) concurrent hammering
    hammer = []
    for cfg, route, rps, burst in ((cfg_text(None, [{"path": "/a", "rl": "rps 2000\n burst 50"}]), "/a", 2000, 50),
                                   (cfg_text("rps 500\n burst 5", [{"path": "/a"}]), "/a", 500, 5)):
        rc, out, err = C.harness_run(H, ["ratelimit-hammer"], {"config": cfg, "route": route, "goroutines": 8, "duration_ms": 220 if ctx.tier == "quick" else 1500, "pause_us": 0})
        if rc != 0:
            raise RuntimeError("ratelimit-hammer failed: " + err[-2000:])
        h = json.loads(out)
        evaluations += 1
        adm = h["admitted"]
        end = h["end"]
        rate, b = Fraction(rps), Fraction(burst)
        problems = []
        total_bound = b + rate * sec(end)
        if len(adm) > total_bound:
            problems.append("%d requests admitted in %s s: more than burst + rps x elapsed = %s" % (len(adm), float(sec(end)), float(total_bound)))
        # windows on a 10 ms grid: a call that started at or after a and returned by c was decided inside [a, c]
        grid = list(range(0, end + 10 ** 7, 10 ** 7))
        worst = 0
        for ai in range(len(grid)):
            for cj in range(ai + 1, len(grid)):
                a, cc = grid[ai], grid[cj]
                n = sum(1 for (bb, aa) in adm if bb >= a and aa <= cc)
                bound = b + rate * sec(cc - a)
                worst = max(worst, n - bound)
                if n > bound:
                    problems.append("%d requests admitted inside [%d, %d] ns: more than %s" % (n, a, cc, float(bound)))
                    break
            if problems:
                break
        nontrivial.add(("hammer", rps, burst, len(adm)))
        hammer.append({"rps": rps, "burst": burst, "calls": h["total_calls"], "admitted": len(adm), "elapsed_s": float(sec(end)), "bound_total": float(total_bound)})
        if problems:
            C.report(ctx, "rate-window:concurrent", "; ".join(problems[:3]),
                     {"kind": "schedule", "case": {"config": cfg, "route": route, "goroutines": 8}, "observed": {"admitted": len(adm), "calls": h["total_calls"], "end_ns": end},
                      "problems": problems[:3]})
    dist["hammer"] = hammer

    # ------------------------------------------------------------------ (e) size limits / 429 over loopback HTTP
    cfg, routes, zcases = size_plan(rng, ctx.tier)
    rc, out, err = C.harness_run(H, ["ingress-size"], {"config": cfg, "start": NOW, "cases": [{k: v for k, v in c.items() if not k.startswith("_")} for c in zcases]})
    if rc != 0:
        raise RuntimeError("ingress-size failed: " + err[-2000:])
    zr = json.loads(out)
    if not zr.get("ok"):
        raise RuntimeError("size-limit config rejected: %s" % zr.get("errors"))
    rinfo = {x["path"]: x for x in zr["routes"]}
    # rate limiter of /d (burst 2, rps 0.001): python twin, exact arithmetic is enough at these magnitudes
    tokens, last = Fraction(2), NOW
    clock = NOW
    sz_terms, exp_rows = [], []
    for c in zcases:
        if c["t"]:
            clock = c["t"]
        ri = rinfo.get(c["path"])
        if ri is None:
            exp_rows.append(("404", None, None, None))
            continue
        rate_ok = True
        if c["path"] == "/d":
            if clock > last:
                tokens = min(Fraction(2), tokens + Fraction(clock - last, NS) * Fraction(1, 1000))
                last = clock
            if tokens < 1:
                rate_ok = False
            else:
                tokens -= 1
        mb = ri["max_body"] if ri["max_body"] > 0 else zr["default_max_body"]
        mh = ri["max_headers"] if ri["max_headers"] > 0 else zr["default_max_headers"]
        # what the handler stores: Content-Length (unless chunked) + the non-credential headers, same names joined by ','
        hs = {}
        if not c["chunked"]:
            hs["Content-Length"] = [len(str(c["body_len"]))]
        for h in c["headers"]:
            canon = "-".join(p[:1].upper() + p[1:].lower() for p in h["name"].split("-"))
            if canon.lower() in ("authorization", "proxy-authorization", "cookie"):
                continue
            hs.setdefault(canon, []).append(h["len"])
        pairs = [(len(k), sum(v) + len(v) - 1) for k, v in hs.items()]
        size = sum(a + b for a, b in pairs)
        sz_terms.append("(%s, %d, %d, [%s], %d)" % ("true" if rate_ok else "false", c["body_len"], mb, "; ".join("(%d, %d)" % p for p in pairs), mh))
        exp_rows.append(("model", size, ri["targets"], (rate_ok, mb, mh)))
    zres = coq_eval("c12rlZ", "sz", sz_terms)
    zi = 0
    tag_hist, status_hist = {}, {}
    for c, o, ex in zip(zcases, zr["cases"], exp_rows):
        evaluations += 1
        tag_hist[c["_tag"]] = tag_hist.get(c["_tag"], 0) + 1
        status_hist[str(o["status"])] = status_hist.get(str(o["status"]), 0) + 1
        problems = []
        key = "size:%s" % c["_tag"]
        if ex[0] == "404":
            if o["status"] != 404 or not o["same_queue"]:
                problems.append("unknown path answered %d, queue same=%s" % (o["status"], o["same_queue"]))
        else:
            _, size, targets, (rate_ok, mb, mh) = ex
            want = None
            if zres is not None:
                want = zres[zi]
            zi += 1
            py = 429 if not rate_ok else (413 if c["body_len"] > mb else (413 if size > mh else 202))
            if want is not None and want != py:
                raise RuntimeError("Python twin of Model/SizeLimit.v disagrees with Coq on %s" % c)
            want = py
            if o["reached"] and rate_ok and c["body_len"] <= mb and o["hdr_size"] != size:
                problems.append("harness measured %d header bytes at the handler, expected %d from what was sent" % (o["hdr_size"], size))
            if o["status"] != want:
                mism += 1
                if want == 413:
                    key = "size:oversize-admitted" if o["status"] == 202 else key
                problems.append("status %d, expected %d (body %d/%d, headers %d/%d, rate_ok=%s)" % (o["status"], want, c["body_len"], mb, size, mh, rate_ok))
            if o["status"] != 202:
                if not o["same_queue"] or o["before"] != o["after"]:
                    key = "refusal-changes-queue:%d" % o["status"]
                    problems.append("request refused with %d but the queue changed (%d -> %d messages)" % (o["status"], o["before"], o["after"]))
            else:
                if o["after"] - o["before"] != targets or sorted(o["new_payloads"] or []) != [c["body_len"]] * targets or o["new_targets"] != targets:
                    problems.append("accepted request stored %s payload lengths for %d targets (body %d)" % (o["new_payloads"], targets, c["body_len"]))
                if c["body_len"] > mb or size > mh:
                    key = "size:oversize-admitted"
                    problems.append("request with body %d (max %d) / headers %d (max %d) was accepted" % (c["body_len"], mb, size, mh))
            nontrivial.add(("size", c["path"], c["body_len"], size, c["chunked"], rate_ok))
        if problems:
            C.report(ctx, key, "; ".join(problems),
                     {"kind": "request", "case": {"config": cfg, "request": {k: v for k, v in c.items() if not k.startswith("_")}},
                      "observed": o, "problems": problems, "how_to_replay": "./check C12 --replay <this file>  (harness command ingress-size)"})
        elif len(samples) < 8 and rng.random() < 0.05:
            samples.append({"part": "size", "case": {k: v for k, v in c.items() if not k.startswith("_")}, "observed": {"status": o["status"], "queue_delta": o["after"] - o["before"]}})
    dist["size_requests"] = {"cases": len(zcases), "by_kind": tag_hist, "by_status": status_hist}

    model_evaluated = all(x is not None for x in (fres, qres, tres, zres))
    frag.update({
        "rl_evaluations": evaluations,
        "rl_distinct_nontrivial": len(nontrivial),
        "rl_rule": "token bucket: distinct (rps bits, burst, creation time, arrival sequence) with at least one admitted and one refused call; "
                   "allowIngress: distinct (config, limiter, arming, projected arrival sequence) with both outcomes; size: distinct (route, body size, stored header size, "
                   "chunked, rate verdict); hammer runs",
        "rl_samples": samples,
        "rl_model_impl_mismatches": mism,
        "rl_model_evaluated_in_coq": model_evaluated,
        "rl_input_distribution": dist,
        "rl_wall_s": round(ctx.wall() - t_start, 2),
        "rl_assumptions": [
            "the injected clock yields time.Time values without a monotonic reading; times are int64 Unix ns",
            "binary64 rounding of the token count: the float twin is compared bit-exactly; decisions are replayed on the exact-rational model with slack "
            "(burst+1)*(calls+1)*2^-48 tokens and the window bound is evaluated with the same slack (no Flocq proof)",
            "windows that span a reload are not judged (a reload re-arms the buckets; the check restarts the twin at the reload instant)",
            "concurrent hammer: a call is attributed to a window only if it started and returned inside it (real clock)",
            "size limits: net/http request parsing and MaxBytesReader are trusted; the stored header size is measured by the harness independently at the handler",
        ],
    })
    if not model_evaluated and model_ok:
        frag["rl_model_failure"] = ctx.notes[-1:] if ctx.notes else ["?"]
    return frag
