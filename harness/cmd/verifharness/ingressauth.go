//go:build verif

package main

// C08 / C09 black-box driver: the real ingress.Server wired by the real
// runtimeState.loadAuth (shim internal/app/zz_verif_c08c09.go) from Hookaidofiles that
// went through the real config.Parse / config.Compile, served by a real net/http server
// on loopback; requests are written as raw bytes on a TCP connection; a scripted loopback
// auth service plays the forward-auth endpoint.  The queue is a real MemoryStore behind
// a thin wrapper that can refuse the k-th Enqueue of a request (fan-out oracle).

import (
	"bufio"
	"crypto/hmac"
	"crypto/sha256"
	"encoding/base64"
	"encoding/hex"
	"encoding/json"
	"errors"
	"fmt"
	"io"
	"net"
	"net/http"
	"os"
	"path"
	"path/filepath"
	"strconv"
	"strings"
	"sync"
	"sync/atomic"
	"time"

	"github.com/nuetzliches/hookaido/internal/app"
	"github.com/nuetzliches/hookaido/internal/config"
	"github.com/nuetzliches/hookaido/internal/ingress"
	"github.com/nuetzliches/hookaido/internal/queue"
)

func init() {
	register("auth-run", authRun)
	register("crypto-vectors", cryptoVectors)
	register("compile-check", compileCheck)
	register("lib-twins", libTwins)
}

// lib-twins: the Go library functions Verify / BasicAuth call, on given byte strings (hex in, hex out).
type arLtOut struct {
	Trim     string `json:"trim"`
	IntOK    bool   `json:"int_ok"`
	Int      int64  `json:"int"`
	HexOK    bool   `json:"hex_ok"`
	Hex      string `json:"hex"`
	BasicOK  bool   `json:"basic_ok"`
	User     string `json:"user"`
	Pass     string `json:"pass"`
	Clean    string `json:"clean"`
	Canon    string `json:"canon"`
}

func libTwins(in []byte) (any, error) {
	var vals []string
	if err := json.Unmarshal(in, &vals); err != nil {
		return nil, err
	}
	out := make([]arLtOut, 0, len(vals))
	for _, hv := range vals {
		b, err := hex.DecodeString(hv)
		if err != nil {
			return nil, err
		}
		v := string(b)
		o := arLtOut{Trim: hex.EncodeToString([]byte(strings.TrimSpace(v)))}
		if n, err := strconv.ParseInt(v, 10, 64); err == nil {
			o.IntOK, o.Int = true, n
		}
		if d, err := hex.DecodeString(v); err == nil {
			o.HexOK, o.Hex = true, hex.EncodeToString(d)
		}
		r := &http.Request{Header: http.Header{}}
		r.Header["Authorization"] = []string{v}
		u, p, ok := r.BasicAuth()
		o.BasicOK, o.User, o.Pass = ok, hex.EncodeToString([]byte(u)), hex.EncodeToString([]byte(p))
		o.Clean = hex.EncodeToString([]byte(path.Clean(v)))
		o.Canon = hex.EncodeToString([]byte(http.CanonicalHeaderKey(v)))
		out = append(out, o)
	}
	return out, nil
}

// compile-check: real config.Parse + config.Compile on each text.
type arCcOut struct {
	ParseOK   bool     `json:"parse_ok"`
	CompileOK bool     `json:"compile_ok"`
	Errors    []string `json:"errors"`
}

func compileCheck(in []byte) (any, error) {
	var texts []string
	if err := json.Unmarshal(in, &texts); err != nil {
		return nil, err
	}
	out := make([]arCcOut, 0, len(texts))
	for _, t := range texts {
		cfg, err := config.Parse([]byte(t))
		if err != nil {
			out = append(out, arCcOut{Errors: []string{err.Error()}})
			continue
		}
		_, res := config.Compile(cfg)
		out = append(out, arCcOut{ParseOK: true, CompileOK: res.OK, Errors: res.Errors})
	}
	return out, nil
}

// ---------------------------------------------------------------------------
// crypto-vectors: Go's sha256 / hmac-sha256 on given inputs (hex)

type arCvIn struct {
	Sha  []string    `json:"sha"`
	Hmac [][2]string `json:"hmac"`
}

func cryptoVectors(in []byte) (any, error) {
	var c arCvIn
	if err := json.Unmarshal(in, &c); err != nil {
		return nil, err
	}
	out := map[string][]string{"sha": {}, "hmac": {}}
	for _, m := range c.Sha {
		b, err := hex.DecodeString(m)
		if err != nil {
			return nil, err
		}
		s := sha256.Sum256(b)
		out["sha"] = append(out["sha"], hex.EncodeToString(s[:]))
	}
	for _, km := range c.Hmac {
		k, err := hex.DecodeString(km[0])
		if err != nil {
			return nil, err
		}
		m, err := hex.DecodeString(km[1])
		if err != nil {
			return nil, err
		}
		mac := hmac.New(sha256.New, k)
		mac.Write(m)
		out["hmac"] = append(out["hmac"], hex.EncodeToString(mac.Sum(nil)))
	}
	return out, nil
}

// ---------------------------------------------------------------------------
// input / output

type arIn struct {
	Dir       string       `json:"dir"`
	Scenarios []arScenario `json:"scenarios"`
}

type arScenario struct {
	Name    string            `json:"name"`
	Configs []string          `json:"configs"` // {{FWD}} / {{FWD_CLOSED}} are replaced by the auth service base URLs
	Env     map[string]string `json:"env"`
	Steps   []arStep          `json:"steps"`
}

type arStep struct {
	Op     string `json:"op"` // load | req | concurrent | race
	Cfg    int    `json:"cfg"`
	Now    int64  `json:"now"`  // HMAC clock (ns) while this request is served
	Wire   string `json:"wire"` // base64 of the raw bytes written to the socket
	Half   bool   `json:"half"` // close the write side after sending (truncated body)
	Fwd    string `json:"fwd"`  // behaviour of the auth service for this request
	Hangup bool   `json:"hangup"` // the caller closes its connection while the auth service is being asked (it does not wait for the answer)
	FailAt int    `json:"fail_at"`
	N      int    `json:"n"`
	WireB  string `json:"wire_b"`
	NowB   int64  `json:"now_b"`
	// a reload (of configuration ReloadCfg) completes while this request is in flight: after the handler has fetched the route's
	// authenticator and before that authenticator looks at the request
	ReloadInFlight bool `json:"reload_in_flight"`
	ReloadCfg      int  `json:"reload_cfg"`
}

type arParsed struct {
	Method    string              `json:"method"`
	URLPath   string              `json:"url_path"`
	CleanPath string              `json:"clean_path"`
	Route     string              `json:"route"`
	RouteOK   bool                `json:"route_ok"`
	Allowed   []string            `json:"allowed"`
	Headers   map[string][]string `json:"headers"` // canonical key -> values, each value hex-encoded (byte exact)
	Host      string              `json:"host"`
	MethodHex string              `json:"method_hex"`
	URLHex    string              `json:"url_path_hex"`
	CleanHex  string              `json:"clean_path_hex"`
	BasicUser string              `json:"basic_user"` // hex
	BasicPass string              `json:"basic_pass"` // hex
	BasicOK   bool                `json:"basic_ok"`
	BodyRead  string              `json:"body_read"` // hex of what the handler read from r.Body
	BodyErr   bool                `json:"body_err"`
}

type arEnq struct {
	Route      string            `json:"route"`
	Target     string            `json:"target"`
	PayloadSHA string            `json:"payload_sha"`
	PayloadLen int               `json:"payload_len"`
	Headers    map[string]string `json:"headers"`
	OK         bool              `json:"ok"`
}

type arFwdSeen struct {
	Method     string `json:"method"`
	OrigPath   string `json:"orig_path"`
	OrigMethod string `json:"orig_method"`
	BodyLen    int    `json:"body_len"`
	Answer     string `json:"answer"`
}

type arRouteInfo struct {
	Path       string            `json:"path"`
	Basic      map[string]string `json:"basic"` // hex user -> hex password
	Forward    bool              `json:"forward"`
	ForwardURL string            `json:"forward_url"`
	FwdTimeout int64             `json:"fwd_timeout"`
	FwdCopy    []string          `json:"fwd_copy"`
	HMAC       bool              `json:"hmac"`
	SigHeader  string            `json:"sig_header"`
	TsHeader   string            `json:"ts_header"`
	NonceHdr   string            `json:"nonce_header"`
	Tolerance  int64             `json:"tolerance"`
	Static     []string          `json:"static_secrets"` // hex
	Dynamic    bool              `json:"dynamic"`        // SelectSecrets set
	Targets    []string          `json:"targets"`
	MaxBody    int64             `json:"max_body"`
	MaxHeader  int               `json:"max_header"`
}

type arStepOut struct {
	Op       string        `json:"op"`
	LoadOK   bool          `json:"load_ok"`
	LoadErr  string        `json:"load_err,omitempty"`
	Routes   []arRouteInfo `json:"routes,omitempty"`
	Status   int           `json:"status"`
	Reached  bool          `json:"reached"` // the ingress handler saw the request
	Parsed   *arParsed     `json:"parsed,omitempty"`
	Calls    []arEnq       `json:"calls"`     // Store.Enqueue calls made while serving (in order, with result)
	NewItems []arEnq       `json:"new_items"` // listing after minus listing before
	TotalB   int           `json:"total_before"`
	TotalA   int           `json:"total_after"`
	Fwd      []arFwdSeen   `json:"fwd"`
	Statuses []int         `json:"statuses,omitempty"` // concurrent / race
	Selected [][]string    `json:"selected,omitempty"`
}

type arScenOut struct {
	Name  string      `json:"name"`
	Steps []arStepOut `json:"steps"`
	Err   string      `json:"err,omitempty"`
}

// ---------------------------------------------------------------------------
// store wrapper

type arRecStore struct {
	queue.Store
	mu     sync.Mutex
	failAt int
	count  int
	calls  []arEnq
}

func arEnvOut(e queue.Envelope, ok bool) arEnq {
	s := sha256.Sum256(e.Payload)
	h := map[string]string{}
	for k, v := range e.Headers {
		h[k] = v
	}
	return arEnq{Route: e.Route, Target: e.Target, PayloadSHA: hex.EncodeToString(s[:]), PayloadLen: len(e.Payload), Headers: h, OK: ok}
}

func (s *arRecStore) Enqueue(env queue.Envelope) error {
	s.mu.Lock()
	s.count++
	fail := s.failAt > 0 && s.count == s.failAt
	s.mu.Unlock()
	var err error
	if fail {
		err = queue.ErrQueueFull
	} else {
		err = s.Store.Enqueue(env)
	}
	s.mu.Lock()
	s.calls = append(s.calls, arEnvOut(env, err == nil))
	s.mu.Unlock()
	return err
}

func (s *arRecStore) arm(failAt int) {
	s.mu.Lock()
	s.failAt, s.count, s.calls = failAt, 0, nil
	s.mu.Unlock()
}

func (s *arRecStore) taken() []arEnq {
	s.mu.Lock()
	defer s.mu.Unlock()
	out := append([]arEnq{}, s.calls...)
	return out
}

// ---------------------------------------------------------------------------
// scripted auth service

type arFwdService struct {
	mu       sync.Mutex
	behave   string
	seen     []arFwdSeen
	srv      *http.Server
	ln       net.Listener
	base     string
	closedLn string
	release  chan struct{}
	inflight chan struct{} // signalled when the auth service has received a call
	done     chan struct{} // signalled when it has answered
}

func newArFwdService() (*arFwdService, error) {
	f := &arFwdService{behave: "200", release: make(chan struct{}), inflight: make(chan struct{}, 64), done: make(chan struct{}, 64)}
	ln, err := net.Listen("tcp", "127.0.0.1:0")
	if err != nil {
		return nil, err
	}
	f.ln = ln
	f.base = "http://" + ln.Addr().String()
	// a port that was open once and is closed now: connection refused
	dead, err := net.Listen("tcp", "127.0.0.1:0")
	if err != nil {
		return nil, err
	}
	f.closedLn = "http://" + dead.Addr().String()
	dead.Close()
	mux := http.NewServeMux()
	mux.HandleFunc("/ok", func(w http.ResponseWriter, r *http.Request) { w.WriteHeader(200) })
	mux.HandleFunc("/", f.handle)
	f.srv = &http.Server{Handler: mux}
	go f.srv.Serve(ln)
	return f, nil
}

func (f *arFwdService) set(b string) {
	f.mu.Lock()
	if b == "" {
		b = "200"
	}
	f.behave = b
	f.seen = nil
	f.mu.Unlock()
}

func (f *arFwdService) take() []arFwdSeen {
	f.mu.Lock()
	defer f.mu.Unlock()
	return append([]arFwdSeen{}, f.seen...)
}

func (f *arFwdService) handle(w http.ResponseWriter, r *http.Request) {
	body, _ := io.ReadAll(r.Body)
	f.mu.Lock()
	b := f.behave
	f.seen = append(f.seen, arFwdSeen{Method: r.Method, OrigPath: r.Header.Get("X-Hookaido-Original-Path"),
		OrigMethod: r.Header.Get("X-Hookaido-Original-Method"), BodyLen: len(body), Answer: b})
	f.mu.Unlock()
	select {
	case f.inflight <- struct{}{}:
	default:
	}
	defer func() {
		select {
		case f.done <- struct{}{}:
		default:
		}
	}()
	if strings.HasPrefix(b, "slow") {
		// the decision takes a while (the caller of the ingress may hang up meanwhile), then the scripted status is answered
		time.Sleep(150 * time.Millisecond)
		code := 0
		fmt.Sscanf(strings.TrimPrefix(b, "slow"), "%d", &code)
		if code < 200 || code > 599 {
			code = 500
		}
		w.WriteHeader(code)
		return
	}
	switch b {
	case "hang":
		select {
		case <-time.After(3 * time.Second):
		case <-r.Context().Done():
		}
		w.WriteHeader(200) // too late: the caller has given up
	case "drop":
		if hj, ok := w.(http.Hijacker); ok {
			c, _, err := hj.Hijack()
			if err == nil {
				c.Close()
				return
			}
		}
		w.WriteHeader(500)
	case "raw101", "raw099", "raw100", "raw000":
		// final answers below 200, written on the raw connection (net/http's server cannot produce them):
		// only 2xx admits, so each of them must end in 503
		if hj, ok := w.(http.Hijacker); ok {
			c, _, err := hj.Hijack()
			if err == nil {
				switch b {
				case "raw101":
					io.WriteString(c, "HTTP/1.1 101 Switching Protocols\r\nConnection: Upgrade\r\nUpgrade: verif\r\n\r\n")
				case "raw099":
					io.WriteString(c, "HTTP/1.1 099 Odd\r\nContent-Length: 0\r\nConnection: close\r\n\r\n")
				case "raw100":
					io.WriteString(c, "HTTP/1.1 100 Continue\r\n\r\nHTTP/1.1 100 Continue\r\n\r\n")
				case "raw000":
					io.WriteString(c, "HTTP/1.1 000 Zero\r\nContent-Length: 0\r\nConnection: close\r\n\r\n")
				}
				c.Close()
				return
			}
		}
		w.WriteHeader(500)
	case "302loc":
		w.Header().Set("Location", "/ok")
		w.WriteHeader(302)
	case "200hdr":
		w.Header().Add("X-User-Id", "u-17")
		w.Header().Add("X-Org-Id", "o-1")
		w.Header().Add("X-Org-Id", "o-2")
		w.Header().Add("X-Not-Copied", "n")
		w.WriteHeader(200)
	default:
		code := 0
		fmt.Sscanf(b, "%d", &code)
		if code < 200 || code > 599 {
			code = 500
		}
		w.WriteHeader(code)
	}
}

// ---------------------------------------------------------------------------
// the runtime under test

type arRuntime struct {
	rt      *app.VerifAuthRuntime
	store   *arRecStore
	srv     *http.Server
	addr    string
	clock   atomic.Int64
	recMu   sync.Mutex
	records []*arParsed
	seenIDs map[string]bool
	cfgPath string
	fwd     *arFwdService
	nowHook atomic.Value // func() time.Time, overrides the plain clock when set (race step)
	hookMu    sync.Mutex
	afterAuth func() // run once, right after the handler fetched a route's HMAC authenticator
	configs   []string
}

type arTeeBody struct {
	rc  io.ReadCloser
	rec *arParsed
	buf []byte
	mu  *sync.Mutex
}

func (t *arTeeBody) Read(p []byte) (int, error) {
	n, err := t.rc.Read(p)
	t.mu.Lock()
	t.buf = append(t.buf, p[:n]...)
	t.rec.BodyRead = hex.EncodeToString(t.buf)
	if err != nil && err != io.EOF {
		t.rec.BodyErr = true
	}
	t.mu.Unlock()
	return n, err
}
func (t *arTeeBody) Close() error { return t.rc.Close() }

func (a *arRuntime) ServeHTTP(w http.ResponseWriter, r *http.Request) {
	rec := &arParsed{Method: r.Method, URLPath: r.URL.Path, Host: r.Host, Headers: map[string][]string{}}
	rec.CleanPath = path.Clean(r.URL.Path)
	rec.MethodHex = hex.EncodeToString([]byte(r.Method))
	rec.URLHex = hex.EncodeToString([]byte(r.URL.Path))
	rec.CleanHex = hex.EncodeToString([]byte(rec.CleanPath))
	for k, v := range r.Header {
		hv := make([]string, 0, len(v))
		for _, x := range v {
			hv = append(hv, hex.EncodeToString([]byte(x)))
		}
		rec.Headers[k] = hv
	}
	u, p, ok := r.BasicAuth()
	rec.BasicUser, rec.BasicPass, rec.BasicOK = hex.EncodeToString([]byte(u)), hex.EncodeToString([]byte(p)), ok
	rec.Route, rec.RouteOK = a.rt.Resolve(r, rec.CleanPath)
	if !rec.RouteOK && a.rt.Ingress.AllowedMethodsFor != nil {
		rec.Allowed = a.rt.Ingress.AllowedMethodsFor(r, rec.CleanPath)
	}
	if r.Body != nil {
		r.Body = &arTeeBody{rc: r.Body, rec: rec, mu: &a.recMu}
	}
	a.recMu.Lock()
	a.records = append(a.records, rec)
	a.recMu.Unlock()
	a.rt.Ingress.ServeHTTP(w, r)
}

func (a *arRuntime) now() time.Time {
	if h, ok := a.nowHook.Load().(func() time.Time); ok && h != nil {
		return h()
	}
	return time.Unix(0, a.clock.Load())
}

func (a *arRuntime) routeInfos() []arRouteInfo {
	var out []arRouteInfo
	for _, p := range a.rt.RoutePaths() {
		ri := arRouteInfo{Path: p}
		if b := a.rt.BasicFor(p); b != nil {
			ri.Basic = map[string]string{}
			for u, pw := range b.Users {
				ri.Basic[hex.EncodeToString([]byte(u))] = hex.EncodeToString([]byte(pw))
			}
		}
		if f := a.rt.ForwardFor(p); f != nil {
			ri.Forward = true
			ri.ForwardURL = f.URL
			ri.FwdTimeout = int64(f.Timeout)
			ri.FwdCopy = f.CopyHeaders
		}
		if h := a.rt.HMACFor(p); h != nil {
			ri.HMAC = true
			ri.SigHeader, ri.TsHeader, ri.NonceHdr = h.SignatureHeader, h.TimestampHeader, h.NonceHeader
			ri.Tolerance = int64(h.Tolerance)
			for _, s := range h.Secrets {
				ri.Static = append(ri.Static, hex.EncodeToString(s))
			}
			ri.Dynamic = h.SelectSecrets != nil
		}
		ri.Targets = a.rt.TargetsFor(p)
		ri.MaxBody, ri.MaxHeader = a.rt.LimitsFor(p)
		out = append(out, ri)
	}
	return out
}

func (a *arRuntime) close() {
	if a.srv != nil {
		a.srv.Close()
	}
}

func arSubstCfg(text string, f *arFwdService) string {
	text = strings.ReplaceAll(text, "{{FWD}}", f.base)
	text = strings.ReplaceAll(text, "{{FWD_CLOSED}}", f.closedLn)
	return text
}

func (a *arRuntime) load(text string) (bool, string) {
	tmp := a.cfgPath + ".tmp"
	if err := os.WriteFile(tmp, []byte(arSubstCfg(text, a.fwd)), 0o600); err != nil {
		return false, err.Error()
	}
	if err := os.Rename(tmp, a.cfgPath); err != nil {
		return false, err.Error()
	}
	if a.rt == nil {
		ms := queue.NewMemoryStore()
		a.store = &arRecStore{Store: ms}
		rt, err := app.VerifAuthNewRuntime(a.cfgPath, a.store)
		if err != nil {
			return false, err.Error()
		}
		a.rt = rt
		origAuthFor := rt.Ingress.HMACAuthFor
		rt.Ingress.HMACAuthFor = func(route string) *ingress.HMACAuth {
			h := origAuthFor(route)
			a.hookMu.Lock()
			f := a.afterAuth
			a.afterAuth = nil
			a.hookMu.Unlock()
			if f != nil {
				f()
			}
			return h
		}
		ln, err := net.Listen("tcp", "127.0.0.1:0")
		if err != nil {
			return false, err.Error()
		}
		a.addr = ln.Addr().String()
		a.srv = &http.Server{Handler: a, ReadHeaderTimeout: 5 * time.Second}
		go a.srv.Serve(ln)
		a.rt.SetHMACNow(a.now)
		return true, ""
	}
	ok := a.rt.Reload()
	a.rt.SetHMACNow(a.now) // loadAuth builds authenticators with time.Now
	if !ok {
		return false, "reloadConfig refused"
	}
	return true, ""
}

// send writes raw bytes on a fresh connection and returns the status (0 = no parsable response).
func (a *arRuntime) send(raw []byte, half bool) int {
	c, err := net.DialTimeout("tcp", a.addr, 3*time.Second)
	if err != nil {
		return -1
	}
	defer c.Close()
	c.SetDeadline(time.Now().Add(8 * time.Second))
	if _, err := c.Write(raw); err != nil {
		return -2
	}
	if half {
		if tc, ok := c.(*net.TCPConn); ok {
			tc.CloseWrite()
		}
	}
	resp, err := http.ReadResponse(bufio.NewReader(c), nil)
	if err != nil {
		return 0
	}
	io.Copy(io.Discard, io.LimitReader(resp.Body, 1<<16))
	resp.Body.Close()
	return resp.StatusCode
}

// sendHangup writes the request, waits until the auth service has been asked, closes the connection and then gives the handler time
// to finish (the auth service answers 150 ms after it was asked).  No status can be observed: -7.
func (a *arRuntime) sendHangup(raw []byte) int {
	for len(a.fwd.inflight) > 0 {
		<-a.fwd.inflight
	}
	for len(a.fwd.done) > 0 {
		<-a.fwd.done
	}
	c, err := net.DialTimeout("tcp", a.addr, 3*time.Second)
	if err != nil {
		return -1
	}
	if _, err := c.Write(raw); err != nil {
		c.Close()
		return -2
	}
	select {
	case <-a.fwd.inflight:
	case <-time.After(2 * time.Second):
		c.Close()
		return -8 // the auth service was never asked
	}
	if tc, ok := c.(*net.TCPConn); ok {
		tc.SetLinger(0) // reset, as a caller that went away
	}
	c.Close()
	select {
	case <-a.fwd.done:
	case <-time.After(2 * time.Second):
	}
	// the handler continues after the auth call returned or was cancelled: let it finish
	last := a.total()
	for i := 0; i < 8; i++ {
		time.Sleep(40 * time.Millisecond)
		if n := a.total(); n != last {
			last = n
			i = 0
		}
	}
	return -7
}

func (a *arRuntime) total() int {
	st, err := a.store.Stats()
	if err != nil {
		return -1
	}
	return st.Total
}

func (a *arRuntime) newItems(max int) []arEnq {
	if max < 8 {
		max = 8
	}
	resp, err := a.store.ListMessages(queue.MessageListRequest{Order: "desc", Limit: max + 8, IncludePayload: true, IncludeHeaders: true})
	if err != nil {
		return nil
	}
	var fresh []queue.Envelope
	for _, it := range resp.Items {
		if !a.seenIDs[it.ID] {
			a.seenIDs[it.ID] = true
			fresh = append(fresh, it)
		}
	}
	out := []arEnq{}
	for i := len(fresh) - 1; i >= 0; i-- { // oldest first
		out = append(out, arEnvOut(fresh[i], true))
	}
	return out
}

func (a *arRuntime) takeRecords() []*arParsed {
	a.recMu.Lock()
	defer a.recMu.Unlock()
	out := a.records
	a.records = nil
	return out
}

func (a *arRuntime) doReq(st arStep) arStepOut {
	out := arStepOut{Op: "req", Calls: []arEnq{}, NewItems: []arEnq{}}
	raw, err := base64.StdEncoding.DecodeString(st.Wire)
	if err != nil {
		out.Status = -9
		return out
	}
	a.clock.Store(st.Now)
	a.store.arm(st.FailAt)
	a.fwd.set(st.Fwd)
	a.takeRecords()
	out.TotalB = a.total()
	if st.ReloadInFlight && st.ReloadCfg >= 0 && st.ReloadCfg < len(a.configs) {
		text := a.configs[st.ReloadCfg]
		a.hookMu.Lock()
		a.afterAuth = func() { a.load(text) }
		a.hookMu.Unlock()
	}
	if st.Hangup {
		out.Status = a.sendHangup(raw)
	} else {
		out.Status = a.send(raw, st.Half)
	}
	out.TotalA = a.total()
	recs := a.takeRecords()
	if len(recs) > 0 {
		out.Reached = true
		a.recMu.Lock()
		cp := *recs[0]
		a.recMu.Unlock()
		out.Parsed = &cp
	}
	out.Calls = a.store.taken()
	out.NewItems = a.newItems(out.TotalA - out.TotalB)
	out.Fwd = a.fwd.take()
	return out
}

func arRunScenario(dir string, idx int, sc arScenario, fwd *arFwdService) (res arScenOut) {
	res.Name = sc.Name
	for k, v := range sc.Env {
		os.Setenv(k, v)
	}
	defer func() {
		for k := range sc.Env {
			os.Unsetenv(k)
		}
	}()
	d := filepath.Join(dir, fmt.Sprintf("sc%d", idx))
	if err := os.MkdirAll(d, 0o700); err != nil {
		res.Err = err.Error()
		return
	}
	a := &arRuntime{cfgPath: filepath.Join(d, "Hookaidofile"), seenIDs: map[string]bool{}, fwd: fwd, configs: sc.Configs}
	defer a.close()
	for _, st := range sc.Steps {
		switch st.Op {
		case "load":
			if st.Cfg < 0 || st.Cfg >= len(sc.Configs) {
				res.Err = "bad cfg index"
				return
			}
			ok, msg := a.load(sc.Configs[st.Cfg])
			so := arStepOut{Op: "load", LoadOK: ok, LoadErr: msg, Calls: []arEnq{}, NewItems: []arEnq{}}
			if a.rt != nil {
				so.Routes = a.routeInfos()
			}
			res.Steps = append(res.Steps, so)
			if a.rt == nil {
				res.Err = "initial load failed: " + msg
				return
			}
		case "req":
			res.Steps = append(res.Steps, a.doReq(st))
		case "concurrent":
			res.Steps = append(res.Steps, a.doConcurrent(st))
		case "race":
			res.Steps = append(res.Steps, a.doRace(st))
		case "select":
			res.Steps = append(res.Steps, a.doSelect(st))
		default:
			res.Err = "unknown op " + st.Op
			return
		}
	}
	return
}

// doSelect reports the secrets the route's real SelectSecrets closure (built by loadAuth)
// returns at the instants listed in st.Wire (JSON: {"route":..., "at":[unix seconds...]}).
func (a *arRuntime) doSelect(st arStep) arStepOut {
	out := arStepOut{Op: "select", Calls: []arEnq{}, NewItems: []arEnq{}}
	var q struct {
		Route string  `json:"route"`
		At    []int64 `json:"at"`
	}
	if err := json.Unmarshal([]byte(st.Wire), &q); err != nil {
		out.Status = -9
		return out
	}
	h := a.rt.HMACFor(q.Route)
	if h == nil {
		out.Status = -1
		return out
	}
	for _, at := range q.At {
		var secs [][]byte
		if h.SelectSecrets != nil {
			secs = h.SelectSecrets(time.Unix(at, 0).UTC())
		} else {
			secs = h.Secrets
		}
		row := []string{}
		for _, s := range secs {
			row = append(row, hex.EncodeToString(s))
		}
		out.Selected = append(out.Selected, row)
	}
	return out
}

func authRun(in []byte) (any, error) {
	var a arIn
	if err := json.Unmarshal(in, &a); err != nil {
		return nil, err
	}
	if a.Dir == "" {
		return nil, errors.New("dir required")
	}
	fwd, err := newArFwdService()
	if err != nil {
		return nil, err
	}
	defer fwd.srv.Close()
	var out []arScenOut
	for i, sc := range a.Scenarios {
		out = append(out, arRunScenario(a.Dir, i, sc, fwd))
	}
	return out, nil
}
