//go:build verif

package main

// C18: configuration reload.  Commands
//   reload-failed      real reloadConfig on a real runtimeState with injected failures; decision
//                      fingerprint of the state before/after
//   reload-visibility  a reload forced between two locked accessors of ONE request, and requests run
//                      inside reloadConfig's own window between its two critical sections
//   reload-mutate      real mutateManagedEndpointConfig with injected failures

import (
	"bytes"
	"context"
	"crypto/hmac"
	"crypto/sha256"
	"encoding/base64"
	"encoding/hex"
	"encoding/json"
	"fmt"
	"io"
	"net"
	"net/http"
	"net/http/httptest"
	"os"
	"path"
	"path/filepath"
	"reflect"
	"sort"
	"strings"
	"sync"
	"time"

	"google.golang.org/grpc/metadata"

	"github.com/nuetzliches/hookaido/internal/app"
	"github.com/nuetzliches/hookaido/internal/config"
	"github.com/nuetzliches/hookaido/internal/queue"
)

func init() {
	register("reload-failed", reloadFailed)
	register("reload-visibility", reloadVisibility)
	register("reload-mutate", reloadMutate)
}

// ---------------------------------------------------------------------------
// shared pieces

type vclock struct {
	mu sync.Mutex
	t  time.Time
}

func (c *vclock) Now() time.Time {
	c.mu.Lock()
	defer c.mu.Unlock()
	return c.t
}

func (c *vclock) Advance(d time.Duration) {
	c.mu.Lock()
	c.t = c.t.Add(d)
	c.mu.Unlock()
}

// forward-auth service on loopback: 204 when the request carries X-Fwd-Ok: 1, else 401.
type fwdService struct {
	ln  net.Listener
	srv *http.Server
	url string
}

func startFwd() (*fwdService, error) {
	ln, err := net.Listen("tcp", "127.0.0.1:0")
	if err != nil {
		return nil, err
	}
	f := &fwdService{ln: ln, url: "http://" + ln.Addr().String() + "/check"}
	f.srv = &http.Server{Handler: http.HandlerFunc(func(w http.ResponseWriter, r *http.Request) {
		_, _ = io.Copy(io.Discard, r.Body)
		if r.Header.Get("X-Fwd-Ok") == "1" {
			w.WriteHeader(http.StatusNoContent)
			return
		}
		w.WriteHeader(http.StatusUnauthorized)
	})}
	go func() { _ = f.srv.Serve(ln) }()
	return f, nil
}

func (f *fwdService) Close() { _ = f.srv.Close() }

func subst(s string, f *fwdService) string {
	if f == nil {
		return s
	}
	return strings.ReplaceAll(s, "__FWD__", f.url)
}

type ingProbe struct {
	Method     string            `json:"method"`
	Path       string            `json:"path"`
	Host       string            `json:"host"`
	Headers    map[string]string `json:"headers"`
	BodyLen    int               `json:"body_len"`
	Basic      []string          `json:"basic"`       // [user, pass]
	HMACSecret string            `json:"hmac_secret"` // sign with this secret
	Repeat     int               `json:"repeat"`      // send this many times, report every status
	RemoteAddr string            `json:"remote_addr"`
}

var nonceCounter int
var nonceMu sync.Mutex

func nextNonce() string {
	nonceMu.Lock()
	defer nonceMu.Unlock()
	nonceCounter++
	return fmt.Sprintf("verif-nonce-%d-%d", os.Getpid(), nonceCounter)
}

func buildIngressRequest(p ingProbe) *http.Request {
	method := p.Method
	if method == "" {
		method = http.MethodPost
	}
	body := bytes.Repeat([]byte("x"), p.BodyLen)
	host := p.Host
	if host == "" {
		host = "verif.local"
	}
	r := httptest.NewRequest(method, "http://"+host+p.Path, bytes.NewReader(body))
	r.Host = host
	if p.RemoteAddr != "" {
		r.RemoteAddr = p.RemoteAddr
	}
	for k, v := range p.Headers {
		r.Header.Set(k, v)
	}
	if len(p.Basic) == 2 {
		r.SetBasicAuth(p.Basic[0], p.Basic[1])
	}
	if p.HMACSecret != "" {
		ts := fmt.Sprintf("%d", time.Now().Unix())
		sum := sha256.Sum256(body)
		cleaned := r.URL.Path
		msg := fmt.Sprintf("%s\n%s\n%s\n%s", ts, method, pathClean(cleaned), hex.EncodeToString(sum[:]))
		mac := hmac.New(sha256.New, []byte(p.HMACSecret))
		mac.Write([]byte(msg))
		r.Header.Set("X-Timestamp", ts)
		r.Header.Set("X-Nonce", nextNonce())
		r.Header.Set("X-Signature", hex.EncodeToString(mac.Sum(nil)))
	}
	return r
}

func pathClean(p string) string { return path.Clean(p) } // as ServeHTTP applies it

type nopHook struct{}

func (nopHook) Before(string)                       {}
func (nopHook) After(string, string, app.VerifArgs) {}

func storeContents(st queue.Store) []string {
	var out []string
	resp, err := st.ListMessages(queue.MessageListRequest{Limit: 1000, Order: "asc"})
	if err != nil {
		return []string{"list-error:" + err.Error()}
	}
	for _, it := range resp.Items {
		out = append(out, fmt.Sprintf("%s>%s:%d", it.Route, it.Target, len(it.Payload)))
	}
	sort.Strings(out)
	return out
}

func setEnv(set map[string]string, unset []string) {
	for k, v := range set {
		_ = os.Setenv(k, v)
	}
	for _, k := range unset {
		_ = os.Unsetenv(k)
	}
}

// ---------------------------------------------------------------------------
// decision fingerprint

type pullProbe struct {
	Path  string `json:"path"` // endpoint path; "/dequeue" is appended
	Token string `json:"token"`
}

type adminProbe struct {
	Method string `json:"method"`
	Path   string `json:"path"`
	Token  string `json:"token"`
	Body   string `json:"body"`
}

// adaptiveProbe: a synthetic backlog (queued + leased messages, the oldest AgeSec old) is put behind the
// admission controller and one ingress request to Route is decided.
type adaptiveProbe struct {
	Queued int    `json:"queued"`
	Leased int    `json:"leased"`
	AgeSec int    `json:"age_sec"`
	Route  string `json:"route"`
	Trend  []int  `json:"trend"` // backlog history, one sample a minute, oldest first, the last one at the instant of the decision
}

// trendBacklog gives a backlog store a fixed backlog-trend history relative to the instant it is asked about (the admission
// controller asks for [now-window, now]): the verdict on it depends on the trend_signals configuration alone.
type trendBacklog struct {
	queue.Store
	trend []int
	key   string

	gmu     sync.Mutex
	gate    chan struct{} // when set, ListBacklogTrend announces itself on entered and waits for the gate
	entered chan struct{}
}

func (t *trendBacklog) hold() {
	t.gmu.Lock()
	t.gate = make(chan struct{})
	t.entered = make(chan struct{}, 4)
	t.gmu.Unlock()
}

func (t *trendBacklog) release() {
	t.gmu.Lock()
	g := t.gate
	t.gate = nil
	t.gmu.Unlock()
	if g != nil {
		close(g)
	}
}

var (
	trendStoresMu sync.Mutex
	trendStores   = map[*app.VerifState]*trendBacklog{}
)

func (t *trendBacklog) CaptureBacklogTrendSample(time.Time) error { return nil }

func (t *trendBacklog) ListBacklogTrend(req queue.BacklogTrendListRequest) (queue.BacklogTrendListResponse, error) {
	t.gmu.Lock()
	g, e := t.gate, t.entered
	t.gmu.Unlock()
	if g != nil {
		e <- struct{}{}
		<-g
	}
	until := req.Until
	if until.IsZero() {
		until = time.Now()
	}
	var out []queue.BacklogTrendSample
	n := len(t.trend)
	for i, q := range t.trend {
		at := until.Add(-time.Duration(n-1-i) * time.Minute)
		if !req.Since.IsZero() && at.Before(req.Since) {
			continue
		}
		out = append(out, queue.BacklogTrendSample{CapturedAt: at, Queued: q})
	}
	return queue.BacklogTrendListResponse{Items: out}, nil
}

func backlogStore(queued, leased, ageSec int) queue.Store {
	clk := &vclock{t: time.Now().Add(-time.Duration(ageSec) * time.Second)}
	st := queue.NewMemoryStore(queue.WithNowFunc(clk.Now))
	for i := 0; i < queued+leased; i++ {
		_ = st.Enqueue(queue.Envelope{ID: fmt.Sprintf("bk-%d", i), Route: "/backlog", Target: "pull"})
	}
	for left := leased; left > 0; left -= 100 {
		n := left
		if n > 100 {
			n = 100
		}
		_, _ = st.Dequeue(queue.DequeueRequest{Route: "/backlog", Target: "pull", Batch: n, LeaseTTL: time.Hour})
	}
	clk.Advance(time.Duration(ageSec) * time.Second)
	return st
}

type probeSet struct {
	Adaptive []adaptiveProbe `json:"adaptive"`
	Ingress  []ingProbe      `json:"ingress"`
	Pull     []pullProbe     `json:"pull"`
	Admin    []adminProbe    `json:"admin"`
	Worker   []pullProbe     `json:"worker"`
	Seed     []string        `json:"seed_routes"` // routes that get one queued message before pull probes
}

// fingerprint runs every probe against handlers wired to the state (fresh scratch stores) and
// returns one line per probe: the decision taken.
func fingerprint(v *app.VerifState, running config.Compiled, ps probeSet, clk *vclock) []string {
	var out []string
	clk.Advance(time.Hour) // every token bucket is full again: the fingerprint does not depend on earlier traffic
	for i, p := range ps.Ingress {
		st := queue.NewMemoryStore()
		ing := v.Ingress(st, running, nopHook{})
		n := p.Repeat
		if n <= 0 {
			n = 1
		}
		var codes []string
		for k := 0; k < n; k++ {
			w := httptest.NewRecorder()
			ing.ServeHTTP(w, buildIngressRequest(p))
			codes = append(codes, fmt.Sprintf("%d", w.Code))
			if a := w.Header().Get("Allow"); a != "" {
				codes = append(codes, "allow="+a)
			}
		}
		out = append(out, fmt.Sprintf("ingress[%d] %s %s%s basic=%v hmac=%q len=%d -> %s enq=%v",
			i, p.Method, p.Host, p.Path, len(p.Basic) == 2, p.HMACSecret, p.BodyLen, strings.Join(codes, ","), storeContents(st)))
		clk.Advance(time.Hour)
	}
	for i, p := range ps.Pull {
		st := queue.NewMemoryStore()
		for _, rt := range ps.Seed {
			_ = st.Enqueue(queue.Envelope{ID: "seed-" + rt, Route: rt, Target: "pull", Payload: []byte(rt)})
		}
		ph := v.Pull(st, running, nopHook{})
		r := httptest.NewRequest(http.MethodPost, "http://verif.local"+p.Path+"/dequeue", strings.NewReader(`{"batch":5}`))
		if p.Token != "" {
			r.Header.Set("Authorization", "Bearer "+p.Token)
		}
		w := httptest.NewRecorder()
		ph.ServeHTTP(w, r)
		out = append(out, fmt.Sprintf("pull[%d] %s token=%q -> %d items=%v", i, p.Path, p.Token, w.Code, dequeuedRoutes(w.Body.Bytes())))
	}
	for i, p := range ps.Admin {
		st := queue.NewMemoryStore()
		ah := v.Admin(st, running)
		r := httptest.NewRequest(p.Method, "http://verif.local"+p.Path, strings.NewReader(p.Body))
		if p.Token != "" {
			r.Header.Set("Authorization", "Bearer "+p.Token)
		}
		r.Header.Set("X-Hookaido-Audit-Reason", "verif")
		w := httptest.NewRecorder()
		ah.ServeHTTP(w, r)
		body := w.Body.String()
		if !strings.HasPrefix(p.Path, "/management") {
			// keep only the machine-readable code of the answer
			var m map[string]any
			if json.Unmarshal(w.Body.Bytes(), &m) == nil {
				body = fmt.Sprintf("code=%v", m["code"])
			} else {
				body = ""
			}
		}
		out = append(out, fmt.Sprintf("admin[%d] %s %s token=%q -> %d %s enq=%v", i, p.Method, p.Path, p.Token, w.Code, strings.TrimSpace(body), storeContents(st)))
	}
	for i, p := range ps.Adaptive {
		if len(p.Trend) > 0 {
			// one store object for the life of the state, as in the running process (installing a store resets what the controller
			// remembers): the probes of one state share it as long as they describe the same backlog
			key := fmt.Sprintf("%d/%d/%d/%v", p.Queued, p.Leased, p.AgeSec, p.Trend)
			trendStoresMu.Lock()
			cur := trendStores[v]
			if cur == nil || cur.key != key {
				cur = &trendBacklog{Store: backlogStore(p.Queued, p.Leased, p.AgeSec), trend: p.Trend, key: key}
				trendStores[v] = cur
				v.SetQueueStore(cur)
			}
			trendStoresMu.Unlock()
		} else {
			v.SetQueueStore(backlogStore(p.Queued, p.Leased, p.AgeSec))
		}
		dec := v.AdmissionDecision(p.Route)
		if len(p.Trend) == 0 {
			v.SetQueueStore(backlogStore(p.Queued, p.Leased, p.AgeSec))
		}
		st := queue.NewMemoryStore()
		w := httptest.NewRecorder()
		v.Ingress(st, running, nopHook{}).ServeHTTP(w, buildIngressRequest(ingProbe{Method: "POST", Path: p.Route, BodyLen: 3}))
		out = append(out, fmt.Sprintf("admission[%d] backlog queued=%d leased=%d age=%ds POST %s -> %s http=%d enq=%v",
			i, p.Queued, p.Leased, p.AgeSec, p.Route, dec, w.Code, storeContents(st)))
		clk.Advance(time.Hour)
	}
	if len(ps.Adaptive) > 0 {
		trendStoresMu.Lock()
		keep := trendStores[v] != nil
		trendStoresMu.Unlock()
		if !keep {
			// (a state that carries a trend store keeps it for its whole life, as the running process keeps its store)
			v.SetQueueStore(nil)
		}
		for _, l := range v.EffectiveAdmissionConfig() {
			out = append(out, "effective "+l)
		}
	}
	for i, p := range ps.Worker {
		ctx := context.Background()
		if p.Token != "" {
			ctx = metadata.NewIncomingContext(ctx, metadata.Pairs("authorization", "Bearer "+p.Token))
		}
		ok := v.AuthorizeWorker(ctx, p.Path)
		route, found := v.ResolvePull(p.Path)
		out = append(out, fmt.Sprintf("worker[%d] %s token=%q -> auth=%v route=%s/%v", i, p.Path, p.Token, ok, route, found))
	}
	return out
}

func dequeuedRoutes(body []byte) []string {
	var resp struct {
		Items []struct {
			Route      string `json:"route"`
			PayloadB64 string `json:"payload_b64"`
		} `json:"items"`
	}
	if json.Unmarshal(body, &resp) != nil {
		return nil
	}
	var out []string
	for _, it := range resp.Items {
		pl, _ := base64.StdEncoding.DecodeString(it.PayloadB64)
		out = append(out, it.Route+"#"+string(pl))
	}
	sort.Strings(out)
	return out
}

func diffLines(a, b []string) []string {
	var out []string
	n := len(a)
	if len(b) > n {
		n = len(b)
	}
	for i := 0; i < n; i++ {
		var x, y string
		if i < len(a) {
			x = a[i]
		}
		if i < len(b) {
			y = b[i]
		}
		if x != y {
			out = append(out, "- "+x, "+ "+y)
		}
	}
	return out
}

func diffMaps(a, b map[string]string) []string {
	var out []string
	keys := map[string]bool{}
	for k := range a {
		keys[k] = true
	}
	for k := range b {
		keys[k] = true
	}
	var ks []string
	for k := range keys {
		ks = append(ks, k)
	}
	sort.Strings(ks)
	for _, k := range ks {
		if a[k] != b[k] {
			out = append(out, k)
		}
	}
	return out
}

// ---------------------------------------------------------------------------
// reload-failed

type failedCase struct {
	Name     string            `json:"name"`
	Running  string            `json:"running"`
	New      string            `json:"new"`
	FileKind string            `json:"file_kind"` // "text" | "missing" | "dir"
	EnvSet   map[string]string `json:"env_set"`   // before start-up
	EnvUnset []string          `json:"env_unset"` // between start-up and reload
	EnvSet2  map[string]string `json:"env_set2"`  // between start-up and reload
	Files    map[string]string `json:"files"`     // secret files (name -> content) created before start-up under the case dir; __DIR__ in configs
	RmFiles  []string          `json:"rm_files"`  // removed between start-up and reload
	Files2   map[string]string `json:"files2"`    // rewritten between start-up and reload (a secret file whose content is rotated)
	Probes   probeSet          `json:"probes"`
	LimitHit *ingProbe         `json:"limit_hit"` // one request sent before the reload to take a token out of a bucket
	// the admission controller's background refresh of the backlog-trend verdict (started by a request once the cached verdict is a
	// second old) is still inside the store when the reload happens, and finishes right after it
	TrendRefreshInFlight bool `json:"trend_refresh_in_flight"`
}

type failedRes struct {
	Name            string             `json:"name"`
	SetupError      string             `json:"setup_error"`
	ReloadOK        bool               `json:"reload_ok"`
	ReturnedRunning bool               `json:"returned_running"` // returned config deep-equals the running one
	ReturnedNew     bool               `json:"returned_new"`     // returned config deep-equals Compile(new)
	NewCompiles     bool               `json:"new_compiles"`
	NewCompileError string             `json:"new_compile_error"`
	NeedsRestart    bool               `json:"needs_restart"`
	FpSame          bool               `json:"fp_same"`
	FpDiff          []string           `json:"fp_diff"`
	FpEqualsFresh   bool               `json:"fp_equals_fresh_new"`
	FpFreshDiff     []string           `json:"fp_fresh_diff"`
	IdentityChanged []string           `json:"identity_changed"`
	TokensBefore    map[string]float64 `json:"tokens_before"`
	TokensAfter     map[string]float64 `json:"tokens_after"`
	FpLines         int                `json:"fp_lines"`
	FpSample        []string           `json:"fp_sample"`
}

func reloadFailed(inb []byte) (any, error) {
	var in struct {
		Dir   string       `json:"dir"`
		Cases []failedCase `json:"cases"`
	}
	if err := json.Unmarshal(inb, &in); err != nil {
		return nil, err
	}
	fwd, err := startFwd()
	if err != nil {
		return nil, err
	}
	defer fwd.Close()
	var out []failedRes
	for ci, c := range in.Cases {
		res := failedRes{Name: c.Name}
		dir := filepath.Join(in.Dir, fmt.Sprintf("rf%d", ci))
		_ = os.MkdirAll(dir, 0o755)
		fix := func(s string) string { return strings.ReplaceAll(subst(s, fwd), "__DIR__", dir) }
		for name, content := range c.Files {
			_ = os.WriteFile(filepath.Join(dir, name), []byte(content), 0o600)
		}
		setEnv(c.EnvSet, nil)
		running, err := app.VerifCompile([]byte(fix(c.Running)))
		if err != nil {
			res.SetupError = "running config: " + err.Error()
			out = append(out, res)
			continue
		}
		clk := &vclock{t: time.Now()}
		st, err := app.VerifNewState(running, clk.Now)
		if err != nil {
			res.SetupError = "loadAuth at start-up: " + err.Error()
			out = append(out, res)
			continue
		}
		probes := c.Probes
		for i := range probes.Ingress {
			for k, v := range probes.Ingress[i].Headers {
				probes.Ingress[i].Headers[k] = fix(v)
			}
		}
		fp0 := fingerprint(st, running, probes, clk)
		// take one token out of a bucket; a failed reload must not hand it back
		clk.Advance(time.Hour)
		if c.LimitHit != nil {
			ing := st.Ingress(queue.NewMemoryStore(), running, nopHook{})
			ing.ServeHTTP(httptest.NewRecorder(), buildIngressRequest(*c.LimitHit))
		}
		res.TokensBefore = st.LimiterTokens()
		id0 := st.Identity()

		cfgPath := filepath.Join(dir, "Hookaidofile")
		switch c.FileKind {
		case "missing":
		case "dir":
			_ = os.MkdirAll(cfgPath, 0o755)
		default:
			_ = os.WriteFile(cfgPath, []byte(fix(c.New)), 0o600)
		}
		setEnv(c.EnvSet2, c.EnvUnset)
		for _, name := range c.RmFiles {
			_ = os.Remove(filepath.Join(dir, name))
		}
		for name, content := range c.Files2 {
			_ = os.WriteFile(filepath.Join(dir, name), []byte(content), 0o600)
		}
		var newCompiled config.Compiled
		if c.FileKind == "" || c.FileKind == "text" {
			if nc, err := app.VerifCompile([]byte(fix(c.New))); err == nil {
				res.NewCompiles = true
				newCompiled = nc
				res.NeedsRestart = app.VerifRequiresRestart(nc, running)
			} else {
				res.NewCompileError = err.Error()
			}
		}

		var heldTrend *trendBacklog
		if c.TrendRefreshInFlight {
			trendStoresMu.Lock()
			heldTrend = trendStores[st]
			trendStoresMu.Unlock()
			if heldTrend != nil && len(probes.Adaptive) > 0 {
				time.Sleep(1100 * time.Millisecond) // the controller runs on the real clock; its verdict is cached for a second
				heldTrend.hold()
				_ = st.AdmissionDecision(probes.Adaptive[0].Route) // served from the old verdict; starts the background refresh
				select {
				case <-heldTrend.entered:
				case <-time.After(2 * time.Second):
					res.SetupError = "the background trend refresh did not start"
				}
			}
		}
		ret, ok := app.VerifReload(cfgPath, running, st)
		if heldTrend != nil {
			heldTrend.release()
			time.Sleep(60 * time.Millisecond) // the refresh that was started before the reload finishes now
		}
		res.ReloadOK = ok
		res.ReturnedRunning = reflect.DeepEqual(ret, running)
		if res.NewCompiles {
			res.ReturnedNew = reflect.DeepEqual(ret, newCompiled)
		}
		res.TokensAfter = st.LimiterTokens()
		res.IdentityChanged = diffMaps(id0, st.Identity())
		fp1 := fingerprint(st, ret, probes, clk)
		res.FpSame = reflect.DeepEqual(fp0, fp1)
		if !res.FpSame {
			res.FpDiff = diffLines(fp0, fp1)
		}
		res.FpLines = len(fp0)
		if len(fp0) > 0 {
			res.FpSample = []string{fp0[0], fp0[len(fp0)/2], fp0[len(fp0)-1]}
		}
		if ok && res.NewCompiles {
			// a successful reload must leave the state deciding exactly like a process started on the new file
			clk2 := &vclock{t: time.Now()}
			if fresh, err := app.VerifNewState(newCompiled, clk2.Now); err == nil {
				fpF := fingerprint(fresh, newCompiled, probes, clk2)
				res.FpEqualsFresh = reflect.DeepEqual(fpF, fp1)
				if !res.FpEqualsFresh {
					res.FpFreshDiff = diffLines(fpF, fp1)
				}
			}
		}
		// restore the environment for the next case
		for k := range c.EnvSet {
			_ = os.Unsetenv(k)
		}
		for k := range c.EnvSet2 {
			_ = os.Unsetenv(k)
		}
		out = append(out, res)
	}
	return out, nil
}

// ---------------------------------------------------------------------------
// reload-visibility

type visRequest struct {
	Kind    string    `json:"kind"` // "ingress" | "pull"
	Ingress ingProbe  `json:"ingress"`
	Pull    pullProbe `json:"pull"`
	Prime   int       `json:"prime"` // ingress: send the request this many times first (drains a token bucket), before any reload
}

type visScenario struct {
	ID       string       `json:"id"`
	Old      string       `json:"old"`
	New      string       `json:"new"`
	Requests []visRequest `json:"requests"`
	Seed     []string     `json:"seed_routes"`
	Backlog  []int        `json:"backlog"` // [queued, leased, age_sec]: synthetic backlog behind the admission controller
	LockOnly bool         `json:"lock_only"` // only the runs that hold the reload at a sync point (no reload between two accessors)
}

type visCall struct {
	Callback string `json:"cb"`
	Answer   string `json:"answer"` // normalised: pointers replaced by "<kind>@old" / "<kind>@new"
	Old      string `json:"old"`    // what a state built from the old configuration answers to the same call
	New      string `json:"new"`    // ... from the new configuration
}

type visRun struct {
	Mode     string    `json:"mode"`     // "old" | "new" | "full@k" | "window" | "auth-only@k" ...
	Position int       `json:"position"` // index of the first callback that runs after the reload step
	Calls    []visCall `json:"calls"`
	Outcome  string    `json:"outcome"`
	ReloadOK bool      `json:"reload_ok"`
	Fired    bool      `json:"fired"`    // the request reached the accessor before which the reload was to run
	Progress int       `json:"progress"` // inlock: accessors that answered while the reload was held inside its critical section
	Via      string    `json:"via"`      // how the window was entered: "sync-point" | "halves"
}

type visReqRes struct {
	Request int      `json:"request"`
	Old     visRun   `json:"old"`
	New     visRun   `json:"new"`
	Mixed   []visRun `json:"mixed"`
}

type visRes struct {
	ID         string      `json:"id"`
	SetupError string      `json:"setup_error"`
	Restart    bool        `json:"needs_restart"`
	Results    []visReqRes `json:"results"`
}

// visHook runs `action` immediately before the callback with index `at` (0-based, in order of invocation).
type visHook struct {
	mu     sync.Mutex
	at     int
	n      int
	action func()
	fired  bool
	calls  []visCall
	refOld *app.VerifState
	refNew *app.VerifState
}

func (h *visHook) ncalls() int {
	h.mu.Lock()
	defer h.mu.Unlock()
	return len(h.calls)
}

func (h *visHook) Before(cb string) {
	if h.action != nil && !h.fired && h.n == h.at {
		h.fired = true
		h.action()
	}
	h.n++
}

func (h *visHook) After(cb string, answer string, a app.VerifArgs) {
	c := visCall{Callback: cb, Answer: answer}
	if h.refOld != nil {
		c.Old = h.refOld.Answer(cb, a)
	}
	if h.refNew != nil {
		c.New = h.refNew.Answer(cb, a)
	}
	h.mu.Lock()
	h.calls = append(h.calls, c)
	h.mu.Unlock()
}

type visEnv struct {
	sc       visScenario
	dir      string
	fwd      *fwdService
	oldC     config.Compiled
	newC     config.Compiled
	newPath  string
	syncSeen bool
}

// one execution of one request against a fresh state; `mode` says what happens to the configuration
func (e *visEnv) execute(rq visRequest, mode string, at int) visRun {
	run := visRun{Mode: mode, Position: at}
	clk := &vclock{t: time.Now()}
	st, err := app.VerifNewState(e.oldC, clk.Now)
	if err != nil {
		run.Outcome = "setup-error:" + err.Error()
		return run
	}
	store := queue.NewMemoryStore()
	for _, rt := range e.sc.Seed {
		_ = store.Enqueue(queue.Envelope{ID: "seed-" + rt, Route: rt, Target: "pull", Payload: []byte(rt)})
	}
	gen := map[string]string{} // pointer -> "kind@old"/"kind@new"
	note := func(label string) {
		for p, k := range st.AuthObjects() {
			if _, ok := gen[p]; !ok {
				gen[p] = k[:strings.Index(k, ":")] + "@" + label
			}
		}
	}
	note("old")
	// reference states: what would the old / the new configuration answer to the very same accessor call
	refOld, err1 := app.VerifNewState(e.oldC, clk.Now)
	refNew, err2 := app.VerifNewState(e.newC, clk.Now)
	if err1 != nil || err2 != nil {
		run.Outcome = "setup-error: reference states"
		return run
	}
	for p, k := range refOld.AuthObjects() {
		gen[p] = k[:strings.Index(k, ":")] + "@old"
	}
	for p, k := range refNew.AuthObjects() {
		gen[p] = k[:strings.Index(k, ":")] + "@new"
	}
	if len(e.sc.Backlog) == 3 {
		b := e.sc.Backlog
		st.SetQueueStore(backlogStore(b[0], b[1], b[2]))
		refOld.SetQueueStore(backlogStore(b[0], b[1], b[2]))
		refNew.SetQueueStore(backlogStore(b[0], b[1], b[2]))
	}
	if rq.Kind == "ingress" && rq.Prime > 0 {
		ing := st.Ingress(store, e.oldC, nopHook{})
		ingRef := refOld.Ingress(queue.NewMemoryStore(), e.oldC, nopHook{})
		for i := 0; i < rq.Prime; i++ {
			ing.ServeHTTP(httptest.NewRecorder(), buildIngressRequest(rq.Ingress))
			ingRef.ServeHTTP(httptest.NewRecorder(), buildIngressRequest(rq.Ingress))
		}
	}
	primed := storeContents(store)

	hook := &visHook{at: at, refOld: refOld, refNew: refNew}
	var release, entered chan struct{}
	var done chan bool
	inlock := false
	switch {
	case mode == "old":
	case mode == "new":
		_, ok := app.VerifReload(e.newPath, e.oldC, st)
		run.ReloadOK = ok
		note("new")
	case strings.HasPrefix(mode, "full"):
		hook.action = func() {
			_, ok := app.VerifReload(e.newPath, e.oldC, st)
			run.ReloadOK = ok
			note("new")
		}
	case mode == "window":
		// the whole request runs between two consecutive critical sections of reloadConfig:
		// the reload is held at its sync point number `at` (0 = after the first critical section)
		entered = make(chan struct{}, 1)
		release = make(chan struct{})
		done = make(chan bool, 1)
		seen := 0
		app.VerifSetSyncHook(func(point string) {
			if !strings.HasPrefix(point, "after-") {
				return // a point inside a critical section: see mode "inlock"
			}
			if seen == at {
				run.Via = "sync-point:" + point
				entered <- struct{}{}
				<-release
			}
			seen++
		})
		go func() {
			_, ok := app.VerifReload(e.newPath, e.oldC, st)
			done <- ok
		}()
		select {
		case <-entered:
			e.syncSeen = true
			// only continue into the window if this sync point is NOT the last one, i.e. the reload
			// has not finished publishing; we cannot know that here, so the check compares with "new".
		case ok := <-done:
			// no sync point in this build of reloadConfig: fall back to the two halves
			app.VerifSetSyncHook(nil)
			done = nil
			run.Via = "halves-after-complete-reload"
			run.ReloadOK = ok
		}
		note("new")
	case mode == "prelock":
		// the reload is held inside loadAuthAnd just BEFORE it takes the state lock (all secrets loaded,
		// nothing published yet): the whole request runs; it must be served entirely under the old configuration
		entered = make(chan struct{}, 1)
		release = make(chan struct{})
		done = make(chan bool, 1)
		app.VerifSetSyncHook(func(point string) {
			if point == "before-lock" {
				entered <- struct{}{}
				<-release
			}
		})
		go func() {
			_, ok := app.VerifReload(e.newPath, e.oldC, st)
			done <- ok
		}()
		select {
		case <-entered:
			run.Via = "sync-point:before-lock"
		case ok := <-done:
			app.VerifSetSyncHook(nil)
			done = nil
			run.Via = "not-reached"
			run.ReloadOK = ok
			return run
		}
	case mode == "inlock":
		// the reload is held INSIDE its critical section, between the assignment of the authenticator
		// fields and alsoLocked() (the route table half).  The request is started meanwhile; it must not
		// get an answer from any accessor until the reload has left the section.
		entered = make(chan struct{}, 1)
		release = make(chan struct{})
		done = make(chan bool, 1)
		app.VerifSetSyncHook(func(point string) {
			if point == "before-alsoLocked" {
				entered <- struct{}{}
				<-release
			}
		})
		go func() {
			_, ok := app.VerifReload(e.newPath, e.oldC, st)
			done <- ok
		}()
		select {
		case <-entered:
			run.Via = "sync-point:before-alsoLocked"
			inlock = true
		case ok := <-done:
			app.VerifSetSyncHook(nil)
			done = nil
			run.Via = "not-reached"
			run.ReloadOK = ok
			return run
		}
	}

	var w *httptest.ResponseRecorder
	doRequest := func() {
		switch rq.Kind {
		case "pull":
			ph := st.Pull(store, e.oldC, hook)
			r := httptest.NewRequest(http.MethodPost, "http://verif.local"+rq.Pull.Path+"/dequeue", strings.NewReader(`{"batch":5}`))
			if rq.Pull.Token != "" {
				r.Header.Set("Authorization", "Bearer "+rq.Pull.Token)
			}
			w = httptest.NewRecorder()
			ph.ServeHTTP(w, r)
			run.Outcome = fmt.Sprintf("%d items=%v", w.Code, dequeuedRoutes(w.Body.Bytes()))
		default:
			ing := st.Ingress(store, e.oldC, hook)
			w = httptest.NewRecorder()
			ing.ServeHTTP(w, buildIngressRequest(rq.Ingress))
			after := storeContents(store)
			run.Outcome = fmt.Sprintf("%d enq=%v", w.Code, subtractMulti(after, primed))
		}
	}
	if inlock {
		reqDone := make(chan struct{})
		go func() {
			doRequest()
			close(reqDone)
		}()
		time.Sleep(3 * time.Millisecond)
		run.Progress = hook.ncalls() // accessors that answered while the reload was inside its section
		close(release)
		run.ReloadOK = <-done
		<-reqDone
		app.VerifSetSyncHook(nil)
	} else {
		doRequest()
	}

	if (mode == "window" || mode == "prelock") && done != nil {
		close(release)
		run.ReloadOK = <-done
		app.VerifSetSyncHook(nil)
	}
	note("new")
	run.Fired = hook.fired
	norm := func(a string) string {
		if g, ok := gen[a]; ok {
			return g
		}
		return a
	}
	for _, c := range hook.calls {
		run.Calls = append(run.Calls, visCall{Callback: c.Callback, Answer: norm(c.Answer), Old: norm(c.Old), New: norm(c.New)})
	}
	return run
}

func subtractMulti(after, before []string) []string {
	cnt := map[string]int{}
	for _, b := range before {
		cnt[b]++
	}
	var out []string
	for _, a := range after {
		if cnt[a] > 0 {
			cnt[a]--
			continue
		}
		out = append(out, a)
	}
	return out
}

func reloadVisibility(inb []byte) (any, error) {
	var in struct {
		Dir        string        `json:"dir"`
		Scenarios  []visScenario `json:"scenarios"`
		SyncPoints int           `json:"sync_points"` // number of "after-<call>" sync points in the overlay copy of reloadConfig
		InLock     bool          `json:"inlock"`      // the overlay copy has the point inside loadAuthAnd's critical section
		PreLock    bool          `json:"prelock"`     // ... and the point just before loadAuthAnd takes the lock
	}
	if err := json.Unmarshal(inb, &in); err != nil {
		return nil, err
	}
	fwd, err := startFwd()
	if err != nil {
		return nil, err
	}
	defer fwd.Close()
	var out []visRes
	syncAvailable := false
	inlockSeen := false
	for si, sc := range in.Scenarios {
		res := visRes{ID: sc.ID}
		dir := filepath.Join(in.Dir, fmt.Sprintf("vis%d", si))
		_ = os.MkdirAll(dir, 0o755)
		oldTxt, newTxt := subst(sc.Old, fwd), subst(sc.New, fwd)
		oldC, err := app.VerifCompile([]byte(oldTxt))
		if err != nil {
			res.SetupError = "old: " + err.Error()
			out = append(out, res)
			continue
		}
		newC, err := app.VerifCompile([]byte(newTxt))
		if err != nil {
			res.SetupError = "new: " + err.Error()
			out = append(out, res)
			continue
		}
		if app.VerifRequiresRestart(newC, oldC) {
			res.Restart = true
			out = append(out, res)
			continue
		}
		env := &visEnv{sc: sc, dir: dir, fwd: fwd, oldC: oldC, newC: newC, newPath: filepath.Join(dir, "Hookaidofile")}
		_ = os.WriteFile(env.newPath, []byte(newTxt), 0o600)
		for ri, rq := range sc.Requests {
			rr := visReqRes{Request: ri}
			rr.Old = env.execute(rq, "old", -1)
			rr.New = env.execute(rq, "new", -1)
			// a reload between any two accessors: positions 1..(number of accessors the old run needed);
			// one more than the old run's count in case the mixed run goes further.
			maxPos := len(rr.Old.Calls)
			if len(rr.New.Calls) > maxPos {
				maxPos = len(rr.New.Calls)
			}
			for k := 1; k <= maxPos+1 && !sc.LockOnly; k++ {
				m := env.execute(rq, fmt.Sprintf("full@%d", k), k)
				if !m.Fired {
					break
				}
				rr.Mixed = append(rr.Mixed, m)
			}
			entered := false
			for j := 0; j+1 < in.SyncPoints; j++ {
				wrun := env.execute(rq, "window", j)
				if strings.HasPrefix(wrun.Via, "sync-point") {
					syncAvailable = true
					entered = true
					rr.Mixed = append(rr.Mixed, wrun)
				}
			}
			_ = entered
			if in.PreLock {
				if prun := env.execute(rq, "prelock", 0); strings.HasPrefix(prun.Via, "sync-point") {
					rr.Mixed = append(rr.Mixed, prun)
				}
			}
			if in.InLock {
				if irun := env.execute(rq, "inlock", 0); strings.HasPrefix(irun.Via, "sync-point") {
					inlockSeen = true
					rr.Mixed = append(rr.Mixed, irun)
				}
			}
			res.Results = append(res.Results, rr)
		}
		out = append(out, res)
	}
	return map[string]any{"scenarios": out, "sync_point_available": syncAvailable, "inlock_point_reached": inlockSeen}, nil
}

// ---------------------------------------------------------------------------
// reload-mutate

type mutateCase struct {
	Name     string            `json:"name"`
	Config   string            `json:"config"` // the file as the operator wrote it (not in fmt form)
	EnvSet   map[string]string `json:"env_set"`
	EnvUnset []string          `json:"env_unset"` // after start-up, before the mutation (makes the reload fail)
	Mutation struct {
		Kind             string `json:"kind"`
		Application      string `json:"application"`
		EndpointName     string `json:"endpoint_name"`
		Route            string `json:"route"`
		SetIngressListen string `json:"set_ingress_listen"`
		BreakRoute       string `json:"break_route"`
		PostWriteFail    bool   `json:"post_write_fail"`
	} `json:"mutation"`
	Backlog []string `json:"backlog_routes"` // routes that have a queued message in the store
	Probes  probeSet `json:"probes"`
	// StagedFile, when set, is written over the config file after start-up WITHOUT a reload: the operator staged an edit that
	// differs from the running configuration (e.g. a restart-only change whose reload was refused).  "The file as it was" then
	// means this content.
	StagedFile string `json:"staged_file"`
}

type mutateRes struct {
	Name            string   `json:"name"`
	SetupError      string   `json:"setup_error"`
	Err             string   `json:"err"`
	Applied         bool     `json:"applied"`
	Action          string   `json:"action"`
	FileSame        bool     `json:"file_same"`
	FileCompiles    bool     `json:"file_compiles"`
	FileAfter       string   `json:"file_after"`
	MidSeen         bool     `json:"mid_seen"` // the post-write observer ran
	MidCompiles     bool     `json:"mid_compiles"`
	MidSame         bool     `json:"mid_same"`
	ReturnedRunning bool     `json:"returned_running"`
	FpSame          bool     `json:"fp_same"`
	FpDiff          []string `json:"fp_diff"`
	FpEqualsFresh   bool     `json:"fp_equals_fresh_file"` // state decides like a process started on the file now on disk
	FpAfter         []string `json:"fp_after"`             // the decisions after the mutation, probe by probe
	StrayFiles      []string `json:"stray_files"`
}

func reloadMutate(inb []byte) (any, error) {
	var in struct {
		Dir   string       `json:"dir"`
		Cases []mutateCase `json:"cases"`
	}
	if err := json.Unmarshal(inb, &in); err != nil {
		return nil, err
	}
	var out []mutateRes
	for ci, c := range in.Cases {
		res := mutateRes{Name: c.Name}
		dir := filepath.Join(in.Dir, fmt.Sprintf("mu%d", ci))
		_ = os.MkdirAll(dir, 0o755)
		cfgPath := filepath.Join(dir, "Hookaidofile")
		_ = os.WriteFile(cfgPath, []byte(c.Config), 0o640)
		setEnv(c.EnvSet, nil)
		running, err := app.VerifCompile([]byte(c.Config))
		if err != nil {
			res.SetupError = err.Error()
			out = append(out, res)
			continue
		}
		clk := &vclock{t: time.Now()}
		st, err := app.VerifNewState(running, clk.Now)
		if err != nil {
			res.SetupError = err.Error()
			out = append(out, res)
			continue
		}
		store := queue.NewMemoryStore()
		for _, rt := range c.Backlog {
			_ = store.Enqueue(queue.Envelope{ID: "bl-" + rt, Route: rt, Target: "pull"})
		}
		fp0 := fingerprint(st, running, c.Probes, clk)
		setEnv(nil, c.EnvUnset)
		onDisk := c.Config
		if c.StagedFile != "" {
			onDisk = c.StagedFile
			_ = os.WriteFile(cfgPath, []byte(onDisk), 0o640)
		}
		m := app.VerifMutation{Kind: c.Mutation.Kind, Application: c.Mutation.Application, EndpointName: c.Mutation.EndpointName,
			Route: c.Mutation.Route, SetIngressListen: c.Mutation.SetIngressListen, BreakRoute: c.Mutation.BreakRoute,
			PostWriteFail: c.Mutation.PostWriteFail}
		m.OnPostWrite = func() {
			res.MidSeen = true
			b, _ := os.ReadFile(cfgPath)
			res.MidCompiles = configCompiles(b)
			res.MidSame = string(b) == onDisk
		}
		mo, updated := app.VerifMutateManaged(cfgPath, running, st, store, m)
		res.Err, res.Applied, res.Action = mo.Err, mo.Applied, mo.Action
		after, _ := os.ReadFile(cfgPath)
		res.FileSame = string(after) == onDisk
		res.FileCompiles = configCompiles(after)
		if !res.FileSame {
			res.FileAfter = string(after)
		}
		res.ReturnedRunning = reflect.DeepEqual(updated, running)
		fp1 := fingerprint(st, updated, c.Probes, clk)
		res.FpSame = reflect.DeepEqual(fp0, fp1)
		res.FpAfter = fp1
		if !res.FpSame {
			res.FpDiff = diffLines(fp0, fp1)
		}
		setEnv(c.EnvSet, nil)
		if fc, err := app.VerifCompile(after); err == nil {
			clk2 := &vclock{t: time.Now()}
			if fresh, err := app.VerifNewState(fc, clk2.Now); err == nil {
				res.FpEqualsFresh = reflect.DeepEqual(fingerprint(fresh, fc, c.Probes, clk2), fp1)
			}
		}
		ents, _ := os.ReadDir(dir)
		for _, e := range ents {
			if e.Name() != "Hookaidofile" {
				res.StrayFiles = append(res.StrayFiles, e.Name())
			}
		}
		for k := range c.EnvSet {
			_ = os.Unsetenv(k)
		}
		out = append(out, res)
	}
	return out, nil
}

// ---------------------------------------------------------------------------
// reload-stress: real goroutines.  Requests run concurrently with a reloader that flips between two
// files; every response is classified against the two single-configuration outcomes.

func init() { register("reload-stress", reloadStress) }

func reloadStress(inb []byte) (any, error) {
	var in struct {
		Dir      string   `json:"dir"`
		Old      string   `json:"old"`
		New      string   `json:"new"`
		Probe    ingProbe `json:"probe"`
		Workers  int      `json:"workers"`
		Millis   int      `json:"millis"`
		OldCodes []int    `json:"old_codes"` // status codes a request may get under the old / the new configuration alone
		NewCodes []int    `json:"new_codes"`
	}
	if err := json.Unmarshal(inb, &in); err != nil {
		return nil, err
	}
	oldC, err := app.VerifCompile([]byte(in.Old))
	if err != nil {
		return nil, err
	}
	if _, err := app.VerifCompile([]byte(in.New)); err != nil {
		return nil, err
	}
	_ = os.MkdirAll(in.Dir, 0o755)
	po, pn := filepath.Join(in.Dir, "old"), filepath.Join(in.Dir, "new")
	_ = os.WriteFile(po, []byte(in.Old), 0o600)
	_ = os.WriteFile(pn, []byte(in.New), 0o600)
	st, err := app.VerifNewState(oldC, time.Now)
	if err != nil {
		return nil, err
	}
	store := queue.NewMemoryStore()
	ing := st.Ingress(store, oldC, nopHook{})
	stop := make(chan struct{})
	var wg sync.WaitGroup
	var mu sync.Mutex
	counts := map[int]int{}
	reloads := 0
	wg.Add(1)
	go func() {
		defer wg.Done()
		running := oldC
		paths := []string{pn, po}
		for i := 0; ; i++ {
			select {
			case <-stop:
				return
			default:
			}
			if upd, ok := app.VerifReload(paths[i%2], running, st); ok {
				running = upd
				reloads++
			}
		}
	}()
	for w := 0; w < in.Workers; w++ {
		wg.Add(1)
		go func() {
			defer wg.Done()
			local := map[int]int{}
			for {
				select {
				case <-stop:
					mu.Lock()
					for k, v := range local {
						counts[k] += v
					}
					mu.Unlock()
					return
				default:
				}
				rec := httptest.NewRecorder()
				ing.ServeHTTP(rec, buildIngressRequest(in.Probe))
				local[rec.Code]++
			}
		}()
	}
	time.Sleep(time.Duration(in.Millis) * time.Millisecond)
	close(stop)
	wg.Wait()
	legal := map[int]bool{}
	for _, c := range in.OldCodes {
		legal[c] = true
	}
	for _, c := range in.NewCodes {
		legal[c] = true
	}
	total, mixed := 0, 0
	cs := map[string]int{}
	for k, v := range counts {
		total += v
		cs[fmt.Sprintf("%d", k)] = v
		if !legal[k] {
			mixed += v
		}
	}
	return map[string]any{"requests": total, "reloads": reloads, "by_status": cs, "neither_old_nor_new": mixed}, nil
}
