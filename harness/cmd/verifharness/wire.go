//go:build verif

package main

// wire-run: how many times does ONE call of the real HTTPDeliverer (real http.Client, real http.Transport, keep-alive)
// put the message on the wire?  The target is a raw TCP listener: requests marked X-Verif-Role: warm are answered 200 and keep
// the connection open (so the next delivery finds an idle, reusable connection), the message under test is read completely and
// then the connection is dropped without an answer - the situation in which Go's transport transparently re-sends a request it
// considers replayable.  C06: one attempt = one send (at most retry.max+1 sends per cycle, every attempt recorded).

import (
	"bufio"
	"context"
	"encoding/hex"
	"encoding/json"
	"io"
	"net"
	"net/http"
	"sync"
	"time"

	"github.com/nuetzliches/hookaido/internal/dispatcher"
)

func init() { register("wire-run", wireRun) }

type wireCase struct {
	Headers  map[string]string `json:"headers"`
	BodyHex  string            `json:"body_hex"`
	Attempts int               `json:"attempts"`
	Warm     bool              `json:"warm"` // a warm delivery before every attempt (reused connection)
}

type wireCaseOut struct {
	PerCall  []int    `json:"per_call"` // receptions of the message under test during each Deliver call
	Errs     []string `json:"errs"`
	Statuses []int    `json:"statuses"`
	Headers  []string `json:"header_names"` // header names of the first reception
}

func wireRun(in []byte) (any, error) {
	var req struct {
		Cases []wireCase `json:"cases"`
	}
	if err := json.Unmarshal(in, &req); err != nil {
		return nil, err
	}
	outs := make([]wireCaseOut, len(req.Cases))
	for i, c := range req.Cases {
		ln, err := net.Listen("tcp", "127.0.0.1:0")
		if err != nil {
			return nil, err
		}
		var mu sync.Mutex
		got := 0
		var names []string
		go func() {
			for {
				conn, err := ln.Accept()
				if err != nil {
					return
				}
				go func(conn net.Conn) {
					defer conn.Close()
					br := bufio.NewReader(conn)
					for {
						r, err := http.ReadRequest(br)
						if err != nil {
							return
						}
						_, _ = io.Copy(io.Discard, r.Body)
						if r.Header.Get("X-Verif-Role") == "warm" {
							_, _ = io.WriteString(conn, "HTTP/1.1 200 OK\r\nContent-Length: 0\r\n\r\n")
							continue
						}
						mu.Lock()
						got++
						if names == nil {
							for k := range r.Header {
								names = append(names, k)
							}
						}
						mu.Unlock()
						return // drop the connection without answering
					}
				}(conn)
			}
		}()
		target := "http://" + ln.Addr().String() + "/hook"
		tr := &http.Transport{MaxIdleConns: 4, MaxIdleConnsPerHost: 4, IdleConnTimeout: 30 * time.Second}
		d := dispatcher.NewHTTPDeliverer(&http.Client{Transport: tr}, dispatcher.EgressPolicy{})
		body, err := hex.DecodeString(c.BodyHex)
		if err != nil {
			return nil, err
		}
		o := wireCaseOut{}
		for a := 0; a < c.Attempts; a++ {
			if c.Warm {
				ctx, cancel := context.WithTimeout(context.Background(), 3*time.Second)
				_ = d.Deliver(ctx, dispatcher.Delivery{ID: "warm", Target: target, URL: target, Method: http.MethodPost,
					Header: http.Header{"X-Verif-Role": []string{"warm"}}, Body: []byte("w")})
				cancel()
			}
			mu.Lock()
			before := got
			mu.Unlock()
			hdr := http.Header{}
			for k, v := range c.Headers {
				hdr.Set(k, v)
			}
			ctx, cancel := context.WithTimeout(context.Background(), 3*time.Second)
			res := d.Deliver(ctx, dispatcher.Delivery{ID: "evt_under_test", Target: target, URL: target, Method: http.MethodPost, Header: hdr, Body: body})
			cancel()
			time.Sleep(20 * time.Millisecond) // let a transparent re-send (if any) reach the listener
			mu.Lock()
			o.PerCall = append(o.PerCall, got-before)
			mu.Unlock()
			o.Statuses = append(o.Statuses, res.StatusCode)
			if res.Err != nil {
				o.Errs = append(o.Errs, res.Err.Error())
			} else {
				o.Errs = append(o.Errs, "")
			}
		}
		mu.Lock()
		o.Headers = names
		mu.Unlock()
		tr.CloseIdleConnections()
		ln.Close()
		outs[i] = o
	}
	return map[string]any{"cases": outs}, nil
}
