//go:build verif

package main

// mcp-audit-life: ONE MCP server lives through a sequence of mutating tool calls (allowed, refused, failing) while its audit sink
// misbehaves for a moment - a write that fails (disk full), a short write - and then works again.  C20: every mutating call appends
// one audit record; a record that could not be written is lost, the calls after it are audited as always.

import (
	"bufio"
	"bytes"
	"context"
	"encoding/json"
	"errors"
	"fmt"
	"io"
	"os"
	"path/filepath"
	"strings"
	"sync"

	"github.com/nuetzliches/hookaido/internal/mcp"
	"github.com/nuetzliches/hookaido/internal/queue"
)

func init() { register("mcp-audit-life", mcpAuditLife) }

type malCall struct {
	Name string         `json:"name"`
	Args map[string]any `json:"args"`
}

type malCase struct {
	Setting    mcpSetting `json:"setting"`
	Calls      []malCall  `json:"calls"`
	FailWrites []int      `json:"fail_writes"`  // indexes (0-based) of the sink's Write calls that fail with ENOSPC and write nothing
	ShortWrite []int      `json:"short_writes"` // ... that write half of the bytes and report an error
}

type malRecord struct {
	Tool   string `json:"tool"`
	Result string `json:"result"`
	OK     bool   `json:"complete"` // parsable JSON with the seven fields
}

type malOut struct {
	Records   []malRecord `json:"records"`
	Writes    int         `json:"writes"`
	Responses int         `json:"responses"`
	IsError   []bool      `json:"is_error"`
	Err       string      `json:"err,omitempty"`
}

type flakySink struct {
	mu    sync.Mutex
	buf   []byte
	n     int
	fail  map[int]bool
	short map[int]bool
}

func (f *flakySink) Write(p []byte) (int, error) {
	f.mu.Lock()
	defer f.mu.Unlock()
	k := f.n
	f.n++
	if f.fail[k] {
		return 0, errors.New("write audit: no space left on device")
	}
	if f.short[k] {
		h := len(p) / 2
		f.buf = append(f.buf, p[:h]...)
		f.buf = append(f.buf, '\n') // the next record starts on a fresh line (as after a torn line in a real file followed by a newline-terminated record)
		return h, io.ErrShortWrite
	}
	f.buf = append(f.buf, p...)
	return len(p), nil
}

func mcpAuditLife(inb []byte) (any, error) {
	var in struct {
		Dir   string    `json:"dir"`
		Cases []malCase `json:"cases"`
	}
	if err := json.Unmarshal(inb, &in); err != nil {
		return nil, err
	}
	outs := make([]malOut, len(in.Cases))
	for ci, c := range in.Cases {
		state := filepath.Join(in.Dir, "life"+itoa(ci))
		if err := os.MkdirAll(state, 0o755); err != nil {
			return nil, err
		}
		cfgPath := filepath.Join(state, "Hookaidofile")
		dbPath := filepath.Join(state, "hookaido.db")
		if err := os.WriteFile(cfgPath, []byte(mcpValidConfig), 0o600); err != nil {
			return nil, err
		}
		st, err := queue.NewSQLiteStore(dbPath)
		if err != nil {
			return nil, err
		}
		_ = st.Enqueue(queue.Envelope{ID: "seed-1", Route: "/hooks", Target: "pull"})
		_ = st.Close()
		sink := &flakySink{fail: map[int]bool{}, short: map[int]bool{}}
		for _, k := range c.FailWrites {
			sink.fail[k] = true
		}
		for _, k := range c.ShortWrite {
			sink.short[k] = true
		}
		var reqs []any
		for i, call := range c.Calls {
			args := call.Args
			if args == nil {
				args = map[string]any{}
			}
			reqs = append(reqs, map[string]any{"jsonrpc": "2.0", "id": i + 1, "method": "tools/call", "params": map[string]any{"name": call.Name, "arguments": args}})
		}
		o := malOut{}
		resp, err := rpcCall(func(i io.Reader, w io.Writer) *mcp.Server {
			return newMcpServer(i, w, sink, cfgPath, dbPath, filepath.Join(state, "pid"), c.Setting)
		}, reqs)
		if err != nil {
			o.Err = err.Error()
		}
		o.Responses = len(resp)
		for _, r := range resp {
			ie := false
			if _, bad := r["error"]; bad {
				ie = true
			} else if rr, ok := r["result"].(map[string]any); ok {
				ie, _ = rr["isError"].(bool)
			}
			o.IsError = append(o.IsError, ie)
		}
		sink.mu.Lock()
		o.Writes = sink.n
		text := string(sink.buf)
		sink.mu.Unlock()
		for _, line := range strings.Split(text, "\n") {
			if strings.TrimSpace(line) == "" {
				continue
			}
			var ev map[string]any
			rec := malRecord{}
			if err := json.Unmarshal([]byte(line), &ev); err == nil {
				rec.OK = true
				for _, k := range []string{"timestamp", "principal", "role", "tool", "input_hash", "result", "duration_ms"} {
					if _, ok := ev[k]; !ok {
						rec.OK = false
					}
				}
				rec.Tool, _ = ev["tool"].(string)
				rec.Result, _ = ev["result"].(string)
			}
			o.Records = append(o.Records, rec)
		}
		outs[ci] = o
	}
	return map[string]any{"cases": outs}, nil
}

// mcp-life-steps: ONE MCP server, tool calls one after the other, with changes of the ENVIRONMENT between them (a file a candidate
// configuration refers to goes away or changes; an environment variable is unset).  C20: a config-writing tool writes only content
// that parses and compiles - when it writes, not when the same bytes were looked at earlier.
func init() { register("mcp-life-steps", mcpLifeSteps) }

type mlsStep struct {
	Call    *malCall `json:"call,omitempty"`
	Rm      string   `json:"rm,omitempty"`    // relative to the case directory
	Write   string   `json:"write,omitempty"` // relative path ...
	Content string   `json:"content,omitempty"`
}

type mlsCase struct {
	Setting mcpSetting        `json:"setting"`
	Initial string            `json:"initial"` // initial config text; %DIR% is replaced by the case directory
	Files   map[string]string `json:"files"`
	Steps   []mlsStep         `json:"steps"`
}

type mlsCallOut struct {
	IsError bool   `json:"is_error"`
	OK      *bool  `json:"ok,omitempty"`
	Applied *bool  `json:"applied,omitempty"`
	Text    string `json:"text"`
	// the configuration file right after this call
	FileSame     bool `json:"file_same_as_before_call"`
	FileCompiles bool `json:"file_compiles"`
}

type mlsOut struct {
	Calls   []mlsCallOut `json:"calls"`
	Records int          `json:"audit_records"`
	Err     string       `json:"err,omitempty"`
}

func mcpLifeSteps(inb []byte) (any, error) {
	var in struct {
		Dir   string    `json:"dir"`
		Cases []mlsCase `json:"cases"`
	}
	if err := json.Unmarshal(inb, &in); err != nil {
		return nil, err
	}
	outs := make([]mlsOut, len(in.Cases))
	for ci, c := range in.Cases {
		outs[ci] = mlsRun(filepath.Join(in.Dir, "steps"+itoa(ci)), c)
	}
	return map[string]any{"cases": outs}, nil
}

func mlsRun(dir string, c mlsCase) (out mlsOut) {
	if err := os.MkdirAll(dir, 0o755); err != nil {
		out.Err = err.Error()
		return
	}
	sub := func(s string) string { return strings.ReplaceAll(s, "%DIR%", dir) }
	cfgPath := filepath.Join(dir, "Hookaidofile")
	if err := os.WriteFile(cfgPath, []byte(sub(c.Initial)), 0o600); err != nil {
		out.Err = err.Error()
		return
	}
	for name, content := range c.Files {
		if err := os.WriteFile(filepath.Join(dir, name), []byte(content), 0o600); err != nil {
			out.Err = err.Error()
			return
		}
	}
	var audit bytes.Buffer
	inR, inW := io.Pipe()
	outR, outW := io.Pipe()
	srv := newMcpServer(inR, outW, &audit, cfgPath, filepath.Join(dir, "hookaido.db"), filepath.Join(dir, "pid"), c.Setting)
	done := make(chan error, 1)
	go func() { done <- srv.Serve(context.Background()); outW.Close() }()
	br := bufio.NewReader(outR)
	readOne := func() (map[string]any, error) {
		n := -1
		for {
			line, err := br.ReadString('\n')
			if err != nil {
				return nil, err
			}
			line = strings.TrimSpace(line)
			if line == "" {
				break
			}
			if strings.HasPrefix(strings.ToLower(line), "content-length:") {
				fmt.Sscanf(strings.TrimSpace(line[len("content-length:"):]), "%d", &n)
			}
		}
		if n < 0 {
			return nil, errors.New("frame without Content-Length")
		}
		buf := make([]byte, n)
		if _, err := io.ReadFull(br, buf); err != nil {
			return nil, err
		}
		var m map[string]any
		err := json.Unmarshal(buf, &m)
		return m, err
	}
	id := 0
	for _, st := range c.Steps {
		switch {
		case st.Rm != "":
			_ = os.Remove(filepath.Join(dir, st.Rm))
		case st.Write != "":
			_ = os.WriteFile(filepath.Join(dir, st.Write), []byte(st.Content), 0o600)
		case st.Call != nil:
			id++
			before, _ := os.ReadFile(cfgPath)
			args := map[string]any{}
			for k, v := range st.Call.Args {
				if s, ok := v.(string); ok {
					v = sub(s)
				}
				args[k] = v
			}
			if _, err := inW.Write(frame(map[string]any{"jsonrpc": "2.0", "id": id, "method": "tools/call", "params": map[string]any{"name": st.Call.Name, "arguments": args}})); err != nil {
				out.Err = "write: " + err.Error()
				return
			}
			resp, err := readOne()
			if err != nil {
				out.Err = "read: " + err.Error()
				return
			}
			co := mlsCallOut{}
			if _, bad := resp["error"]; bad {
				co.IsError = true
			} else if r, ok := resp["result"].(map[string]any); ok {
				co.IsError, _ = r["isError"].(bool)
				if cl, ok := r["content"].([]any); ok && len(cl) > 0 {
					if cm, ok := cl[0].(map[string]any); ok {
						co.Text, _ = cm["text"].(string)
					}
				}
				if sc, ok := r["structuredContent"].(map[string]any); ok {
					if v, ok := sc["ok"].(bool); ok {
						co.OK = &v
					}
					if v, ok := sc["applied"].(bool); ok {
						co.Applied = &v
					}
				}
			}
			after, _ := os.ReadFile(cfgPath)
			co.FileSame = string(before) == string(after)
			co.FileCompiles = configCompiles(after)
			if len(co.Text) > 300 {
				co.Text = co.Text[:300]
			}
			out.Calls = append(out.Calls, co)
		}
	}
	inW.Close()
	<-done
	for _, line := range strings.Split(strings.TrimSpace(audit.String()), "\n") {
		if strings.TrimSpace(line) != "" {
			out.Records++
		}
	}
	return
}
