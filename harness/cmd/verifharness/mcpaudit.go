//go:build verif

package main

// mcp-audit-life: ONE MCP server lives through a sequence of mutating tool calls (allowed, refused, failing) while its audit sink
// misbehaves for a moment - a write that fails (disk full), a short write - and then works again.  C20: every mutating call appends
// one audit record; a record that could not be written is lost, the calls after it are audited as always.

import (
	"encoding/json"
	"errors"
	"io"
	"os"
	"path/filepath"
	"strings"
	"sync"

	"github.com/nuetzliches/hookaido/internal/mcp"
	"github.com/nuetzliches/hookaido/internal/queue"
)

func init() { register("mcp-audit-life", mcpAuditLife) }

type malCall struct {
	Name string         `json:"name"`
	Args map[string]any `json:"args"`
}

type malCase struct {
	Setting    mcpSetting `json:"setting"`
	Calls      []malCall  `json:"calls"`
	FailWrites []int      `json:"fail_writes"`  // indexes (0-based) of the sink's Write calls that fail with ENOSPC and write nothing
	ShortWrite []int      `json:"short_writes"` // ... that write half of the bytes and report an error
}

type malRecord struct {
	Tool   string `json:"tool"`
	Result string `json:"result"`
	OK     bool   `json:"complete"` // parsable JSON with the seven fields
}

type malOut struct {
	Records   []malRecord `json:"records"`
	Writes    int         `json:"writes"`
	Responses int         `json:"responses"`
	IsError   []bool      `json:"is_error"`
	Err       string      `json:"err,omitempty"`
}

type flakySink struct {
	mu    sync.Mutex
	buf   []byte
	n     int
	fail  map[int]bool
	short map[int]bool
}

func (f *flakySink) Write(p []byte) (int, error) {
	f.mu.Lock()
	defer f.mu.Unlock()
	k := f.n
	f.n++
	if f.fail[k] {
		return 0, errors.New("write audit: no space left on device")
	}
	if f.short[k] {
		h := len(p) / 2
		f.buf = append(f.buf, p[:h]...)
		f.buf = append(f.buf, '\n') // the next record starts on a fresh line (as after a torn line in a real file followed by a newline-terminated record)
		return h, io.ErrShortWrite
	}
	f.buf = append(f.buf, p...)
	return len(p), nil
}

func mcpAuditLife(inb []byte) (any, error) {
	var in struct {
		Dir   string    `json:"dir"`
		Cases []malCase `json:"cases"`
	}
	if err := json.Unmarshal(inb, &in); err != nil {
		return nil, err
	}
	outs := make([]malOut, len(in.Cases))
	for ci, c := range in.Cases {
		state := filepath.Join(in.Dir, "life"+itoa(ci))
		if err := os.MkdirAll(state, 0o755); err != nil {
			return nil, err
		}
		cfgPath := filepath.Join(state, "Hookaidofile")
		dbPath := filepath.Join(state, "hookaido.db")
		if err := os.WriteFile(cfgPath, []byte(mcpValidConfig), 0o600); err != nil {
			return nil, err
		}
		st, err := queue.NewSQLiteStore(dbPath)
		if err != nil {
			return nil, err
		}
		_ = st.Enqueue(queue.Envelope{ID: "seed-1", Route: "/hooks", Target: "pull"})
		_ = st.Close()
		sink := &flakySink{fail: map[int]bool{}, short: map[int]bool{}}
		for _, k := range c.FailWrites {
			sink.fail[k] = true
		}
		for _, k := range c.ShortWrite {
			sink.short[k] = true
		}
		var reqs []any
		for i, call := range c.Calls {
			args := call.Args
			if args == nil {
				args = map[string]any{}
			}
			reqs = append(reqs, map[string]any{"jsonrpc": "2.0", "id": i + 1, "method": "tools/call", "params": map[string]any{"name": call.Name, "arguments": args}})
		}
		o := malOut{}
		resp, err := rpcCall(func(i io.Reader, w io.Writer) *mcp.Server {
			return newMcpServer(i, w, sink, cfgPath, dbPath, filepath.Join(state, "pid"), c.Setting)
		}, reqs)
		if err != nil {
			o.Err = err.Error()
		}
		o.Responses = len(resp)
		for _, r := range resp {
			ie := false
			if _, bad := r["error"]; bad {
				ie = true
			} else if rr, ok := r["result"].(map[string]any); ok {
				ie, _ = rr["isError"].(bool)
			}
			o.IsError = append(o.IsError, ie)
		}
		sink.mu.Lock()
		o.Writes = sink.n
		text := string(sink.buf)
		sink.mu.Unlock()
		for _, line := range strings.Split(text, "\n") {
			if strings.TrimSpace(line) == "" {
				continue
			}
			var ev map[string]any
			rec := malRecord{}
			if err := json.Unmarshal([]byte(line), &ev); err == nil {
				rec.OK = true
				for _, k := range []string{"timestamp", "principal", "role", "tool", "input_hash", "result", "duration_ms"} {
					if _, ok := ev[k]; !ok {
						rec.OK = false
					}
				}
				rec.Tool, _ = ev["tool"].(string)
				rec.Result, _ = ev["result"].(string)
			}
			o.Records = append(o.Records, rec)
		}
		outs[ci] = o
	}
	return map[string]any{"cases": outs}, nil
}
