//go:build verif

package main

// C10: real config.Parse/Compile, real runtimeState + ingress.Server started by the
// real startServers (shim app.VerifStart), real HTTP over loopback (raw request bytes,
// so nothing is normalised on the client side) and direct ServeHTTP calls with a
// crafted RemoteAddr.  Plus `strfuncs`: the Go functions the Coq byte models mirror.

import (
	"bufio"
	"bytes"
	"encoding/hex"
	"encoding/json"
	"fmt"
	"io"
	"math/big"
	"net"
	"net/http"
	"net/http/httptest"
	"net/netip"
	"path"
	"sort"
	"strings"
	"sync"
	"time"

	"github.com/nuetzliches/hookaido/internal/app"
	"github.com/nuetzliches/hookaido/internal/config"
	"github.com/nuetzliches/hookaido/internal/queue"
	"github.com/nuetzliches/hookaido/internal/router"
)

func init() {
	register("resolve", resolveRun)
	register("strfuncs", strFuncs)
}

func hx(s string) string { return hex.EncodeToString([]byte(s)) }
func unhx(s string) string {
	b, err := hex.DecodeString(s)
	if err != nil {
		panic("bad hex in harness input: " + s)
	}
	return string(b)
}

// ---------------------------------------------------------------- strfuncs

type strIn struct {
	Paths     []string    `json:"paths"`     // hex
	Hosts     []string    `json:"hosts"`     // hex
	Trims     []string    `json:"trims"`     // hex
	HostPorts []string    `json:"hostports"` // hex
	Keys      []string    `json:"keys"`      // hex
	PathPairs [][2]string `json:"path_pairs"`
	HostPairs [][2]string `json:"host_pairs"` // request host (already normalised), pattern
}

type strOut struct {
	Clean     []string  `json:"clean"`
	Base      []string  `json:"base"`
	NormHost  []string  `json:"norm_host"`
	Trim      []string  `json:"trim"`
	SplitHost []*string `json:"split_host"` // nil = error
	Canon     []string  `json:"canon"`
	MatchPath []bool    `json:"match_path"`
	MatchHost []bool    `json:"match_host"`
	HelpersMissing      []string `json:"helpers_missing,omitempty"`       // helper twins the source no longer has
	HostHelperDisagrees []string `json:"host_helper_disagrees,omitempty"` // matchHosts(h, [p]) != what the resolver decides
}

func strFuncs(in []byte) (any, error) {
	var c strIn
	if err := json.Unmarshal(in, &c); err != nil {
		return nil, err
	}
	var o strOut
	for _, p := range c.Paths {
		s := unhx(p)
		o.Clean = append(o.Clean, hx(path.Clean(s)))
		o.Base = append(o.Base, hx(path.Base(s)))
	}
	for _, h := range c.Hosts {
		if app.VerifNormalizeHostFn == nil {
			o.HelpersMissing = append(o.HelpersMissing, "normalizeHost")
			break
		}
		o.NormHost = append(o.NormHost, hx(app.VerifNormalizeHostFn(unhx(h))))
	}
	for _, t := range c.Trims {
		o.Trim = append(o.Trim, hx(strings.TrimSpace(unhx(t))))
	}
	for _, hp := range c.HostPorts {
		h, _, err := net.SplitHostPort(unhx(hp))
		if err != nil {
			o.SplitHost = append(o.SplitHost, nil)
		} else {
			v := hx(h)
			o.SplitHost = append(o.SplitHost, &v)
		}
	}
	for _, k := range c.Keys {
		o.Canon = append(o.Canon, hx(http.CanonicalHeaderKey(unhx(k))))
	}
	for _, pp := range c.PathPairs {
		o.MatchPath = append(o.MatchPath, router.MatchPath(unhx(pp[0]), unhx(pp[1])))
	}
	for _, hp := range c.HostPairs {
		if app.VerifMatchHostsFn == nil {
			o.HelpersMissing = append(o.HelpersMissing, "matchHosts")
			break
		}
		o.MatchHost = append(o.MatchHost, app.VerifMatchHostsFn(unhx(hp[0]), []string{unhx(hp[1])}))
	}
	return o, nil
}

// ---------------------------------------------------------------- resolve

type rvReq struct {
	Mode    string      `json:"mode"`    // "http" | "direct"
	Method  string      `json:"method"`  // hex
	Target  string      `json:"target"`  // hex: request-target as sent ("/a/../b?x=1")
	Host    *string     `json:"host"`    // hex; nil = no Host header (http) / empty (direct)
	Headers [][2]string `json:"headers"` // hex name, hex value; in order
	Remote  string      `json:"remote"`  // hex; direct mode only
}

type rvIn struct {
	Configs  []string `json:"configs"`
	Requests []rvReq  `json:"requests"`
}

type rvPrefix struct {
	V4   bool   `json:"v4"`
	Addr string `json:"addr"` // decimal
	Bits int    `json:"bits"`
}

type rvRoute struct {
	Channel      string      `json:"channel"`
	Path         string      `json:"path"` // hex
	Methods      []string    `json:"methods"`
	Hosts        []string    `json:"hosts"`
	Headers      [][2]string `json:"headers"`
	HeaderExists []string    `json:"header_exists"`
	Query        [][2]string `json:"query"`
	QueryExists  []string    `json:"query_exists"`
	Remote       []rvPrefix  `json:"remote"`
	Targets      []string    `json:"targets"`
	HasPull      bool        `json:"has_pull"`
}

type rvKV struct {
	K string   `json:"k"`
	V []string `json:"v"`
}

type rvSeen struct {
	Method  string `json:"method"`
	Path    string `json:"path"`
	Host    string `json:"host"`
	Headers []rvKV `json:"headers"`
	Query   []rvKV `json:"query"`
	Remote  string `json:"remote"`
}

type rvRow struct {
	Status int         `json:"status"`
	Allow  []string    `json:"allow"` // hex, every Allow header value
	Seen   *rvSeen     `json:"seen"`
	New    [][2]string `json:"new"` // hex route, hex target of every envelope the request added
	Err    string      `json:"err,omitempty"`
}

type rvAddr struct {
	Text string `json:"text"` // hex
	V4   bool   `json:"v4"`
	Bits string `json:"bits"` // decimal
	Zone bool   `json:"zone"`
}

type rvCfgOut struct {
	OK      bool      `json:"ok"`
	Errors  []string  `json:"errors,omitempty"`
	Routes  []rvRoute `json:"routes"`
	Rows    []rvRow   `json:"rows"`
	Ingress string    `json:"ingress"`
}

type rvOut struct {
	Configs []rvCfgOut `json:"configs"`
	Addrs   []rvAddr   `json:"addrs"` // every substring of every RemoteAddr seen that netip.ParseAddr accepts
}

func hexAll(xs []string) []string {
	out := make([]string, 0, len(xs))
	for _, x := range xs {
		out = append(out, hx(x))
	}
	return out
}

func addrBits(a netip.Addr) (bool, string) {
	if a.Is4() {
		b := a.As4()
		return true, new(big.Int).SetBytes(b[:]).String()
	}
	b := a.As16()
	return false, new(big.Int).SetBytes(b[:]).String()
}

func dumpRoutes(c config.Compiled) []rvRoute {
	out := make([]rvRoute, 0, len(c.Routes))
	for _, rt := range c.Routes {
		r := rvRoute{Channel: string(rt.ChannelType), Path: hx(rt.Path), HasPull: rt.Pull != nil}
		r.Methods = hexAll(rt.Match.Methods)
		r.Hosts = hexAll(rt.Match.Hosts)
		for _, h := range rt.Match.Headers {
			r.Headers = append(r.Headers, [2]string{hx(h.Name), hx(h.Value)})
		}
		r.HeaderExists = hexAll(rt.Match.HeaderExists)
		for _, q := range rt.Match.Query {
			r.Query = append(r.Query, [2]string{hx(q.Name), hx(q.Value)})
		}
		r.QueryExists = hexAll(rt.Match.QueryExists)
		for _, p := range rt.Match.RemoteIPs {
			v4, bits := addrBits(p.Addr())
			r.Remote = append(r.Remote, rvPrefix{V4: v4, Addr: bits, Bits: p.Bits()})
		}
		for _, d := range rt.Deliveries {
			r.Targets = append(r.Targets, hx(d.URL))
		}
		out = append(out, r)
	}
	return out
}

func freeAddrs(n int) ([]string, error) {
	var lns []net.Listener
	var out []string
	for i := 0; i < n; i++ {
		ln, err := net.Listen("tcp", "127.0.0.1:0")
		if err != nil {
			return nil, err
		}
		lns = append(lns, ln)
		out = append(out, ln.Addr().String())
	}
	for _, ln := range lns {
		_ = ln.Close()
	}
	return out, nil
}

func fillAddrs(text string) (string, map[string]string, error) {
	keys := []string{"__INGRESS__", "__PULL__", "__ADMIN__", "__GRPC__"}
	addrs, err := freeAddrs(len(keys))
	if err != nil {
		return "", nil, err
	}
	m := map[string]string{}
	for i, k := range keys {
		m[k] = addrs[i]
		text = strings.ReplaceAll(text, k, addrs[i])
	}
	return text, m, nil
}

type seenBox struct {
	mu   sync.Mutex
	last *rvSeen
}

func kvList(m map[string][]string) []rvKV {
	keys := make([]string, 0, len(m))
	for k := range m {
		keys = append(keys, k)
	}
	sort.Strings(keys)
	out := make([]rvKV, 0, len(keys))
	for _, k := range keys {
		out = append(out, rvKV{K: hx(k), V: hexAll(m[k])})
	}
	return out
}

func (b *seenBox) wrap(next http.Handler) http.Handler {
	return http.HandlerFunc(func(w http.ResponseWriter, r *http.Request) {
		s := &rvSeen{Method: hx(r.Method), Path: hx(r.URL.Path), Host: hx(r.Host),
			Headers: kvList(r.Header), Query: kvList(r.URL.Query()), Remote: hx(r.RemoteAddr)}
		b.mu.Lock()
		b.last = s
		b.mu.Unlock()
		next.ServeHTTP(w, r)
	})
}

func (b *seenBox) take() *rvSeen {
	b.mu.Lock()
	defer b.mu.Unlock()
	s := b.last
	b.last = nil
	return s
}

type rawClient struct {
	addr string
	conn net.Conn
	br   *bufio.Reader
}

func (c *rawClient) close() {
	if c.conn != nil {
		_ = c.conn.Close()
		c.conn = nil
	}
}

func (c *rawClient) do(raw []byte, method string) (*http.Response, []byte, error) {
	for attempt := 0; attempt < 2; attempt++ {
		if c.conn == nil {
			conn, err := net.DialTimeout("tcp", c.addr, 2*time.Second)
			if err != nil {
				return nil, nil, err
			}
			c.conn = conn
			c.br = bufio.NewReader(conn)
		}
		_ = c.conn.SetDeadline(time.Now().Add(5 * time.Second))
		if _, err := c.conn.Write(raw); err != nil {
			c.close()
			continue
		}
		resp, err := http.ReadResponse(c.br, &http.Request{Method: method})
		if err != nil {
			c.close()
			if attempt == 0 {
				continue
			}
			return nil, nil, err
		}
		body, _ := io.ReadAll(resp.Body)
		_ = resp.Body.Close()
		if resp.Close || resp.StatusCode == 400 {
			c.close()
		}
		return resp, body, nil
	}
	return nil, nil, fmt.Errorf("request could not be sent")
}

func buildRaw(rq rvReq) ([]byte, string) {
	method := unhx(rq.Method)
	var b bytes.Buffer
	b.WriteString(method + " " + unhx(rq.Target) + " HTTP/1.1\r\n")
	if rq.Host != nil {
		b.WriteString("Host: " + unhx(*rq.Host) + "\r\n")
	}
	for _, h := range rq.Headers {
		b.WriteString(unhx(h[0]) + ": " + unhx(h[1]) + "\r\n")
	}
	b.WriteString("Content-Type: application/json\r\nContent-Length: 2\r\n\r\n{}")
	return b.Bytes(), method
}

func storeIDs(s *queue.MemoryStore) map[string]struct{} {
	out := map[string]struct{}{}
	for _, e := range s.VerifSnapshot() {
		out[e.ID] = struct{}{}
	}
	return out
}

func newEnvelopes(s *queue.MemoryStore, before map[string]struct{}) [][2]string {
	var out [][2]string
	for _, e := range s.VerifSnapshot() {
		if _, ok := before[e.ID]; !ok {
			out = append(out, [2]string{hx(e.Route), hx(e.Target)})
			before[e.ID] = struct{}{}
		}
	}
	sort.Slice(out, func(i, j int) bool { return out[i][0]+"|"+out[i][1] < out[j][0]+"|"+out[j][1] })
	return out
}

func resolveRun(in []byte) (any, error) {
	var inp rvIn
	if err := json.Unmarshal(in, &inp); err != nil {
		return nil, err
	}
	var out rvOut
	remotes := map[string]struct{}{}
	for _, text := range inp.Configs {
		co := rvCfgOut{}
		filled, addrs, err := fillAddrs(text)
		if err != nil {
			return nil, err
		}
		cfg, perr := config.Parse([]byte(filled))
		if perr != nil {
			co.Errors = []string{"parse: " + perr.Error()}
			out.Configs = append(out.Configs, co)
			continue
		}
		compiled, res := config.Compile(cfg)
		if !res.OK {
			co.Errors = res.Errors
			out.Configs = append(out.Configs, co)
			continue
		}
		co.OK = true
		co.Routes = dumpRoutes(compiled)
		co.Ingress = addrs["__INGRESS__"]
		store := queue.NewMemoryStore()
		rt, err := app.VerifStart(store, compiled)
		if err != nil {
			return nil, fmt.Errorf("start servers: %w", err)
		}
		ing := rt.HTTPServer(compiled.Ingress.Listen)
		if ing == nil {
			rt.Shutdown()
			return nil, fmt.Errorf("no ingress server on %s", compiled.Ingress.Listen)
		}
		box := &seenBox{}
		ing.Handler = box.wrap(ing.Handler)
		handler := ing.Handler
		cl := &rawClient{addr: compiled.Ingress.Listen}
		ids := storeIDs(store)
		for _, rq := range inp.Requests {
			row := rvRow{}
			box.take()
			switch rq.Mode {
			case "http":
				raw, method := buildRaw(rq)
				resp, _, err := cl.do(raw, method)
				if err != nil {
					row.Err = err.Error()
				} else {
					row.Status = resp.StatusCode
					row.Allow = hexAll(resp.Header.Values("Allow"))
				}
			case "direct":
				target := unhx(rq.Target)
				req, err := http.NewRequest(unhx(rq.Method), "http://placeholder.invalid"+target, strings.NewReader("{}"))
				if err != nil {
					row.Err = "newrequest: " + err.Error()
					break
				}
				req.RequestURI = target
				if rq.Host != nil {
					req.Host = unhx(*rq.Host)
				} else {
					req.Host = ""
				}
				for _, h := range rq.Headers {
					req.Header.Add(unhx(h[0]), unhx(h[1]))
				}
				req.Header.Set("Content-Type", "application/json")
				req.RemoteAddr = unhx(rq.Remote)
				rec := httptest.NewRecorder()
				handler.ServeHTTP(rec, req)
				row.Status = rec.Code
				row.Allow = hexAll(rec.Header().Values("Allow"))
			default:
				row.Err = "unknown mode"
			}
			row.Seen = box.take()
			if row.Seen != nil {
				remotes[unhx(row.Seen.Remote)] = struct{}{}
			}
			row.New = newEnvelopes(store, ids)
			co.Rows = append(co.Rows, row)
		}
		cl.close()
		rt.Shutdown()
		out.Configs = append(out.Configs, co)
	}
	seenAddr := map[string]struct{}{}
	for r := range remotes {
		for i := 0; i < len(r); i++ {
			for j := i + 1; j <= len(r); j++ {
				sub := r[i:j]
				if _, ok := seenAddr[sub]; ok {
					continue
				}
				seenAddr[sub] = struct{}{}
				a, err := netip.ParseAddr(sub)
				if err != nil {
					continue
				}
				v4, bits := addrBits(a)
				out.Addrs = append(out.Addrs, rvAddr{Text: hx(sub), V4: v4, Bits: bits, Zone: a.Zone() != ""})
			}
		}
	}
	sort.Slice(out.Addrs, func(i, j int) bool { return out.Addrs[i].Text < out.Addrs[j].Text })
	return out, nil
}
