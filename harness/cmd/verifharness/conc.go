//go:build verif

package main

// Concurrent stress for C03 (lease exclusivity under real goroutine interleavings).
//
// One run = one store (memory or SQLite) with an injected clock.  The run is a sequence of phases;
// the clock moves only between phases, under a write lock that no call can be inside of (every
// recorded call holds the read side for its whole duration), so every call has one well-defined
// phase time.  Inside a phase 8-16 goroutines issue random calls against the one store through a mix
// of entry points: direct Store calls, the real pullapi.Server HTTP handler, the real workerapi
// (gRPC service) server called in process, and - all the time - a real PushDispatcher whose store is a
// recording wrapper and whose Deliverer is a scripted stub.  Every call gets a call stamp and a
// return stamp from ONE atomic counter.  Output: the complete history of calls per run (judged by
// Model/Overlap.v in Coq) and the Deliver invocations of the dispatcher.

import (
	"bytes"
	"context"
	"encoding/json"
	"fmt"
	"io"
	"log/slog"
	"math/rand"
	"net/http"
	"net/http/httptest"
	"os"
	"path/filepath"
	"runtime"
	"strings"
	"sync"
	"sync/atomic"
	"time"

	"github.com/nuetzliches/hookaido/internal/dispatcher"
	"github.com/nuetzliches/hookaido/internal/pullapi"
	"github.com/nuetzliches/hookaido/internal/queue"
	"github.com/nuetzliches/hookaido/internal/workerapi"
	workerapipb "github.com/nuetzliches/hookaido/internal/workerapi/proto"
	"google.golang.org/protobuf/types/known/durationpb"
)

func init() {
	register("conc", concRun)
}

// ---------------------------------------------------------------------------
// input / output

type cRunCfg struct {
	Backend    string `json:"backend"`
	Seed       int64  `json:"seed"`
	Phases     int    `json:"phases"`
	Goroutines int    `json:"goroutines"`
	OpsPerG    int    `json:"ops_per_g"`
	PullMsgs   int    `json:"pull_msgs"`
	PushMsgs   int    `json:"push_msgs"`
	StepNs     int64  `json:"step_ns"`     // clock advance per phase
	TTLPhases  []int  `json:"ttl_phases"`  // lease TTLs used by the workers, in phases
	Entry      []int  `json:"entry"`       // weights: store, http, grpc
	PushConc   int    `json:"push_conc"`   // dispatcher workers on the push route (0 = no dispatcher)
	PushTimeNs int64  `json:"push_timeout_ns"`
	PushSlack  int64  `json:"push_slack_ns"`
	SlowPct    int    `json:"slow_pct"`    // share of deliveries that take the whole target timeout (in injected time)
	FailPct    int    `json:"fail_pct"`    // share answered 500 (retry); DeadPct: 400 (dead letter)
	DeadPct    int    `json:"dead_pct"`
	HotPct     int    `json:"hot_pct"`     // share of lease picks that go for the most recently issued lease of anybody
	HoldPct    int    `json:"hold_pct"`    // share of leases a worker keeps across phases instead of settling at once
	DelivAge   int64  `json:"deliv_age"`   // delivered retention (0: ack deletes)
}

type cIn struct {
	Dir  string    `json:"dir"`
	Runs []cRunCfg `json:"runs"`
	Par  int       `json:"par"`
}

type cItem struct {
	ID      string `json:"id"`
	Lease   string `json:"lease"`
	Attempt int    `json:"attempt"`
	Until   int64  `json:"until"`
	Next    int64  `json:"next,omitempty"` // what the transport reported as next_run_at (http/grpc)
}

type cCall struct {
	C      int64    `json:"c"`
	R      int64    `json:"r"`
	Now    int64    `json:"now"`
	Phase  int      `json:"ph"`
	Kind   string   `json:"k"`   // deq ack nack dead extend batch cancel requeue enqueue other
	Sub    string   `json:"sub,omitempty"`
	Src    string   `json:"src"` // store http grpc push
	G      int      `json:"g"`
	Leases []string `json:"leases,omitempty"`
	By     int64    `json:"by,omitempty"`
	TTL    int64    `json:"ttl,omitempty"`
	Batch  int      `json:"batch,omitempty"`
	IDs    []string `json:"ids,omitempty"`
	OK     bool     `json:"ok"`
	Items  []cItem  `json:"items,omitempty"`
	Err    string   `json:"err,omitempty"`
	Count  int      `json:"count,omitempty"`
}

type cDeliver struct {
	C       int64  `json:"c"`
	R       int64  `json:"r"`
	ID      string `json:"id"`
	Lease   string `json:"lease"`
	Until   int64  `json:"until"`
	NowC    int64  `json:"now_c"`
	NowR    int64  `json:"now_r"`
	Outcome string `json:"outcome"`
	Slow    bool   `json:"slow"`
}

type cRunOut struct {
	Backend  string     `json:"backend"`
	Calls    []cCall    `json:"calls"`
	Delivers []cDeliver `json:"delivers"`
	MaxConc  int64      `json:"max_conc"`
	Unquiet  int64      `json:"unquiet"`
	WallMs   int64      `json:"wall_ms"`
	Fatal    string     `json:"fatal,omitempty"`
	Final    []qRow     `json:"final,omitempty"`
}

// ---------------------------------------------------------------------------
// the shared recording machinery of one run

type cRun struct {
	cfg   cRunCfg
	st    qStore
	clk   *clock
	gate  sync.RWMutex // read side: a call in flight; write side: the clock moves
	stamp int64
	phase int64

	mu       sync.Mutex
	calls    []cCall
	delivers []cDeliver
	inflight int64
	maxConc  int64

	phaseMu   sync.Mutex
	phaseCond *sync.Cond
	closing   bool
	waiters   map[*slowWait]struct{} // deliveries waiting for the injected clock (guarded by phaseMu)
	holding   int64                  // dispatcher workers that hold a non-empty micro-batch (changes only inside store calls)
	pushG     sync.Map               // goroutine id -> *int32 (1 = holding)
	unquiet   int64                  // phase ends at which the dispatcher did not come to rest in time

	pushLease sync.Map // dispatcher goroutine id -> the items of its latest non-empty dequeue (id -> cItem)
	known     sync.Map // lease pool shared between the workers (index -> held)
	hot       atomic.Value // the lease handed out most recently to any worker: several workers go for it at once
	nKnown    int64
	nextMsg   int64
	msgIDs    sync.Map // index -> id
	nMsgIDs   int64
}

type slowWait struct {
	deadline int64
	released bool
}

// goroutine id of the caller (the dispatcher's workers are anonymous goroutines of the real code)
func gid() string {
	var buf [64]byte
	n := runtime.Stack(buf[:], false)
	f := strings.Fields(string(buf[:n]))
	if len(f) >= 2 {
		return f[1]
	}
	return "?"
}

func (r *cRun) pushHolding(on bool) {
	v, _ := r.pushG.LoadOrStore(gid(), new(int32))
	st := v.(*int32)
	if on && atomic.CompareAndSwapInt32(st, 0, 1) {
		atomic.AddInt64(&r.holding, 1)
	}
	if !on && atomic.CompareAndSwapInt32(st, 1, 0) {
		atomic.AddInt64(&r.holding, -1)
	}
}

type held struct {
	lease string
	id    string
}

func (r *cRun) tick() int64 { return atomic.AddInt64(&r.stamp, 1) }

// begin/end bracket one recorded call: read lock (the clock cannot move), phase time, call stamp.
func (r *cRun) begin() (now int64, ph int, c int64) {
	r.gate.RLock()
	now = r.clk.now().UnixNano()
	ph = int(atomic.LoadInt64(&r.phase))
	n := atomic.AddInt64(&r.inflight, 1)
	for {
		m := atomic.LoadInt64(&r.maxConc)
		if n <= m || atomic.CompareAndSwapInt64(&r.maxConc, m, n) {
			break
		}
	}
	c = r.tick()
	return
}

func (r *cRun) end(call cCall) {
	call.R = r.tick()
	atomic.AddInt64(&r.inflight, -1)
	r.gate.RUnlock()
	r.mu.Lock()
	r.calls = append(r.calls, call)
	r.mu.Unlock()
}

func toItems(envs []queue.Envelope) []cItem {
	out := make([]cItem, 0, len(envs))
	for _, e := range envs {
		it := cItem{ID: e.ID, Lease: e.LeaseID, Attempt: e.Attempt}
		if !e.LeaseUntil.IsZero() {
			it.Until = e.LeaseUntil.UnixNano()
		}
		out = append(out, it)
	}
	return out
}

func leaseErr(err error) (bool, string) {
	if err == nil {
		return true, ""
	}
	return false, errKind(err)
}

// ---------------------------------------------------------------------------
// recording Store: what the dispatcher and the direct workers call

type recStore struct {
	qStore
	r   *cRun
	src string
	g   int
}

func (s *recStore) Dequeue(req queue.DequeueRequest) (queue.DequeueResponse, error) {
	now, ph, c := s.r.begin()
	if s.src == "push" {
		s.r.pushHolding(false) // the worker is back at its dequeue: the previous micro-batch is settled
	}
	resp, err := s.qStore.Dequeue(req)
	if s.src == "push" && len(resp.Items) > 0 {
		s.r.pushHolding(true)
	}
	call := cCall{C: c, Now: now, Phase: ph, Kind: "deq", Src: s.src, G: s.g, TTL: int64(req.LeaseTTL), Batch: req.Batch, OK: err == nil, Items: toItems(resp.Items)}
	if err != nil {
		call.Kind = "other"
		call.Sub = "deq-error"
		call.Err = errKind(err)
	}
	if s.src == "push" && len(call.Items) > 0 {
		// the micro-batch this dispatcher worker (goroutine) now holds: its Deliver calls are attributed to these leases
		batch := make(map[string]cItem, len(call.Items))
		for _, it := range call.Items {
			batch[it.ID] = it
		}
		s.r.pushLease.Store(gid(), batch)
	}
	s.r.end(call)
	return resp, err
}

func (s *recStore) single(kind string, lease string, by int64, f func() error) error {
	now, ph, c := s.r.begin()
	err := f()
	ok, es := leaseErr(err)
	s.r.end(cCall{C: c, Now: now, Phase: ph, Kind: kind, Src: s.src, G: s.g, Leases: []string{strings.TrimSpace(lease)}, By: by, OK: ok, Err: es})
	return err
}

func (s *recStore) Ack(l string) error { return s.single("ack", l, 0, func() error { return s.qStore.Ack(l) }) }
func (s *recStore) Nack(l string, d time.Duration) error {
	return s.single("nack", l, int64(d), func() error { return s.qStore.Nack(l, d) })
}
func (s *recStore) MarkDead(l string, reason string) error {
	return s.single("dead", l, 0, func() error { return s.qStore.MarkDead(l, reason) })
}
func (s *recStore) Extend(l string, by time.Duration) error {
	return s.single("extend", l, int64(by), func() error { return s.qStore.Extend(l, by) })
}

func (s *recStore) batch(sub string, leases []string, f func() (queue.LeaseBatchResult, error)) (queue.LeaseBatchResult, error) {
	now, ph, c := s.r.begin()
	res, err := f()
	ls := make([]string, 0, len(leases))
	for _, l := range leases {
		ls = append(ls, strings.TrimSpace(l))
	}
	call := cCall{C: c, Now: now, Phase: ph, Kind: "batch", Sub: sub, Src: s.src, G: s.g, Leases: ls, OK: err == nil, Count: res.Succeeded}
	if err != nil {
		call.Err = errKind(err)
	}
	s.r.end(call)
	return res, err
}

func (s *recStore) AckBatch(ls []string) (queue.LeaseBatchResult, error) {
	return s.batch("ack", ls, func() (queue.LeaseBatchResult, error) { return s.qStore.AckBatch(ls) })
}
func (s *recStore) NackBatch(ls []string, d time.Duration) (queue.LeaseBatchResult, error) {
	return s.batch("nack", ls, func() (queue.LeaseBatchResult, error) { return s.qStore.NackBatch(ls, d) })
}
func (s *recStore) MarkDeadBatch(ls []string, reason string) (queue.LeaseBatchResult, error) {
	return s.batch("dead", ls, func() (queue.LeaseBatchResult, error) { return s.qStore.MarkDeadBatch(ls, reason) })
}

func (s *recStore) CancelMessages(req queue.MessageCancelRequest) (queue.MessageCancelResponse, error) {
	now, ph, c := s.r.begin()
	res, err := s.qStore.CancelMessages(req)
	s.r.end(cCall{C: c, Now: now, Phase: ph, Kind: "cancel", Src: s.src, G: s.g, IDs: req.IDs, OK: err == nil && res.Canceled > 0, Count: res.Canceled})
	return res, err
}

func (s *recStore) RequeueMessages(req queue.MessageRequeueRequest) (queue.MessageRequeueResponse, error) {
	now, ph, c := s.r.begin()
	res, err := s.qStore.RequeueMessages(req)
	s.r.end(cCall{C: c, Now: now, Phase: ph, Kind: "requeue", Src: s.src, G: s.g, IDs: req.IDs, OK: err == nil, Count: res.Requeued})
	return res, err
}

func (s *recStore) ResumeMessages(req queue.MessageResumeRequest) (queue.MessageResumeResponse, error) {
	now, ph, c := s.r.begin()
	res, err := s.qStore.ResumeMessages(req)
	s.r.end(cCall{C: c, Now: now, Phase: ph, Kind: "requeue", Sub: "resume", Src: s.src, G: s.g, IDs: req.IDs, OK: err == nil, Count: res.Resumed})
	return res, err
}

func (s *recStore) Enqueue(env queue.Envelope) error {
	now, ph, c := s.r.begin()
	err := s.qStore.Enqueue(env)
	call := cCall{C: c, Now: now, Phase: ph, Kind: "enqueue", Src: s.src, G: s.g, IDs: []string{env.ID}, OK: err == nil}
	if err != nil {
		call.Err = errKind(err)
	}
	s.r.end(call)
	return err
}

func (s *recStore) RecordAttempt(a queue.DeliveryAttempt) error {
	now, ph, c := s.r.begin()
	err := s.qStore.RecordAttempt(a)
	s.r.end(cCall{C: c, Now: now, Phase: ph, Kind: "other", Sub: "record_attempt", Src: s.src, G: s.g, OK: err == nil})
	return err
}

func (s *recStore) Stats() (queue.Stats, error) {
	now, ph, c := s.r.begin()
	st, err := s.qStore.Stats()
	s.r.end(cCall{C: c, Now: now, Phase: ph, Kind: "other", Sub: "stats", Src: s.src, G: s.g, OK: err == nil})
	return st, err
}

// mutators nobody in this stress is supposed to call: make an unrecorded state change impossible
func (s *recStore) CancelMessagesByFilter(queue.MessageManageFilterRequest) (queue.MessageCancelResponse, error) {
	panic("conc: unrecorded CancelMessagesByFilter")
}
func (s *recStore) RequeueMessagesByFilter(queue.MessageManageFilterRequest) (queue.MessageRequeueResponse, error) {
	panic("conc: unrecorded RequeueMessagesByFilter")
}
func (s *recStore) ResumeMessagesByFilter(queue.MessageManageFilterRequest) (queue.MessageResumeResponse, error) {
	panic("conc: unrecorded ResumeMessagesByFilter")
}
func (s *recStore) RequeueDead(queue.DeadRequeueRequest) (queue.DeadRequeueResponse, error) {
	panic("conc: unrecorded RequeueDead")
}
func (s *recStore) DeleteDead(queue.DeadDeleteRequest) (queue.DeadDeleteResponse, error) {
	panic("conc: unrecorded DeleteDead")
}
func (s *recStore) EnqueueBatch([]queue.Envelope) (int, error) { panic("conc: unrecorded EnqueueBatch") }

// ---------------------------------------------------------------------------
// the scripted Deliverer of the dispatcher

type stubDeliverer struct {
	r     *cRun
	count sync.Map // message id -> *int64 deliveries so far
}

func hash32(s string, salt int64) uint32 {
	h := uint32(2166136261)
	for i := 0; i < len(s); i++ {
		h = (h ^ uint32(s[i])) * 16777619
	}
	for i := 0; i < 8; i++ {
		h = (h ^ uint32(byte(salt>>(8*uint(i))))) * 16777619
	}
	return h
}

func (d *stubDeliverer) Deliver(ctx context.Context, dl dispatcher.Delivery) dispatcher.Result {
	r := d.r
	c := r.tick()
	nowC := r.clk.now().UnixNano()
	var it cItem
	if v, ok := r.pushLease.Load(gid()); ok {
		it = v.(map[string]cItem)[dl.ID]
	}
	cp, _ := d.count.LoadOrStore(dl.ID, new(int64))
	n := atomic.AddInt64(cp.(*int64), 1)
	h := int(hash32(dl.ID, r.cfg.Seed*131+n) % 100)
	slow := int(hash32(dl.ID, r.cfg.Seed*977+n)%100) < r.cfg.SlowPct
	outcome := "ok"
	res := dispatcher.Result{StatusCode: 200}
	switch {
	case h < r.cfg.FailPct:
		outcome, res = "retry", dispatcher.Result{StatusCode: 503}
	case h < r.cfg.FailPct+r.cfg.DeadPct:
		outcome, res = "dead", dispatcher.Result{StatusCode: 400}
	}
	if slow {
		// the delivery takes the whole target timeout, measured by the injected clock
		w := &slowWait{deadline: nowC + r.cfg.PushTimeNs}
		r.phaseMu.Lock()
		if !r.closing && r.clk.now().UnixNano() < w.deadline {
			r.waiters[w] = struct{}{}
			for !w.released {
				r.phaseCond.Wait()
			}
		}
		r.phaseMu.Unlock()
	}
	nowR := r.clk.now().UnixNano()
	rt := r.tick()
	r.mu.Lock()
	r.delivers = append(r.delivers, cDeliver{C: c, R: rt, ID: dl.ID, Lease: it.Lease, Until: it.Until, NowC: nowC, NowR: nowR, Outcome: outcome, Slow: slow})
	r.mu.Unlock()
	return res
}

// ---------------------------------------------------------------------------
// one worker goroutine of one phase

type worker struct {
	r    *cRun
	g    int
	rng  *rand.Rand
	st   *recStore
	pull *pullapi.Server
	grpc *workerapi.Server
	mine []held
}

func (w *worker) entry() string {
	e := w.r.cfg.Entry
	tot := e[0] + e[1] + e[2]
	x := w.rng.Intn(tot)
	if x < e[0] {
		return "store"
	}
	if x < e[0]+e[1] {
		return "http"
	}
	return "grpc"
}

func (w *worker) remember(items []cItem) {
	for _, it := range items {
		h := held{lease: it.Lease, id: it.ID}
		w.mine = append(w.mine, h)
		i := atomic.AddInt64(&w.r.nKnown, 1) - 1
		w.r.known.Store(i, h)
		w.r.hot.Store(h)
	}
}

func (w *worker) pick() (held, bool) {
	if w.rng.Intn(100) < w.r.cfg.HotPct {
		// the same fresh lease is settled / extended by several workers at the same moment
		if v := w.r.hot.Load(); v != nil {
			return v.(held), true
		}
	}
	if len(w.mine) > 0 && w.rng.Intn(100) < 75 {
		i := w.rng.Intn(len(w.mine))
		h := w.mine[i]
		w.mine = append(w.mine[:i], w.mine[i+1:]...)
		return h, true
	}
	n := atomic.LoadInt64(&w.r.nKnown)
	if n == 0 {
		return held{}, false
	}
	// prefer recent leases of anybody
	lo := n - 40
	if lo < 0 || w.rng.Intn(100) < 15 {
		lo = 0
	}
	v, ok := w.r.known.Load(lo + w.rng.Int63n(n-lo))
	if !ok {
		return held{}, false
	}
	return v.(held), true
}

func (w *worker) someMsg() string {
	n := atomic.LoadInt64(&w.r.nMsgIDs)
	if n == 0 {
		return "m000000"
	}
	v, ok := w.r.msgIDs.Load(w.rng.Int63n(n))
	if !ok {
		return "m000000"
	}
	return v.(string)
}

func (w *worker) httpDo(op string, body map[string]any) (int, []byte) {
	b, _ := json.Marshal(body)
	req := httptest.NewRequest(http.MethodPost, "/pull/"+op, bytes.NewReader(b))
	rec := httptest.NewRecorder()
	w.pull.ServeHTTP(rec, req)
	return rec.Code, rec.Body.Bytes()
}

func (w *worker) dequeue() {
	r := w.r
	ttlPh := r.cfg.TTLPhases[w.rng.Intn(len(r.cfg.TTLPhases))]
	ttl := int64(ttlPh) * r.cfg.StepNs
	batch := 1 + w.rng.Intn(3)
	switch w.entry() {
	case "store":
		req := queue.DequeueRequest{Batch: batch, LeaseTTL: time.Duration(ttl)}
		switch w.rng.Intn(4) {
		case 0:
			req.Route, req.Target = "/pull", "pull"
		case 1:
			req.Route = "/push"
		}
		resp, err := w.st.Dequeue(req)
		if err == nil {
			w.remember(toItems(resp.Items))
		}
	case "http":
		now, ph, c := r.begin()
		code, body := w.httpDo("dequeue", map[string]any{"batch": batch, "lease_ttl": durStr(ttl)})
		call := cCall{C: c, Now: now, Phase: ph, Kind: "deq", Src: "http", G: w.g, TTL: ttl, Batch: batch, OK: code == 200}
		if code == 200 {
			var out struct {
				Items []struct {
					ID      string    `json:"id"`
					LeaseID string    `json:"lease_id"`
					Attempt int       `json:"attempt"`
					Next    time.Time `json:"next_run_at"`
				} `json:"items"`
			}
			if err := json.Unmarshal(body, &out); err != nil {
				call.Kind, call.Sub, call.Err = "other", "deq-error", "decode: "+err.Error()
			}
			for _, it := range out.Items {
				call.Items = append(call.Items, cItem{ID: it.ID, Lease: it.LeaseID, Attempt: it.Attempt, Until: now + ttl, Next: it.Next.UnixNano()})
			}
		} else {
			call.Kind, call.Sub, call.Err = "other", "deq-error", fmt.Sprintf("http %d", code)
		}
		r.end(call)
		w.remember(call.Items)
	case "grpc":
		now, ph, c := r.begin()
		resp, err := w.grpc.Dequeue(context.Background(), &workerapipb.DequeueRequest{Endpoint: "/pull", Batch: uint32(batch), LeaseTtl: durationpb.New(time.Duration(ttl))})
		call := cCall{C: c, Now: now, Phase: ph, Kind: "deq", Src: "grpc", G: w.g, TTL: ttl, Batch: batch, OK: err == nil}
		if err != nil {
			call.Kind, call.Sub, call.Err = "other", "deq-error", err.Error()
		} else {
			for _, it := range resp.GetItems() {
				call.Items = append(call.Items, cItem{ID: it.GetId(), Lease: it.GetLeaseId(), Attempt: int(it.GetAttempt()), Until: now + ttl, Next: it.GetNextRunAt().AsTime().UnixNano()})
			}
		}
		r.end(call)
		w.remember(call.Items)
	}
}

// settle one lease: ack / nack / dead / extend through a random entry point
func (w *worker) leaseOp(kind string, h held) {
	r := w.r
	delay := int64(0)
	if kind == "nack" && w.rng.Intn(3) == 0 {
		delay = r.cfg.StepNs / 2 * int64(1+w.rng.Intn(3))
	}
	by := int64(0)
	if kind == "extend" {
		by = r.cfg.StepNs * int64(1+w.rng.Intn(2))
	}
	lease := h.lease
	if w.rng.Intn(25) == 0 {
		lease = " " + lease + "\t" // padded: every entry point trims
	}
	switch w.entry() {
	case "store":
		var err error
		switch kind {
		case "ack":
			err = w.st.Ack(lease)
		case "nack":
			err = w.st.Nack(lease, time.Duration(delay))
		case "dead":
			err = w.st.MarkDead(lease, "conc")
		case "extend":
			err = w.st.Extend(lease, time.Duration(by))
		}
		if kind == "extend" && err == nil {
			w.mine = append(w.mine, h)
		}
	case "http":
		now, ph, c := r.begin()
		var code int
		switch kind {
		case "ack":
			code, _ = w.httpDo("ack", map[string]any{"lease_id": lease})
		case "nack":
			code, _ = w.httpDo("nack", map[string]any{"lease_id": lease, "delay": durStr(delay)})
		case "dead":
			code, _ = w.httpDo("nack", map[string]any{"lease_id": lease, "dead": true, "reason": "conc"})
		case "extend":
			code, _ = w.httpDo("extend", map[string]any{"lease_id": lease, "extend_by": durStr(by)})
		}
		call := cCall{C: c, Now: now, Phase: ph, Kind: kind, Src: "http", G: w.g, Leases: []string{strings.TrimSpace(lease)}, By: by, OK: code == 204}
		if code != 204 {
			call.Err = fmt.Sprintf("http %d", code)
		}
		if kind == "nack" {
			call.By = delay
		}
		r.end(call)
		if kind == "extend" && code == 204 {
			w.mine = append(w.mine, h)
		}
	case "grpc":
		now, ph, c := r.begin()
		var err error
		ctx := context.Background()
		switch kind {
		case "ack":
			_, err = w.grpc.Ack(ctx, &workerapipb.AckRequest{Endpoint: "/pull", LeaseId: lease})
		case "nack":
			_, err = w.grpc.Nack(ctx, &workerapipb.NackRequest{Endpoint: "/pull", LeaseId: lease, Delay: durationpb.New(time.Duration(delay))})
		case "dead":
			_, err = w.grpc.Nack(ctx, &workerapipb.NackRequest{Endpoint: "/pull", LeaseId: lease, Dead: true, Reason: "conc"})
		case "extend":
			_, err = w.grpc.Extend(ctx, &workerapipb.ExtendRequest{Endpoint: "/pull", LeaseId: lease, ExtendBy: durationpb.New(time.Duration(by))})
		}
		call := cCall{C: c, Now: now, Phase: ph, Kind: kind, Src: "grpc", G: w.g, Leases: []string{strings.TrimSpace(lease)}, By: by, OK: err == nil}
		if err != nil {
			call.Err = err.Error()
		}
		if kind == "nack" {
			call.By = delay
		}
		r.end(call)
		if kind == "extend" && err == nil {
			w.mine = append(w.mine, h)
		}
	}
}

func (w *worker) batchOp() {
	r := w.r
	var ls []string
	for i := 0; i < 2+w.rng.Intn(3); i++ {
		if h, ok := w.pick(); ok {
			ls = append(ls, h.lease)
		}
	}
	if len(ls) == 0 {
		return
	}
	sub := []string{"ack", "nack", "dead"}[w.rng.Intn(3)]
	switch w.entry() {
	case "store":
		switch sub {
		case "ack":
			_, _ = w.st.AckBatch(ls)
		case "nack":
			_, _ = w.st.NackBatch(ls, 0)
		case "dead":
			_, _ = w.st.MarkDeadBatch(ls, "conc")
		}
	case "http":
		now, ph, c := r.begin()
		var code int
		switch sub {
		case "ack":
			code, _ = w.httpDo("ack", map[string]any{"lease_ids": ls})
		case "nack":
			code, _ = w.httpDo("nack", map[string]any{"lease_ids": ls, "delay": "0s"})
		case "dead":
			code, _ = w.httpDo("nack", map[string]any{"lease_ids": ls, "dead": true, "reason": "conc"})
		}
		r.end(cCall{C: c, Now: now, Phase: ph, Kind: "batch", Sub: sub, Src: "http", G: w.g, Leases: ls, OK: code == 200 || code == 409, Err: fmt.Sprintf("http %d", code)})
	case "grpc":
		now, ph, c := r.begin()
		var err error
		ctx := context.Background()
		switch sub {
		case "ack":
			_, err = w.grpc.Ack(ctx, &workerapipb.AckRequest{Endpoint: "/pull", LeaseIds: ls})
		case "nack":
			_, err = w.grpc.Nack(ctx, &workerapipb.NackRequest{Endpoint: "/pull", LeaseIds: ls})
		case "dead":
			_, err = w.grpc.Nack(ctx, &workerapipb.NackRequest{Endpoint: "/pull", LeaseIds: ls, Dead: true, Reason: "conc"})
		}
		call := cCall{C: c, Now: now, Phase: ph, Kind: "batch", Sub: sub, Src: "grpc", G: w.g, Leases: ls, OK: err == nil}
		if err != nil {
			call.Err = err.Error()
		}
		r.end(call)
	}
}

func (w *worker) enqueue() {
	r := w.r
	n := atomic.AddInt64(&r.nextMsg, 1)
	id := fmt.Sprintf("m%06d", n)
	env := queue.Envelope{ID: id, Route: "/pull", Target: "pull", Payload: []byte(id)}
	if r.cfg.PushConc > 0 && w.rng.Intn(3) == 0 {
		env.Route, env.Target = "/push", "http://t1.invalid/hook"
	}
	if err := w.st.Enqueue(env); err == nil {
		i := atomic.AddInt64(&r.nMsgIDs, 1) - 1
		r.msgIDs.Store(i, id)
	}
}

func (w *worker) run(ops int) {
	for i := 0; i < ops; i++ {
		if w.rng.Intn(4) == 0 {
			runtime.Gosched()
		}
		x := w.rng.Intn(100)
		switch {
		case x < 34:
			w.dequeue()
			// most leases are settled at once, some are kept for later phases (expiry, extend, stale settle)
			for len(w.mine) > 0 && w.rng.Intn(100) >= w.r.cfg.HoldPct {
				h := w.mine[len(w.mine)-1]
				w.mine = w.mine[:len(w.mine)-1]
				w.leaseOp([]string{"ack", "nack", "nack", "nack", "dead", "extend"}[w.rng.Intn(6)], h)
			}
		case x < 70:
			if h, ok := w.pick(); ok {
				w.leaseOp([]string{"ack", "nack", "nack", "nack", "dead", "extend", "extend"}[w.rng.Intn(7)], h)
			} else {
				w.dequeue()
			}
		case x < 76:
			w.batchOp()
		case x < 84:
			_, _ = w.st.CancelMessages(queue.MessageCancelRequest{IDs: []string{w.someMsg()}})
		case x < 93:
			ids := []string{w.someMsg()}
			if w.rng.Intn(3) == 0 {
				ids = append(ids, w.someMsg())
			}
			if w.rng.Intn(4) == 0 {
				_, _ = w.st.ResumeMessages(queue.MessageResumeRequest{IDs: ids})
			} else {
				_, _ = w.st.RequeueMessages(queue.MessageRequeueRequest{IDs: ids})
			}
		case x < 98:
			w.enqueue()
		default:
			_, _ = w.st.Stats()
		}
	}
}

// ---------------------------------------------------------------------------

func concOne(dir string, idx int, cfg cRunCfg) (out cRunOut) {
	out.Backend = cfg.Backend
	t0 := time.Now()
	defer func() {
		if rec := recover(); rec != nil {
			out.Fatal = fmt.Sprintf("panic: %v", rec)
		}
		out.WallMs = time.Since(t0).Milliseconds()
	}()
	if cfg.StepNs <= 0 {
		cfg.StepNs = int64(10 * time.Second)
	}
	if len(cfg.TTLPhases) == 0 {
		cfg.TTLPhases = []int{1, 2, 3}
	}
	if len(cfg.Entry) != 3 || cfg.Entry[0]+cfg.Entry[1]+cfg.Entry[2] <= 0 {
		cfg.Entry = []int{2, 1, 1}
	}
	clk := &clock{}
	base := int64(1_000_000_000_000)
	clk.set(base)
	dbPath := filepath.Join(dir, fmt.Sprintf("conc-%d.db", idx))
	st, closeFn, snap, err := openStore(cfg.Backend, qCfg{DelivAge: cfg.DelivAge}, clk, dbPath)
	if err != nil {
		out.Fatal = err.Error()
		return
	}
	defer func() {
		closeFn()
		for _, suf := range []string{"", "-wal", "-shm"} {
			_ = os.Remove(dbPath + suf)
		}
	}()
	r := &cRun{cfg: cfg, st: st, clk: clk, waiters: map[*slowWait]struct{}{}}
	r.phaseCond = sync.NewCond(&r.phaseMu)
	setup := &recStore{qStore: st, r: r, src: "store", g: -1}
	total := cfg.PullMsgs + cfg.PushMsgs
	for i := 0; i < total; i++ {
		n := atomic.AddInt64(&r.nextMsg, 1)
		id := fmt.Sprintf("m%06d", n)
		env := queue.Envelope{ID: id, Route: "/pull", Target: "pull", Payload: []byte(id)}
		if i >= cfg.PullMsgs {
			env.Route, env.Target = "/push", "http://t1.invalid/hook"
		}
		if err := setup.Enqueue(env); err != nil {
			out.Fatal = "setup enqueue: " + err.Error()
			return
		}
		j := atomic.AddInt64(&r.nMsgIDs, 1) - 1
		r.msgIDs.Store(j, id)
	}

	// entry points over the one store.  The pull handler and the worker service get the bare store:
	// their calls are recorded at the client side (what the consumer received).
	pull := pullapi.NewServer(st)
	pull.ResolveRoute = func(endpoint string) (string, bool) {
		if endpoint == "/pull" {
			return "/pull", true
		}
		return "", false
	}
	grpcSrv := workerapi.NewServer(pull)

	var disp *dispatcher.PushDispatcher
	if cfg.PushConc > 0 {
		disp = &dispatcher.PushDispatcher{
			Store:     &recStore{qStore: st, r: r, src: "push", g: -2},
			Deliverer: &stubDeliverer{r: r},
			Routes: []dispatcher.RouteConfig{{Route: "/push", Concurrency: cfg.PushConc,
				Targets: []dispatcher.TargetConfig{{URL: "http://t1.invalid/hook", Timeout: time.Duration(cfg.PushTimeNs),
					Retry: dispatcher.RetryConfig{Type: "exponential", Max: 3, Base: time.Duration(cfg.StepNs / 2), Cap: time.Duration(cfg.StepNs)}}}}},
			Logger:     slog.New(slog.NewTextHandler(io.Discard, nil)),
			MaxWait:    6 * time.Millisecond,
			LeaseSlack: time.Duration(cfg.PushSlack),
		}
		disp.Start()
	}

	master := rand.New(rand.NewSource(cfg.Seed))
	workers := make([]*worker, cfg.Goroutines)
	for g := range workers {
		workers[g] = &worker{r: r, g: g, rng: rand.New(rand.NewSource(master.Int63())),
			st: &recStore{qStore: st, r: r, src: "store", g: g}, pull: pull, grpc: grpcSrv}
	}
	for p := 0; p < cfg.Phases; p++ {
		var wg sync.WaitGroup
		start := make(chan struct{})
		for _, w := range workers {
			wg.Add(1)
			go func(w *worker) {
				defer wg.Done()
				<-start
				w.run(cfg.OpsPerG)
			}(w)
		}
		close(start)
		wg.Wait()
		// The clock moves while no call is in flight and the dispatcher is at rest: each of its workers is
		// either polling (holds nothing) or waiting inside a delivery for the injected clock.  So no injected
		// time passes while the dispatcher is between two steps of a micro-batch (store latency is excluded from
		// the lease-TTL budget, as in the design).
		for tries := 0; ; tries++ {
			r.gate.Lock()
			r.phaseMu.Lock()
			rest := atomic.LoadInt64(&r.holding) == int64(len(r.waiters))
			if rest || tries > 20000 {
				if !rest {
					atomic.AddInt64(&r.unquiet, 1)
				}
				newNow := base + int64(p+1)*cfg.StepNs
				clk.set(newNow)
				atomic.AddInt64(&r.phase, 1)
				for w := range r.waiters {
					if w.deadline <= newNow {
						w.released = true
						delete(r.waiters, w)
					}
				}
				r.phaseCond.Broadcast()
				r.phaseMu.Unlock()
				r.gate.Unlock()
				break
			}
			r.phaseMu.Unlock()
			r.gate.Unlock()
			if tries%8 == 7 {
				time.Sleep(20 * time.Microsecond)
			} else {
				runtime.Gosched()
			}
		}
		if disp != nil {
			// let the dispatcher work in the new phase before the workers start again
			time.Sleep(200 * time.Microsecond)
		}
	}
	if disp != nil {
		r.phaseMu.Lock()
		r.closing = true
		for w := range r.waiters {
			w.released = true
			delete(r.waiters, w)
		}
		r.phaseCond.Broadcast()
		r.phaseMu.Unlock()
		disp.Drain(5 * time.Second)
	}
	r.mu.Lock()
	out.Calls = r.calls
	out.Delivers = r.delivers
	r.mu.Unlock()
	out.MaxConc = atomic.LoadInt64(&r.maxConc)
	out.Unquiet = atomic.LoadInt64(&r.unquiet)
	if rows, _, err := snap(); err == nil {
		out.Final = rows
	}
	return
}

func concRun(in []byte) (any, error) {
	var req cIn
	if err := json.Unmarshal(in, &req); err != nil {
		return nil, err
	}
	if req.Dir == "" {
		req.Dir = os.TempDir()
	}
	if err := os.MkdirAll(req.Dir, 0o755); err != nil {
		return nil, err
	}
	par := req.Par
	if par <= 0 {
		par = 4
	}
	outs := make([]cRunOut, len(req.Runs))
	sem := make(chan struct{}, par)
	var wg sync.WaitGroup
	for i := range req.Runs {
		wg.Add(1)
		sem <- struct{}{}
		go func(i int) {
			defer wg.Done()
			defer func() { <-sem }()
			outs[i] = concOne(req.Dir, i, req.Runs[i])
		}(i)
	}
	wg.Wait()
	return map[string]any{"runs": outs}, nil
}
