//go:build verif

package main

// dispatch-stop: the store calls the REAL PushDispatcher.runRoute makes for the messages it leased - per micro-batch, with and without
// the batched lease operations, with unknown targets, and with Drain arriving while a delivery is in flight.  A recording store notes
// every Dequeue answer and every lease mutation in the order the store saw them; the deliverer answers from a per-message script and can
// trigger Drain during its k-th call.  The driver checks the property on the record (every message that was SENT gets exactly one
// settlement of the classified kind, a message that was leased but not sent is handed back) and compares the record of every
// micro-batch with the op program of the Coq model (Model/PushLoop.v).

import (
	"context"
	"fmt"
	"os"
	"encoding/json"
	"io"
	"log/slog"
	"sync"
	"time"

	"github.com/nuetzliches/hookaido/internal/dispatcher"
	"github.com/nuetzliches/hookaido/internal/queue"
)

func init() { register("dispatch-stop", dispatchStop) }

type dlMsg struct {
	ID     string `json:"id"`
	Target int    `json:"target"` // index into the route's targets; -1 = a URL the route does not configure
	Pre    int    `json:"pre"`    // attempts already made (dequeue+nack rounds before the dispatcher starts)
	Kind   string `json:"kind"`   // status net timeout policy policy_wrapped other
	Code   int    `json:"code"`
	Detour string `json:"detour"` // "" | dead-requeue | cancel-resume | cancel-requeue: the message left the active set and was brought back by the operator before the dispatcher starts
}

type dlCase struct {
	Concurrency int     `json:"concurrency"`
	Targets     int     `json:"targets"`
	BatchStore  bool    `json:"batch_store"`
	Backend     string  `json:"backend"`
	RetryMax    int     `json:"retry_max"`
	BaseNs      int64   `json:"base_ns"`
	CapNs       int64   `json:"cap_ns"`
	StopAt      int     `json:"stop_at"` // Drain is called during the StopAt-th Deliver call (0-based); -1 = after everything settled
	Warmup      int     `json:"warmup"`  // messages enqueued, leased and acked through the store while the detoured messages are out of the active set
	Messages    []dlMsg `json:"messages"`
}

type dlCall struct {
	Op     string   `json:"op"` // dequeue ack nack dead ack_batch nack_batch dead_batch
	Leases []string `json:"leases,omitempty"`
	Delay  int64    `json:"delay_ns,omitempty"`
	Reason string   `json:"reason,omitempty"`
	Err    string   `json:"err,omitempty"`
	Items  []dlItem `json:"items,omitempty"` // dequeue answer
}

type dlItem struct {
	ID      string `json:"id"`
	Lease   string `json:"lease"`
	Attempt int    `json:"attempt"`
	Target  string `json:"target"`
}

type dlAttempt struct {
	Event   string `json:"event"`
	Attempt int    `json:"attempt"`
	Status  int    `json:"status"`
	Outcome string `json:"outcome"`
	Reason  string `json:"reason,omitempty"`
	HasErr  bool   `json:"has_err"`
}

type dlRec struct {
	inner    queue.Store
	mu       sync.Mutex
	calls    []dlCall
	attempts []dlAttempt
}

func (r *dlRec) note(c dlCall, err error) {
	if err != nil {
		c.Err = err.Error()
	}
	r.mu.Lock()
	r.calls = append(r.calls, c)
	r.mu.Unlock()
}

// plain store: no batched lease operations visible to the dispatcher
type dlPlain struct {
	queue.Store
	rec *dlRec
}

func (s *dlPlain) Dequeue(req queue.DequeueRequest) (queue.DequeueResponse, error) {
	resp, err := s.Store.Dequeue(req)
	if err == nil && len(resp.Items) > 0 {
		c := dlCall{Op: "dequeue"}
		for _, it := range resp.Items {
			c.Items = append(c.Items, dlItem{ID: it.ID, Lease: it.LeaseID, Attempt: it.Attempt, Target: it.Target})
		}
		s.rec.note(c, nil)
	}
	return resp, err
}
func (s *dlPlain) RecordAttempt(a queue.DeliveryAttempt) error {
	err := s.Store.RecordAttempt(a)
	s.rec.mu.Lock()
	s.rec.attempts = append(s.rec.attempts, dlAttempt{Event: a.EventID, Attempt: a.Attempt, Status: a.StatusCode, Outcome: string(a.Outcome),
		Reason: a.DeadReason, HasErr: a.Error != ""})
	s.rec.mu.Unlock()
	return err
}
func (s *dlPlain) Ack(l string) error {
	err := s.Store.Ack(l)
	s.rec.note(dlCall{Op: "ack", Leases: []string{l}}, err)
	return err
}
func (s *dlPlain) Nack(l string, d time.Duration) error {
	err := s.Store.Nack(l, d)
	s.rec.note(dlCall{Op: "nack", Leases: []string{l}, Delay: int64(d)}, err)
	return err
}
func (s *dlPlain) MarkDead(l string, reason string) error {
	err := s.Store.MarkDead(l, reason)
	s.rec.note(dlCall{Op: "dead", Leases: []string{l}, Reason: reason}, err)
	return err
}

// store with the batched lease operations
type dlBatch struct {
	*dlPlain
	b queue.LeaseBatchStore
}

func (s *dlBatch) AckBatch(ls []string) (queue.LeaseBatchResult, error) {
	res, err := s.b.AckBatch(ls)
	s.rec.note(dlCall{Op: "ack_batch", Leases: append([]string(nil), ls...)}, err)
	return res, err
}
func (s *dlBatch) NackBatch(ls []string, d time.Duration) (queue.LeaseBatchResult, error) {
	res, err := s.b.NackBatch(ls, d)
	s.rec.note(dlCall{Op: "nack_batch", Leases: append([]string(nil), ls...), Delay: int64(d)}, err)
	return res, err
}
func (s *dlBatch) MarkDeadBatch(ls []string, reason string) (queue.LeaseBatchResult, error) {
	res, err := s.b.MarkDeadBatch(ls, reason)
	s.rec.note(dlCall{Op: "dead_batch", Leases: append([]string(nil), ls...), Reason: reason}, err)
	return res, err
}

type dlSend struct {
	ID    string `json:"id"`
	Seq   int    `json:"seq"`
	Lease string `json:"lease"` // the lease under which the message was held when it was sent (its latest Dequeue answer)
}

type dlDeliverer struct {
	mu      sync.Mutex
	script  map[string]dlMsg
	sends   []dlSend
	stopAt  int
	rec     *dlRec
	drain   func()
	stopped bool
}

func (d *dlDeliverer) Deliver(ctx context.Context, dl dispatcher.Delivery) dispatcher.Result {
	lease := ""
	d.rec.mu.Lock()
	for i := len(d.rec.calls) - 1; i >= 0 && lease == ""; i-- {
		for _, it := range d.rec.calls[i].Items {
			if it.ID == dl.ID {
				lease = it.Lease
			}
		}
	}
	d.rec.mu.Unlock()
	d.mu.Lock()
	seq := len(d.sends)
	d.sends = append(d.sends, dlSend{ID: dl.ID, Seq: seq, Lease: lease})
	m := d.script[dl.ID]
	trigger := seq == d.stopAt && !d.stopped
	if trigger {
		d.stopped = true
	}
	d.mu.Unlock()
	if trigger {
		go d.drain()
		time.Sleep(60 * time.Millisecond) // Drain closes the stop channel while this delivery is in flight
	}
	return c06MkResult(dlKinds[m.Kind], m.Code)
}

var dlKinds = map[string]int{"status": 0, "net": 1, "timeout": 2, "policy": 3, "policy_wrapped": 4, "other": 5, "policy_url": 6}

type dlFinal struct {
	ID      string `json:"id"`
	State   string `json:"state"`
	Attempt int    `json:"attempt"`
	Reason  string `json:"reason"`
	NextNs  int64  `json:"next_run_ns"`
}

type dlOut struct {
	Calls   []dlCall  `json:"calls"`
	Attempts []dlAttempt `json:"attempts"` // what the dispatcher handed to RecordAttempt, in order
	Sends   []dlSend  `json:"sends"`
	Final   []dlFinal `json:"final"`
	Drained bool      `json:"drained"`
	Batch   int       `json:"dequeue_batch"`
	MutB    int       `json:"mutation_batch"`
	Err     string    `json:"err,omitempty"`
}

func dispatchStop(in []byte) (any, error) {
	var req struct {
		Dir   string   `json:"dir"`
		Cases []dlCase `json:"cases"`
	}
	if err := json.Unmarshal(in, &req); err != nil {
		return nil, err
	}
	outs := make([]dlOut, len(req.Cases))
	for i, c := range req.Cases {
		outs[i] = dlRunCase(req.Dir, i, c)
	}
	return map[string]any{"cases": outs}, nil
}

func dlRunCase(dir string, idx int, c dlCase) (out dlOut) {
	clk := &c06Clock{t: time.Unix(0, 1790000000000000000).UTC()}
	// with warm-up traffic: no delivered retention, so that acked messages really leave the store (the memory store compacts its order log then)
	base, closer, err := c06OpenStore(c.Backend, dir, fmt.Sprintf("dl-%d-%d", os.Getpid(), idx), clk, c.Warmup == 0)
	if err != nil {
		out.Err = err.Error()
		return
	}
	defer closer()
	var targets []dispatcher.TargetConfig
	for j := 0; j < c.Targets; j++ {
		targets = append(targets, dispatcher.TargetConfig{URL: "http://t" + itoa(j) + ".invalid/h", Timeout: time.Second,
			Retry: dispatcher.RetryConfig{Type: "exponential", Max: c.RetryMax, Base: time.Duration(c.BaseNs), Cap: time.Duration(c.CapNs)}})
	}
	// every message becomes ready at the same instant (now + park); a message with pre > 0 is aged alone by pre dequeue/nack cycles
	const park = 10 * time.Second
	t0 := clk.Now()
	script := map[string]dlMsg{}
	// detours first: the message is dead-lettered / canceled, traffic flows (the memory store compacts its order log after 1024
	// entries), then the operator brings it back
	var detoured []dlMsg
	for _, m := range c.Messages {
		if m.Detour == "" {
			continue
		}
		url := "http://elsewhere.invalid/h"
		if m.Target >= 0 && m.Target < len(targets) {
			url = targets[m.Target].URL
		}
		if err := base.Enqueue(queue.Envelope{ID: m.ID, Route: "/r", Target: url, Payload: []byte("p")}); err != nil {
			out.Err = "enqueue: " + err.Error()
			return
		}
		if m.Detour == "dead-requeue" {
			resp, err := base.Dequeue(queue.DequeueRequest{Route: "/r", Batch: 1, LeaseTTL: time.Minute})
			if err != nil || len(resp.Items) != 1 || resp.Items[0].ID != m.ID {
				out.Err = "detour dequeue of " + m.ID + " failed"
				return
			}
			if err := base.MarkDead(resp.Items[0].LeaseID, "boom"); err != nil {
				out.Err = "detour mark dead: " + err.Error()
				return
			}
		} else if _, err := base.CancelMessages(queue.MessageCancelRequest{IDs: []string{m.ID}}); err != nil {
			out.Err = "detour cancel: " + err.Error()
			return
		}
		detoured = append(detoured, m)
	}
	for w := 0; w < c.Warmup; w += 100 {
		var envs []queue.Envelope
		for j := w; j < w+100 && j < c.Warmup; j++ {
			envs = append(envs, queue.Envelope{ID: fmt.Sprintf("warm%05d", j), Route: "/warm", Target: "pull", Payload: []byte("w")})
		}
		for _, e := range envs {
			if err := base.Enqueue(e); err != nil {
				out.Err = "warm-up enqueue: " + err.Error()
				return
			}
		}
		resp, err := base.Dequeue(queue.DequeueRequest{Route: "/warm", Batch: 100, LeaseTTL: time.Minute})
		if err != nil {
			out.Err = "warm-up dequeue: " + err.Error()
			return
		}
		for _, it := range resp.Items {
			_ = base.Ack(it.LeaseID)
		}
		_, _ = base.Dequeue(queue.DequeueRequest{Route: "/warm", Batch: 1, LeaseTTL: time.Minute}) // an idle poll
	}
	for _, m := range detoured {
		var err error
		switch m.Detour {
		case "dead-requeue":
			_, err = base.RequeueDead(queue.DeadRequeueRequest{IDs: []string{m.ID}})
		case "cancel-resume":
			_, err = base.ResumeMessages(queue.MessageResumeRequest{IDs: []string{m.ID}})
		default:
			_, err = base.RequeueMessages(queue.MessageRequeueRequest{IDs: []string{m.ID}})
		}
		if err != nil {
			out.Err = "detour " + m.Detour + ": " + err.Error()
			return
		}
		script[m.ID] = m
	}
	for _, m := range c.Messages {
		if m.Detour != "" {
			continue
		}
		script[m.ID] = m
		url := "http://elsewhere.invalid/h"
		if m.Target >= 0 && m.Target < len(targets) {
			url = targets[m.Target].URL
		}
		env := queue.Envelope{ID: m.ID, Route: "/r", Target: url, Payload: []byte("p")}
		if m.Pre <= 0 {
			env.NextRunAt = t0.Add(park)
		}
		if err := base.Enqueue(env); err != nil {
			out.Err = "enqueue: " + err.Error()
			return
		}
		for k := 1; k <= m.Pre; k++ {
			resp, err := base.Dequeue(queue.DequeueRequest{Route: "/r", Batch: 1, LeaseTTL: time.Minute})
			if err != nil || len(resp.Items) != 1 || resp.Items[0].ID != m.ID {
				out.Err = "pre-aging " + m.ID + ": unexpected dequeue result"
				return
			}
			delay := time.Duration(0)
			if k == m.Pre {
				delay = park
			}
			if err := base.Nack(resp.Items[0].LeaseID, delay); err != nil {
				out.Err = "pre-aging nack: " + err.Error()
				return
			}
		}
	}
	clk.Set(t0.Add(park))
	rec := &dlRec{inner: base}
	plain := &dlPlain{Store: base, rec: rec}
	var store queue.Store = plain
	if c.BatchStore {
		if b, ok := base.(queue.LeaseBatchStore); ok {
			store = &dlBatch{dlPlain: plain, b: b}
		}
	}
	conc := c.Concurrency
	d := &dispatcher.PushDispatcher{Store: store, Routes: []dispatcher.RouteConfig{{Route: "/r", Concurrency: conc, Targets: targets}},
		Logger: slog.New(slog.NewTextHandler(io.Discard, nil)), MaxWait: 5 * time.Millisecond}
	drained := make(chan bool, 1)
	del := &dlDeliverer{script: script, stopAt: c.StopAt, rec: rec}
	del.drain = func() { drained <- d.Drain(5 * time.Second) }
	d.Deliverer = del
	d.Start()
	if c.StopAt < 0 {
		// the clock stands still: a nacked message (delay > 0) is not offered again, so every message is sent at most once
		deadline := time.Now().Add(3 * time.Second)
		want := 0
		for _, m := range c.Messages {
			if m.Target >= 0 && m.Target < len(targets) {
				want++
			}
		}
		for time.Now().Before(deadline) {
			del.mu.Lock()
			n := len(del.sends)
			del.mu.Unlock()
			if n >= want {
				break
			}
			time.Sleep(5 * time.Millisecond)
		}
		time.Sleep(40 * time.Millisecond)
		out.Drained = d.Drain(5 * time.Second)
	} else {
		select {
		case ok := <-drained:
			out.Drained = ok
		case <-time.After(3 * time.Second):
			out.Drained = d.Drain(5 * time.Second) // fewer deliveries than stop_at: stop now
		}
	}
	rec.mu.Lock()
	out.Calls = append([]dlCall(nil), rec.calls...)
	out.Attempts = append([]dlAttempt(nil), rec.attempts...)
	rec.mu.Unlock()
	del.mu.Lock()
	out.Sends = append([]dlSend(nil), del.sends...)
	del.mu.Unlock()
	resp, err := base.ListMessages(queue.MessageListRequest{Route: "/r", Limit: 1000})
	if err != nil {
		out.Err = "list: " + err.Error()
		return
	}
	for _, m := range resp.Items {
		out.Final = append(out.Final, dlFinal{ID: m.ID, State: string(m.State), Attempt: m.Attempt, Reason: m.DeadReason, NextNs: m.NextRunAt.UnixNano() - clk.Now().UnixNano()})
	}
	b := dispatcher.VerifRouteDequeueBatch(maxInt(conc, 1), len(targets))
	out.Batch = b
	out.MutB = dispatcher.VerifRouteMutationBatch(b)
	return
}
