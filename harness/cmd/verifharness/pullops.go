//go:build verif

package main

// pullops: drives the real pullapi.Server (HTTP handler) and the real workerapi.Server (in-process
// service calls) on top of the real memory / SQLite stores with an injected store clock and an
// injected pull-server clock (white-box shim pullapi.VerifSetNow), on generated call sequences.
// After every call: status, decoded body, the request the store received for a dequeue, the complete
// stored state (queue.VerifSnapshot) and the recent-ops cache (pullapi.VerifRecentOps).

import (
	"bytes"
	"context"
	"encoding/json"
	"errors"
	"fmt"
	"net/http/httptest"
	"os"
	"path/filepath"
	"sync"
	"time"

	"github.com/nuetzliches/hookaido/internal/pullapi"
	"github.com/nuetzliches/hookaido/internal/queue"
	"github.com/nuetzliches/hookaido/internal/workerapi"
	workerapipb "github.com/nuetzliches/hookaido/internal/workerapi/proto"
	"google.golang.org/grpc/status"
	"google.golang.org/protobuf/types/known/durationpb"
)

func init() {
	register("pullops", pullopsRun)
}

type pCfg struct {
	Target        string `json:"target"`
	DefaultTTL    int64  `json:"default_ttl"`
	MaxBatch      int    `json:"max_batch"`
	MaxLeaseBatch int    `json:"max_lease_batch"`
	MaxTTL        int64  `json:"max_ttl"`
	DefaultWait   int64  `json:"default_wait"`
	MaxWait       int64  `json:"max_wait"`
	RecentTTL     int64  `json:"recent_ttl"`
	RecentCap     int    `json:"recent_cap"`
}

type pOp struct {
	Op   string `json:"op"` // enqueue | manage | dequeue | ack | nack | extend | raw | down | nop
	Now  int64  `json:"now"`
	CNow int64  `json:"cnow"`

	Enq  *qEnq    `json:"enq"`
	Kind string   `json:"kind"` // manage: cancel|requeue|resume ; raw: bad_method|unknown_endpoint|unknown_op|bad_json|bad_duration
	IDs  []string `json:"ids"`

	Endpoint string `json:"endpoint"`
	Batch    int    `json:"batch"`
	TTL      *int64 `json:"ttl"`
	Wait     *int64 `json:"wait"`

	Lease    *qLRef  `json:"lease"`
	Leases   []qLRef `json:"leases"`
	Dead     bool    `json:"dead"`
	Reason   string  `json:"reason"`
	Delay    int64   `json:"delay"`
	HasDelay bool    `json:"has_delay"`
	By       *int64  `json:"by"`

	Method string `json:"method"`
	Path   string `json:"path"`
	Body   string `json:"body"`

	Down bool `json:"down"`
}

type pHistory struct {
	Cfg  qCfg  `json:"cfg"`
	PCfg pCfg  `json:"pcfg"`
	Ops  []pOp `json:"ops"`
}

type pJob struct {
	Backend   string   `json:"backend"`
	Transport string   `json:"transport"` // http | grpc
	History   pHistory `json:"history"`
}

type pIn struct {
	Dir  string `json:"dir"`
	Par  int    `json:"par"`
	Jobs []pJob `json:"jobs"`
}

type pCacheRow struct {
	Lease string `json:"lease"`
	Op    string `json:"op"`
	Exp   int64  `json:"exp"`
}

type pItem struct {
	ID      string `json:"id"`
	Lease   string `json:"lease"`
	Attempt int    `json:"attempt"`
	Route   string `json:"route"`
}

type pStepOut struct {
	Status     int         `json:"status"` // HTTP status (http transport), 0 otherwise
	GCode      int         `json:"gcode"`  // gRPC status code (grpc transport), -1 otherwise
	Code       string      `json:"code"`   // "code" of an HTTP error / conflict body
	N          int         `json:"n"`      // acked / succeeded
	HasN       bool        `json:"has_n"`
	Conflicts  []qConflict `json:"conflicts,omitempty"`
	Items      []pItem     `json:"items,omitempty"`
	HasItems   bool        `json:"has_items"`
	DeqReq     []int64     `json:"deq_req,omitempty"` // batch, max_wait, lease_ttl the store was asked for
	StoreCalls []string    `json:"store_calls,omitempty"`
	LeaseArgs  []string    `json:"lease_args,omitempty"` // concrete lease strings presented: [single] or the list
	SingleArg  *string     `json:"single_arg,omitempty"`
	StoreErr   string      `json:"store_err,omitempty"` // result of a store call made by another party
	Count      int         `json:"count"`
	Matched    int         `json:"matched"`
	BodyText   string      `json:"body_text,omitempty"`
	Snap       []qRow      `json:"snap"`
	Cache      []pCacheRow `json:"cache"`
	CacheMap   int         `json:"cache_map"`
}

type pJobOut struct {
	Backend   string     `json:"backend"`
	Transport string     `json:"transport"`
	Steps     []pStepOut `json:"steps"`
	Fatal     string     `json:"fatal,omitempty"`
}

// faultStore sits between the pull server and the real store: it records the calls, never lets a
// dequeue wait on the wall clock, and can be switched to fail with an unclassified error.
type faultStore struct {
	qStore
	mu     sync.Mutex
	down   bool
	calls  []string
	deqReq []int64
}

var errStoreDown = errors.New("verif: store down")

func (f *faultStore) note(name string) bool {
	f.mu.Lock()
	defer f.mu.Unlock()
	f.calls = append(f.calls, name)
	return f.down
}

func (f *faultStore) take() ([]string, []int64) {
	f.mu.Lock()
	defer f.mu.Unlock()
	c, d := f.calls, f.deqReq
	f.calls, f.deqReq = nil, nil
	return c, d
}

func (f *faultStore) Dequeue(req queue.DequeueRequest) (queue.DequeueResponse, error) {
	down := f.note("Dequeue")
	f.mu.Lock()
	f.deqReq = []int64{int64(req.Batch), int64(req.MaxWait), int64(req.LeaseTTL)}
	f.mu.Unlock()
	if down {
		return queue.DequeueResponse{}, errStoreDown
	}
	req.MaxWait = 0
	return f.qStore.Dequeue(req)
}

func (f *faultStore) Ack(l string) error {
	if f.note("Ack") {
		return errStoreDown
	}
	return f.qStore.Ack(l)
}

func (f *faultStore) Nack(l string, d time.Duration) error {
	if f.note("Nack") {
		return errStoreDown
	}
	return f.qStore.Nack(l, d)
}

func (f *faultStore) Extend(l string, d time.Duration) error {
	if f.note("Extend") {
		return errStoreDown
	}
	return f.qStore.Extend(l, d)
}

func (f *faultStore) MarkDead(l string, r string) error {
	if f.note("MarkDead") {
		return errStoreDown
	}
	return f.qStore.MarkDead(l, r)
}

func (f *faultStore) AckBatch(ls []string) (queue.LeaseBatchResult, error) {
	if f.note("AckBatch") {
		return queue.LeaseBatchResult{}, errStoreDown
	}
	return f.qStore.AckBatch(ls)
}

func (f *faultStore) NackBatch(ls []string, d time.Duration) (queue.LeaseBatchResult, error) {
	if f.note("NackBatch") {
		return queue.LeaseBatchResult{}, errStoreDown
	}
	return f.qStore.NackBatch(ls, d)
}

func (f *faultStore) MarkDeadBatch(ls []string, r string) (queue.LeaseBatchResult, error) {
	if f.note("MarkDeadBatch") {
		return queue.LeaseBatchResult{}, errStoreDown
	}
	return f.qStore.MarkDeadBatch(ls, r)
}

func durStr(ns int64) string { return time.Duration(ns).String() }

var pullEndpoints = map[string]string{"/e0": "r0", "/e1": "r1", "/e2": "r2"}

func runPullJob(job pJob, dbPath string) (out pJobOut) {
	out.Backend, out.Transport = job.Backend, job.Transport
	defer func() {
		if r := recover(); r != nil {
			out.Fatal = fmt.Sprintf("panic: %v", r)
		}
	}()
	h := job.History
	clk := &clock{}
	clk.set(1)
	sclk := &clock{}
	sclk.set(1)
	real, closeFn, snap, err := openStore(job.Backend, h.Cfg, clk, dbPath)
	if err != nil {
		out.Fatal = err.Error()
		return
	}
	defer closeFn()
	fs := &faultStore{qStore: real}
	psrv := pullapi.NewServer(fs)
	psrv.Target = h.PCfg.Target
	psrv.DefaultLeaseTTL = time.Duration(h.PCfg.DefaultTTL)
	psrv.MaxBatch = h.PCfg.MaxBatch
	psrv.MaxLeaseBatch = h.PCfg.MaxLeaseBatch
	psrv.MaxLeaseTTL = time.Duration(h.PCfg.MaxTTL)
	psrv.DefaultMaxWait = time.Duration(h.PCfg.DefaultWait)
	psrv.MaxWait = time.Duration(h.PCfg.MaxWait)
	psrv.RecentLeaseOpTTL = time.Duration(h.PCfg.RecentTTL)
	psrv.RecentLeaseOpCap = h.PCfg.RecentCap
	psrv.ResolveRoute = func(ep string) (string, bool) { r, ok := pullEndpoints[ep]; return r, ok }
	psrv.VerifSetNow(sclk.now)
	wsrv := workerapi.NewServer(psrv)
	ctx := context.Background()
	grpcT := job.Transport == "grpc"

	var results []qRes // dequeue results, for symbolic lease references
	for _, op := range h.Ops {
		clk.set(op.Now)
		sclk.set(op.CNow)
		st := pStepOut{GCode: -1}
		var res qRes

		httpCall := func(method, path string, body []byte) {
			req := httptest.NewRequest(method, path, bytes.NewReader(body))
			rec := httptest.NewRecorder()
			psrv.ServeHTTP(rec, req)
			st.Status = rec.Code
			raw := rec.Body.Bytes()
			if len(raw) > 0 {
				var generic struct {
					Code      string `json:"code"`
					Acked     *int   `json:"acked"`
					Succeeded *int   `json:"succeeded"`
					Conflicts []struct {
						LeaseID string `json:"lease_id"`
						Reason  string `json:"reason"`
					} `json:"conflicts"`
					Items *[]struct {
						ID      string `json:"id"`
						LeaseID string `json:"lease_id"`
						Attempt int    `json:"attempt"`
						Route   string `json:"route"`
					} `json:"items"`
				}
				if err := json.Unmarshal(raw, &generic); err != nil {
					st.BodyText = "unparseable: " + string(raw)
				}
				st.Code = generic.Code
				if generic.Acked != nil {
					st.N, st.HasN = *generic.Acked, true
				}
				if generic.Succeeded != nil {
					st.N, st.HasN = *generic.Succeeded, true
				}
				for _, c := range generic.Conflicts {
					switch c.Reason {
					case "lease_expired":
						st.Conflicts = append(st.Conflicts, qConflict{Lease: c.LeaseID, Expired: true})
					case "lease_not_found":
						st.Conflicts = append(st.Conflicts, qConflict{Lease: c.LeaseID, Expired: false})
					default:
						st.BodyText = "unknown conflict reason " + c.Reason
					}
				}
				if generic.Items != nil {
					st.HasItems = true
					for _, it := range *generic.Items {
						st.Items = append(st.Items, pItem{ID: it.ID, Lease: it.LeaseID, Attempt: it.Attempt, Route: it.Route})
					}
				}
			}
		}
		grpcErr := func(err error) {
			st.GCode = int(status.Code(err))
		}
		endpoint := op.Endpoint
		if endpoint == "" {
			endpoint = "/e0"
		}
		var single *string
		var list []string
		if op.Lease != nil {
			s := resolveLease(*op.Lease, results)
			single = &s
		}
		for _, r := range op.Leases {
			list = append(list, resolveLease(r, results))
		}

		switch op.Op {
		case "enqueue":
			e := op.Enq
			env := queue.Envelope{ID: e.ID, Route: e.Route, Target: e.Target, Payload: bodyOf(e.Body),
				Headers: mapOf("X-H", e.Hdr), Trace: mapOf("t", e.Trace)}
			if e.Recv != nil {
				env.ReceivedAt = time.Unix(0, *e.Recv).UTC()
			}
			if e.Next != nil {
				env.NextRunAt = time.Unix(0, *e.Next).UTC()
			}
			st.StoreErr = errKind(real.Enqueue(env))
		case "manage":
			var err error
			switch op.Kind {
			case "cancel":
				var r queue.MessageCancelResponse
				r, err = real.CancelMessages(queue.MessageCancelRequest{IDs: op.IDs})
				st.Count, st.Matched = r.Canceled, r.Matched
			case "requeue":
				var r queue.MessageRequeueResponse
				r, err = real.RequeueMessages(queue.MessageRequeueRequest{IDs: op.IDs})
				st.Count, st.Matched = r.Requeued, r.Matched
			case "resume":
				var r queue.MessageResumeResponse
				r, err = real.ResumeMessages(queue.MessageResumeRequest{IDs: op.IDs})
				st.Count, st.Matched = r.Resumed, r.Matched
			default:
				out.Fatal = "unknown manage kind " + op.Kind
				return
			}
			st.StoreErr = errKind(err)
		case "nop":
		case "down":
			fs.mu.Lock()
			fs.down = op.Down
			fs.mu.Unlock()
		case "dequeue":
			if grpcT {
				b := op.Batch
				if b < 0 {
					b = 0
				}
				req := &workerapipb.DequeueRequest{Endpoint: endpoint, Batch: uint32(b)}
				if op.TTL != nil {
					req.LeaseTtl = durationpb.New(time.Duration(*op.TTL))
				}
				if op.Wait != nil {
					req.MaxWait = durationpb.New(time.Duration(*op.Wait))
				}
				resp, err := wsrv.Dequeue(ctx, req)
				grpcErr(err)
				if err == nil {
					st.HasItems = true
					for _, it := range resp.GetItems() {
						st.Items = append(st.Items, pItem{ID: it.GetId(), Lease: it.GetLeaseId(), Attempt: int(it.GetAttempt()), Route: it.GetRoute()})
					}
				}
			} else {
				m := map[string]any{"batch": op.Batch}
				if op.TTL != nil {
					m["lease_ttl"] = durStr(*op.TTL)
				}
				if op.Wait != nil {
					m["max_wait"] = durStr(*op.Wait)
				}
				b, _ := json.Marshal(m)
				httpCall("POST", endpoint+"/dequeue", b)
			}
			for _, it := range st.Items {
				res.Items = append(res.Items, qRow{ID: it.ID, Lease: it.Lease})
			}
		case "ack", "nack":
			if grpcT {
				sv := ""
				if single != nil {
					sv = *single
				}
				if op.Op == "ack" {
					resp, err := wsrv.Ack(ctx, &workerapipb.AckRequest{Endpoint: endpoint, LeaseId: sv, LeaseIds: list})
					grpcErr(err)
					if err == nil {
						st.N, st.HasN = int(resp.GetAcked()), true
						for _, c := range resp.GetConflicts() {
							st.Conflicts = append(st.Conflicts, qConflict{Lease: c.GetLeaseId(), Expired: c.GetExpired()})
						}
					}
				} else {
					req := &workerapipb.NackRequest{Endpoint: endpoint, LeaseId: sv, LeaseIds: list, Dead: op.Dead, Reason: op.Reason}
					if op.HasDelay {
						req.Delay = durationpb.New(time.Duration(op.Delay))
					}
					resp, err := wsrv.Nack(ctx, req)
					grpcErr(err)
					if err == nil {
						st.N, st.HasN = int(resp.GetSucceeded()), true
						for _, c := range resp.GetConflicts() {
							st.Conflicts = append(st.Conflicts, qConflict{Lease: c.GetLeaseId(), Expired: c.GetExpired()})
						}
					}
				}
			} else {
				m := map[string]any{}
				if single != nil {
					m["lease_id"] = *single
				}
				if op.Leases != nil {
					m["lease_ids"] = list
				}
				if op.Op == "nack" {
					if op.HasDelay {
						m["delay"] = durStr(op.Delay)
					}
					if op.Dead {
						m["dead"] = true
					}
					if op.Reason != "" {
						m["reason"] = op.Reason
					}
				}
				b, _ := json.Marshal(m)
				httpCall("POST", endpoint+"/"+op.Op, b)
			}
		case "extend":
			if grpcT {
				sv := ""
				if single != nil {
					sv = *single
				}
				req := &workerapipb.ExtendRequest{Endpoint: endpoint, LeaseId: sv}
				if op.By != nil {
					req.ExtendBy = durationpb.New(time.Duration(*op.By))
				}
				_, err := wsrv.Extend(ctx, req)
				grpcErr(err)
			} else {
				m := map[string]any{}
				if single != nil {
					m["lease_id"] = *single
				}
				if op.By != nil {
					m["extend_by"] = durStr(*op.By)
				}
				b, _ := json.Marshal(m)
				httpCall("POST", endpoint+"/extend", b)
			}
		case "raw":
			if grpcT {
				// only an unknown endpoint has a gRPC counterpart
				_, err := wsrv.Ack(ctx, &workerapipb.AckRequest{Endpoint: "/nope", LeaseId: "lease_x"})
				grpcErr(err)
			} else {
				httpCall(op.Method, op.Path, []byte(op.Body))
			}
		default:
			out.Fatal = fmt.Sprintf("unknown op %q", op.Op)
			return
		}
		results = append(results, res)
		st.StoreCalls, st.DeqReq = fs.take()
		st.LeaseArgs = list
		st.SingleArg = single
		rows, _, err := snap()
		if err != nil {
			out.Fatal = "snapshot: " + err.Error()
			return
		}
		st.Snap = rows
		entries, mapLen := psrv.VerifRecentOps()
		st.Cache = make([]pCacheRow, 0, len(entries))
		for _, e := range entries {
			st.Cache = append(st.Cache, pCacheRow{Lease: e.LeaseID, Op: e.Op, Exp: e.ExpiresAt})
		}
		st.CacheMap = mapLen
		out.Steps = append(out.Steps, st)
	}
	return
}

func pullopsRun(inb []byte) (any, error) {
	var in pIn
	if err := json.Unmarshal(inb, &in); err != nil {
		return nil, err
	}
	if in.Par <= 0 {
		in.Par = 8
	}
	outs := make([]pJobOut, len(in.Jobs))
	jobs := make(chan int)
	var wg sync.WaitGroup
	for w := 0; w < in.Par; w++ {
		wg.Add(1)
		go func() {
			defer wg.Done()
			for j := range jobs {
				dir := filepath.Join(in.Dir, fmt.Sprintf("p-%d", j))
				_ = os.MkdirAll(dir, 0o755)
				outs[j] = runPullJob(in.Jobs[j], filepath.Join(dir, "q.db"))
				_ = os.RemoveAll(dir)
			}
		}()
	}
	for j := range in.Jobs {
		jobs <- j
	}
	close(jobs)
	wg.Wait()
	return outs, nil
}
