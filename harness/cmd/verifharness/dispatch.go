//go:build verif

//go:debug randseednop=0

package main

import (
	"context"
	"encoding/json"
	"errors"
	"fmt"
	"io"
	"log/slog"
	"math"
	"math/rand"
	"net"
	"net/http"
	"net/http/httptest"
	"net/url"
	"os"
	"path/filepath"
	"sort"
	"strings"
	"sync"
	"syscall"
	"time"

	"github.com/nuetzliches/hookaido/internal/app"
	"github.com/nuetzliches/hookaido/internal/config"
	"github.com/nuetzliches/hookaido/internal/dispatcher"
	"github.com/nuetzliches/hookaido/internal/queue"
)

func init() {
	register("dispatch-classify", dispatchClassify)
	register("dispatch-delay", dispatchDelay)
	register("dispatch-loop", dispatchLoop)
	register("dispatch-real", dispatchReal)
	register("dispatch-arith", dispatchArith)
	register("dispatch-batch", dispatchBatch)
	register("retry-blocks", retryBlocks)
}

var c06Quiet = slog.New(slog.NewTextHandler(io.Discard, nil))

// ---------------------------------------------------------------------------
// shared: stores with an injected clock

type c06Clock struct {
	mu sync.Mutex
	t  time.Time
}

func (c *c06Clock) Now() time.Time { c.mu.Lock(); defer c.mu.Unlock(); return c.t }
func (c *c06Clock) Set(t time.Time) { c.mu.Lock(); c.t = t; c.mu.Unlock() }

func c06OpenStore(backend, dir, name string, clk *c06Clock, deliveredRetention bool) (queue.Store, func(), error) {
	switch backend {
	case "memory":
		opts := []queue.MemoryOption{queue.WithNowFunc(clk.Now)}
		if deliveredRetention {
			opts = append(opts, queue.WithDeliveredRetention(24*time.Hour))
		}
		return queue.NewMemoryStore(opts...), func() {}, nil
	case "sqlite":
		if err := os.MkdirAll(dir, 0o755); err != nil {
			return nil, nil, err
		}
		p := filepath.Join(dir, name+".db")
		opts := []queue.SQLiteOption{queue.WithSQLiteNowFunc(clk.Now), queue.WithSQLitePollInterval(time.Millisecond)}
		if deliveredRetention {
			opts = append(opts, queue.WithSQLiteDeliveredRetention(24*time.Hour))
		}
		s, err := queue.NewSQLiteStore(p, opts...)
		if err != nil {
			return nil, nil, err
		}
		return s, func() { _ = s.Close() }, nil
	}
	return nil, nil, fmt.Errorf("unknown backend %q", backend)
}

// ---------------------------------------------------------------------------
// result kinds (shared with Model/Dispatcher.v kind_of_code; 6 = policy denial inside *url.Error)

func c06MkResult(kind, code int) dispatcher.Result {
	var err error
	switch kind {
	case 0:
		return dispatcher.Result{StatusCode: code}
	case 1:
		err = &net.OpError{Op: "dial", Net: "tcp", Err: os.NewSyscallError("connect", syscall.ECONNREFUSED)}
	case 2:
		err = context.DeadlineExceeded
	case 3:
		err = dispatcher.ErrPolicyDenied
	case 4:
		err = fmt.Errorf("%w: https_only enforced", dispatcher.ErrPolicyDenied)
	case 5:
		err = errors.New("boom")
	case 6:
		err = &url.Error{Op: "Post", URL: "http://x.invalid/", Err: fmt.Errorf("%w: host denied", dispatcher.ErrPolicyDenied)}
	default:
		err = errors.New("boom")
	}
	return dispatcher.Result{StatusCode: code, Err: err}
}

type c06FixedDeliverer struct {
	mu    sync.Mutex
	res   dispatcher.Result
	calls int
}

func (f *c06FixedDeliverer) Deliver(_ context.Context, _ dispatcher.Delivery) dispatcher.Result {
	f.mu.Lock()
	defer f.mu.Unlock()
	f.calls++
	return f.res
}

func c06ReasonCode(s string) int {
	switch s {
	case "":
		return 0
	case "no_retry":
		return 2
	case "policy_denied":
		return 3
	case "max_retries":
		return 4
	}
	return 9
}

func c06StateCode(s queue.State) int {
	switch s {
	case queue.StateQueued:
		return 1
	case queue.StateLeased:
		return 2
	case queue.StateDelivered:
		return 3
	case queue.StateDead:
		return 4
	case queue.StateCanceled:
		return 5
	}
	return 0 // gone
}

func c06OutcomeCode(o queue.AttemptOutcome) int {
	switch o {
	case queue.AttemptOutcomeAcked:
		return 0
	case queue.AttemptOutcomeRetry:
		return 1
	case queue.AttemptOutcomeDead:
		return 2
	}
	return 9
}

func c06Lookup(store queue.Store, route, id string) (queue.Envelope, bool) {
	for _, st := range []queue.State{queue.StateQueued, queue.StateLeased, queue.StateDelivered, queue.StateDead, queue.StateCanceled} {
		resp, err := store.ListMessages(queue.MessageListRequest{Route: route, State: st, Limit: 1000, Order: queue.MessageOrderAsc})
		if err != nil {
			continue
		}
		for _, it := range resp.Items {
			if it.ID == id {
				return it, true
			}
		}
	}
	return queue.Envelope{}, false
}

// ---------------------------------------------------------------------------
// (a) exhaustive classification through the real classifyDelivery + applyLeaseAction

type c06ClassIn struct {
	Dir       string  `json:"dir"`
	Backend   string  `json:"backend"`
	Maxes     []int   `json:"maxes"`
	Base      int64   `json:"base"`
	Cap       int64   `json:"cap"`
	Codes     []int   `json:"codes"`      // status codes to sweep (all of 100..599 in the check)
	ErrCodes  []int   `json:"err_codes"`  // StatusCode values combined with each error kind
	Kinds     []int   `json:"kinds"`      // error kinds 1..6
	Attempts  [][]int `json:"attempts"`   // per max: attempt numbers (>= 1)
	Delivered bool    `json:"delivered_retention"`
	Batch     bool    `json:"batch"` // apply through applyLeaseActions (batched path) instead of applyLeaseAction
	Now       int64   `json:"now"`
}

// row: k, code, attempt, max, action, delay, state, dead_reason, next_delta, nrec, rec_attempt, rec_status, rec_outcome, rec_reason, rec_err, deliver_calls, env_attempt
type c06ClassOut struct {
	Rows  [][]int64 `json:"rows"`
	Notes []string  `json:"notes,omitempty"`
}

func dispatchClassify(in []byte) (any, error) {
	var req c06ClassIn
	if err := json.Unmarshal(in, &req); err != nil {
		return nil, err
	}
	if req.Now == 0 {
		req.Now = 1790000000000000000
	}
	out := c06ClassOut{}
	const target = "http://127.0.0.1:9/t"
	for mi, mx := range req.Maxes {
		clk := &c06Clock{t: time.Unix(0, req.Now).UTC()}
		store, closeFn, err := c06OpenStore(req.Backend, req.Dir, fmt.Sprintf("classify-%d-%d", os.Getpid(), mi), clk, req.Delivered)
		if err != nil {
			return nil, err
		}
		tcfg := dispatcher.TargetConfig{URL: target, Timeout: time.Second,
			Retry: dispatcher.RetryConfig{Type: "exponential", Max: mx, Base: time.Duration(req.Base), Cap: time.Duration(req.Cap), Jitter: 0}}
		seq := 0
		runCase := func(kind, code, attempt int) error {
			seq++
			id := fmt.Sprintf("m-%d-%06d", mi, seq)
			route := fmt.Sprintf("/r%06d", seq) // one route per case: listings and dequeues see only this message
			if err := store.Enqueue(queue.Envelope{ID: id, Route: route, Target: target, Payload: []byte("p")}); err != nil {
				return err
			}
			var env queue.Envelope
			for a := 1; a <= attempt; a++ {
				resp, err := store.Dequeue(queue.DequeueRequest{Route: route, Batch: 1, LeaseTTL: time.Minute})
				if err != nil {
					return err
				}
				if len(resp.Items) != 1 || resp.Items[0].ID != id {
					return fmt.Errorf("case %s: dequeue returned %d items", id, len(resp.Items))
				}
				env = resp.Items[0]
				if a < attempt {
					if err := store.Nack(env.LeaseID, 0); err != nil {
						return err
					}
				}
			}
			del := &c06FixedDeliverer{res: c06MkResult(kind, code)}
			d := &dispatcher.PushDispatcher{Store: store, Deliverer: del}
			var act dispatcher.VerifAction
			if req.Batch {
				act = d.VerifClassifyBatch(c06Quiet, []queue.Envelope{env}, tcfg)[0]
			} else {
				act = d.VerifClassifyAndApply(c06Quiet, env, tcfg)
			}
			ac := int64(9)
			switch act.Kind {
			case "ack":
				ac = 0
			case "nack":
				ac = 1
			case "dead":
				ac = int64(c06ReasonCode(act.Reason))
			}
			msg, found := c06Lookup(store, route, id)
			st, dr, nd := int64(0), int64(0), int64(0)
			if found {
				st = int64(c06StateCode(msg.State))
				dr = int64(c06ReasonCode(msg.DeadReason))
				nd = msg.NextRunAt.Sub(clk.Now()).Nanoseconds()
			}
			atts, err := store.ListAttempts(queue.AttemptListRequest{EventID: id, Limit: 100})
			if err != nil {
				return err
			}
			row := []int64{int64(kind), int64(code), int64(attempt), int64(mx), ac, int64(act.Delay), st, dr, nd, int64(len(atts.Items)), -1, -1, -1, -1, -1, int64(del.calls), int64(env.Attempt)}
			if len(atts.Items) > 0 {
				r := atts.Items[0]
				hasErr := int64(0)
				if r.Error != "" {
					hasErr = 1
				}
				row[10], row[11], row[12], row[13], row[14] = int64(r.Attempt), int64(r.StatusCode), int64(c06OutcomeCode(r.Outcome)), int64(c06ReasonCode(r.DeadReason)), hasErr
			}
			out.Rows = append(out.Rows, row)
			return nil
		}
		for _, attempt := range req.Attempts[mi] {
			for _, code := range req.Codes {
				if err := runCase(0, code, attempt); err != nil {
					closeFn()
					return nil, err
				}
			}
			for _, k := range req.Kinds {
				for _, code := range req.ErrCodes {
					if err := runCase(k, code, attempt); err != nil {
						closeFn()
						return nil, err
					}
				}
			}
		}
		closeFn()
	}
	return out, nil
}

// ---------------------------------------------------------------------------
// (b) retryDelay on compiled configs, with the jitter draw read from the seeded global source

type c06DelayCfg struct {
	Retry  string  `json:"retry"`  // text after the word "retry" in a deliver block (through real Parse+Compile)
	Direct *c06DelayRaw  `json:"direct"` // or a RetryConfig handed to retryDelay as is (white-box only)
	Att    []int   `json:"attempts"`
	Seeds  []int64 `json:"seeds"`
}
type c06DelayRaw struct {
	Max        int    `json:"max"`
	Base       int64  `json:"base"`
	Cap        int64  `json:"cap"`
	JitterBits uint64 `json:"jitter_bits"`
}
type c06DelayRes struct {
	OK         bool      `json:"ok"`
	Errors     []string  `json:"errors,omitempty"`
	Max        int       `json:"max"`
	Base       int64     `json:"base"`
	Cap        int64     `json:"cap"`
	JitterBits uint64    `json:"jitter_bits"`
	Rows       [][]int64 `json:"rows"`   // attempt, seed, delay
	UBits      []uint64  `json:"u_bits"` // parallel to rows
}

func c06DeliverConfigText(retry string, extra string) string {
	return "ingress {\n  listen \":18080\"\n}\n\"/r\" {\n  deliver \"http://127.0.0.1:9/t\" {\n    retry " + retry + "\n    timeout 1s\n" + extra + "  }\n}\n"
}

func c06CompileText(text string) (config.Compiled, config.ValidationResult, error) {
	cfg, err := config.Parse([]byte(text))
	if err != nil {
		return config.Compiled{}, config.ValidationResult{}, err
	}
	c, res := config.Compile(cfg)
	return c, res, nil
}

func dispatchDelay(in []byte) (any, error) {
	var req struct {
		Configs []c06DelayCfg `json:"configs"`
	}
	if err := json.Unmarshal(in, &req); err != nil {
		return nil, err
	}
	out := make([]c06DelayRes, 0, len(req.Configs))
	for _, c := range req.Configs {
		var r c06DelayRes
		var rc dispatcher.RetryConfig
		if c.Direct != nil {
			rc = dispatcher.RetryConfig{Type: "exponential", Max: c.Direct.Max, Base: time.Duration(c.Direct.Base), Cap: time.Duration(c.Direct.Cap), Jitter: math.Float64frombits(c.Direct.JitterBits)}
			r.OK = true
		} else {
			compiled, res, err := c06CompileText(c06DeliverConfigText(c.Retry, ""))
			if err != nil {
				r.Errors = []string{"parse: " + err.Error()}
				out = append(out, r)
				continue
			}
			if !res.OK {
				r.Errors = res.Errors
				out = append(out, r)
				continue
			}
			routes := app.VerifRLBuildDispatchRoutes(compiled)
			if len(routes) != 1 || len(routes[0].Targets) != 1 {
				return nil, fmt.Errorf("expected one deliver route/target, got %d", len(routes))
			}
			rc = routes[0].Targets[0].Retry
			r.OK = true
		}
		r.Max, r.Base, r.Cap, r.JitterBits = rc.Max, int64(rc.Base), int64(rc.Cap), math.Float64bits(rc.Jitter)
		for _, a := range c.Att {
			for _, seed := range c.Seeds {
				rand.Seed(seed)
				u := rand.Float64()
				rand.Seed(seed)
				d := dispatcher.VerifRetryDelay(a, rc)
				r.Rows = append(r.Rows, []int64{int64(a), seed, int64(d)})
				r.UBits = append(r.UBits, math.Float64bits(u))
			}
		}
		out = append(out, r)
	}
	// self-check of the seeding mechanism: two draws after the same seed must agree
	rand.Seed(12345)
	a := rand.Float64()
	rand.Seed(12345)
	b := rand.Float64()
	return map[string]any{"results": out, "seed_works": a == b, "seed_probe_bits": math.Float64bits(a)}, nil
}

// ---------------------------------------------------------------------------
// (c) whole loop: real PushDispatcher.Start/Drain, real stores, scripted target

type c06Step struct {
	Kind string `json:"kind"` // status | net | timeout | hang | policy | policy_wrapped | other
	Code int    `json:"code"`
}
type c06Msg struct {
	ID     string   `json:"id"`
	Target int      `json:"target"` // index into the route's deliver targets
	Pre    int      `json:"pre"`    // dequeue+nack(0) cycles done by the harness before Start (attempt counter pre-aged)
	Script []c06Step `json:"script"` // behaviour per send, last one repeats
}
type c06Scenario struct {
	Name      string  `json:"name"`
	Backend   string  `json:"backend"`
	Config    string  `json:"config"` // full config text (real Parse+Compile+buildDispatchRoutes)
	Delivered bool    `json:"delivered_retention"`
	Messages  []c06Msg `json:"messages"`
	Now       int64   `json:"now"`
	MaxRounds int     `json:"max_rounds"`
}
type c06Attempt struct {
	Attempt int    `json:"attempt"`
	Status  int    `json:"status"`
	Outcome int    `json:"outcome"`
	Reason  int    `json:"reason"`
	HasErr  bool   `json:"has_err"`
	Target  string `json:"target"`
}
type c06Nack struct {
	Attempt int   `json:"attempt"` // attempt number of the failed send
	Delta   int64 `json:"delta"`   // next_run_at - clock at the failure
}
type c06MsgOut struct {
	ID       string      `json:"id"`
	Sends    int         `json:"sends"`
	SendAt   []int64     `json:"send_at"`
	State    int         `json:"state"`
	Reason   int         `json:"reason"`
	Attempt  int         `json:"attempt"`
	Attempts []c06Attempt `json:"attempts"`
	Nacks    []c06Nack    `json:"nacks"`
}
type c06Target struct {
	URL        string `json:"url"`
	Timeout    int64  `json:"timeout"`
	Max        int    `json:"max"`
	Base       int64  `json:"base"`
	Cap        int64  `json:"cap"`
	JitterBits uint64 `json:"jitter_bits"`
}
type c06LoopOut struct {
	Name        string     `json:"name"`
	OK          bool       `json:"ok"`
	Errors      []string   `json:"errors,omitempty"`
	Targets     []c06Target `json:"targets"`
	Concurrency int        `json:"concurrency"`
	Messages    []c06MsgOut `json:"messages"`
	Rounds      int        `json:"rounds"`
	Terminated  bool       `json:"terminated"`
	Drained     bool       `json:"drained"`
}

type c06ScriptDeliverer struct {
	mu      sync.Mutex
	clk     *c06Clock
	scripts map[string][]c06Step // key id|url
	count   map[string]int
	sendAt  map[string][]int64
	total   int
}

func (s *c06ScriptDeliverer) Deliver(ctx context.Context, d dispatcher.Delivery) dispatcher.Result {
	key := d.ID + "|" + d.URL
	s.mu.Lock()
	n := s.count[key]
	s.count[key] = n + 1
	s.total++
	s.sendAt[key] = append(s.sendAt[key], s.clk.Now().UnixNano())
	sc := s.scripts[key]
	s.mu.Unlock()
	if len(sc) == 0 {
		return dispatcher.Result{StatusCode: 200}
	}
	if n >= len(sc) {
		n = len(sc) - 1
	}
	st := sc[n]
	switch st.Kind {
	case "status":
		return dispatcher.Result{StatusCode: st.Code}
	case "net":
		return c06MkResult(1, 0)
	case "timeout":
		return c06MkResult(2, 0)
	case "hang":
		<-ctx.Done()
		return dispatcher.Result{Err: ctx.Err()}
	case "policy":
		return c06MkResult(3, 0)
	case "policy_wrapped":
		return c06MkResult(4, 0)
	}
	return c06MkResult(5, 0)
}

func c06RunLoopScenario(dir string, idx int, sc c06Scenario) c06LoopOut {
	out := c06LoopOut{Name: sc.Name}
	compiled, res, err := c06CompileText(sc.Config)
	if err != nil {
		out.Errors = []string{"parse: " + err.Error()}
		return out
	}
	if !res.OK {
		out.Errors = res.Errors
		return out
	}
	routes := app.VerifRLBuildDispatchRoutes(compiled)
	if len(routes) != 1 {
		out.Errors = []string{fmt.Sprintf("expected one deliver route, got %d", len(routes))}
		return out
	}
	rt := routes[0]
	out.OK = true
	out.Concurrency = rt.Concurrency
	for _, t := range rt.Targets {
		out.Targets = append(out.Targets, c06Target{URL: t.URL, Timeout: int64(t.Timeout), Max: t.Retry.Max, Base: int64(t.Retry.Base), Cap: int64(t.Retry.Cap), JitterBits: math.Float64bits(t.Retry.Jitter)})
	}
	if sc.Now == 0 {
		sc.Now = 1790000000000000000
	}
	clk := &c06Clock{t: time.Unix(0, sc.Now).UTC()}
	store, closeFn, err := c06OpenStore(sc.Backend, dir, fmt.Sprintf("loop-%d-%d", os.Getpid(), idx), clk, sc.Delivered)
	if err != nil {
		out.OK = false
		out.Errors = []string{err.Error()}
		return out
	}
	defer closeFn()
	del := &c06ScriptDeliverer{clk: clk, scripts: map[string][]c06Step{}, count: map[string]int{}, sendAt: map[string][]int64{}}
	keyOf := map[string]string{}
	// Every message becomes ready at the same instant (now + park).  A message with pre > 0 has its
	// attempt counter pre-aged by pre dequeue/nack cycles (as earlier cycles or a DLQ requeue leave
	// it); while one message is being aged all others are parked, so only it is ever leased.
	const park = 10 * time.Second
	t0 := clk.Now()
	startAttempt := map[string]int{}
	for _, m := range sc.Messages {
		url := rt.Targets[m.Target%len(rt.Targets)].URL
		del.scripts[m.ID+"|"+url] = m.Script
		keyOf[m.ID] = m.ID + "|" + url
		env := queue.Envelope{ID: m.ID, Route: rt.Route, Target: url, Payload: []byte(m.ID)}
		if m.Pre <= 0 {
			env.NextRunAt = t0.Add(park)
		}
		if err := store.Enqueue(env); err != nil {
			out.OK = false
			out.Errors = []string{"enqueue: " + err.Error()}
			return out
		}
		for i := 1; i <= m.Pre; i++ {
			resp, err := store.Dequeue(queue.DequeueRequest{Route: rt.Route, Batch: 1, LeaseTTL: time.Minute})
			if err != nil || len(resp.Items) != 1 || resp.Items[0].ID != m.ID {
				out.OK = false
				out.Errors = []string{fmt.Sprintf("pre-aging %s: unexpected dequeue result (%v)", m.ID, err)}
				return out
			}
			delay := time.Duration(0)
			if i == m.Pre {
				delay = park
			}
			if err := store.Nack(resp.Items[0].LeaseID, delay); err != nil {
				out.OK = false
				out.Errors = []string{"pre-aging nack: " + err.Error()}
				return out
			}
		}
		startAttempt[m.ID] = m.Pre
	}
	clk.Set(t0.Add(park))

	d := &dispatcher.PushDispatcher{Store: store, Deliverer: del, Routes: routes, Logger: c06Quiet, MaxWait: 2 * time.Millisecond}
	d.Start()

	seenNack := map[string]map[int]bool{}
	nacks := map[string][]c06Nack{}
	maxRounds := sc.MaxRounds
	if maxRounds <= 0 {
		maxRounds = 64
	}
	terminated := false
	rounds := 0
	for rounds < maxRounds {
		rounds++
		// wait for quiescence at the current (frozen) clock value
		stable := 0
		lastTotal := -1
		deadline := time.Now().Add(20 * time.Second)
		for stable < 3 && time.Now().Before(deadline) {
			time.Sleep(1500 * time.Microsecond)
			now := clk.Now()
			busy := false
			lr, err := store.ListMessages(queue.MessageListRequest{Route: rt.Route, State: queue.StateLeased, Limit: 1000})
			if err != nil || len(lr.Items) > 0 {
				busy = true
			}
			qr, err := store.ListMessages(queue.MessageListRequest{Route: rt.Route, State: queue.StateQueued, Limit: 1000})
			if err != nil {
				busy = true
			} else {
				for _, it := range qr.Items {
					if !it.NextRunAt.After(now) {
						busy = true
					}
				}
			}
			del.mu.Lock()
			tot := del.total
			del.mu.Unlock()
			if busy || tot != lastTotal {
				stable = 0
			} else {
				stable++
			}
			lastTotal = tot
		}
		now := clk.Now()
		qr, _ := store.ListMessages(queue.MessageListRequest{Route: rt.Route, State: queue.StateQueued, Limit: 1000})
		var next time.Time
		for _, it := range qr.Items {
			if seenNack[it.ID] == nil {
				seenNack[it.ID] = map[int]bool{}
			}
			if !seenNack[it.ID][it.Attempt] && it.Attempt > startAttempt[it.ID] && it.NextRunAt.After(now) {
				seenNack[it.ID][it.Attempt] = true
				nacks[it.ID] = append(nacks[it.ID], c06Nack{Attempt: it.Attempt, Delta: it.NextRunAt.Sub(now).Nanoseconds()})
			}
			if it.NextRunAt.After(now) && (next.IsZero() || it.NextRunAt.Before(next)) {
				next = it.NextRunAt
			}
		}
		if len(qr.Items) == 0 {
			lr, _ := store.ListMessages(queue.MessageListRequest{Route: rt.Route, State: queue.StateLeased, Limit: 1000})
			if len(lr.Items) == 0 {
				terminated = true
				break
			}
		}
		if next.IsZero() {
			continue
		}
		clk.Set(next)
	}
	out.Rounds = rounds
	out.Terminated = terminated
	out.Drained = d.Drain(5 * time.Second)

	for _, m := range sc.Messages {
		mo := c06MsgOut{ID: m.ID}
		del.mu.Lock()
		mo.Sends = del.count[keyOf[m.ID]]
		mo.SendAt = append([]int64(nil), del.sendAt[keyOf[m.ID]]...)
		del.mu.Unlock()
		if e, ok := c06Lookup(store, rt.Route, m.ID); ok {
			mo.State = c06StateCode(e.State)
			mo.Reason = c06ReasonCode(e.DeadReason)
			mo.Attempt = e.Attempt
		}
		atts, err := store.ListAttempts(queue.AttemptListRequest{EventID: m.ID, Limit: 1000})
		if err == nil {
			for _, a := range atts.Items {
				mo.Attempts = append(mo.Attempts, c06Attempt{Attempt: a.Attempt, Status: a.StatusCode, Outcome: c06OutcomeCode(a.Outcome), Reason: c06ReasonCode(a.DeadReason), HasErr: a.Error != "", Target: a.Target})
			}
			sort.SliceStable(mo.Attempts, func(i, j int) bool { return mo.Attempts[i].Attempt < mo.Attempts[j].Attempt })
		}
		mo.Nacks = nacks[m.ID]
		out.Messages = append(out.Messages, mo)
	}
	return out
}

func dispatchLoop(in []byte) (any, error) {
	var req struct {
		Dir       string       `json:"dir"`
		Scenarios []c06Scenario `json:"scenarios"`
		Par       int          `json:"par"`
	}
	if err := json.Unmarshal(in, &req); err != nil {
		return nil, err
	}
	if req.Par <= 0 {
		req.Par = 8
	}
	outs := make([]c06LoopOut, len(req.Scenarios))
	sem := make(chan struct{}, req.Par)
	var wg sync.WaitGroup
	for i, sc := range req.Scenarios {
		wg.Add(1)
		sem <- struct{}{}
		go func(i int, sc c06Scenario) {
			defer wg.Done()
			defer func() { <-sem }()
			outs[i] = c06RunLoopScenario(req.Dir, i, sc)
		}(i, sc)
	}
	wg.Wait()
	return outs, nil
}

// ---------------------------------------------------------------------------
// real HTTPDeliverer against a loopback target: which Result kinds real failures produce

func dispatchReal(in []byte) (any, error) {
	var req struct {
		Max int `json:"max"`
	}
	if err := json.Unmarshal(in, &req); err != nil {
		return nil, err
	}
	if req.Max <= 0 {
		req.Max = 2
	}
	srv := httptest.NewServer(http.HandlerFunc(func(w http.ResponseWriter, r *http.Request) {
		switch r.URL.Path {
		case "/ok":
			w.WriteHeader(204)
		case "/e503":
			w.WriteHeader(503)
		case "/e404":
			w.WriteHeader(404)
		case "/e429":
			w.WriteHeader(429)
		case "/e503ra90":
			// answers that carry advice about when to come back: the retry schedule is the route's, not the target's
			w.Header().Set("Retry-After", "90")
			w.WriteHeader(503)
		case "/e429ra3600":
			w.Header().Set("Retry-After", "3600")
			w.WriteHeader(429)
		case "/e503radate":
			w.Header().Set("Retry-After", time.Now().Add(time.Hour).UTC().Format(http.TimeFormat))
			w.WriteHeader(503)
		case "/e500ra":
			w.Header().Set("Retry-After", "120")
			w.Header().Set("X-RateLimit-Reset", "120")
			w.WriteHeader(500)
		case "/redir":
			http.Redirect(w, r, "/ok", http.StatusFound)
		case "/hang":
			select {
			case <-r.Context().Done():
			case <-time.After(2 * time.Second):
			}
		default:
			w.WriteHeader(200)
		}
	}))
	defer srv.Close()
	// a port nobody listens on
	l, err := net.Listen("tcp", "127.0.0.1:0")
	if err != nil {
		return nil, err
	}
	deadURL := "http://" + l.Addr().String() + "/x"
	_ = l.Close()

	type rc struct {
		Name     string `json:"name"`
		Attempt  int    `json:"attempt"`
		Action   string `json:"action"`
		Reason   string `json:"reason"`
		State    int    `json:"state"`
		DeadR    int    `json:"dead_reason"`
		RecOut   int    `json:"rec_outcome"`
		RecCode  int    `json:"rec_status"`
		RecErr   bool   `json:"rec_err"`
		IsPolicy bool   `json:"is_policy"`
		NextIn   int64  `json:"next_in_ns"` // next_run_at - clock after the settlement (a retried message: its backoff)
	}
	var rows []rc
	cases := []struct {
		name      string
		url       string
		httpsOnly bool
		redirects bool
		timeout   time.Duration
		sign      string // "" | a failingSign kind: the delivery's outbound signing cannot succeed
	}{
		{"ok", srv.URL + "/ok", false, false, time.Second, ""},
		{"e503", srv.URL + "/e503", false, false, time.Second, ""},
		{"e404", srv.URL + "/e404", false, false, time.Second, ""},
		{"e429", srv.URL + "/e429", false, false, time.Second, ""},
		{"e503_retry_after_90", srv.URL + "/e503ra90", false, false, time.Second, ""},
		{"e429_retry_after_3600", srv.URL + "/e429ra3600", false, false, time.Second, ""},
		{"e503_retry_after_date", srv.URL + "/e503radate", false, false, time.Second, ""},
		{"e500_retry_after_120", srv.URL + "/e500ra", false, false, time.Second, ""},
		{"redirect_not_followed_302", srv.URL + "/redir", false, false, time.Second, ""},
		{"hang", srv.URL + "/hang", false, false, 60 * time.Millisecond, ""},
		{"refused", deadURL, false, false, time.Second, ""},
		{"policy_https_only", srv.URL + "/ok", true, false, time.Second, ""},
		// the policy denies the target AND the delivery could not be signed either: the denial decides (one attempt, policy_denied)
		{"policy_https_only_unloadable_signing_secret", srv.URL + "/ok", true, false, time.Second, "missing-ref"},
		{"policy_https_only_no_valid_secret_version", srv.URL + "/ok", true, false, time.Second, "expired"},
	}
	for _, c := range cases {
		for _, attempt := range []int{1, req.Max, req.Max + 1} {
			clk := &c06Clock{t: time.Unix(0, 1790000000000000000).UTC()}
			store := queue.NewMemoryStore(queue.WithNowFunc(clk.Now), queue.WithDeliveredRetention(time.Hour))
			id := "real-" + c.name
			if err := store.Enqueue(queue.Envelope{ID: id, Route: "/r", Target: c.url, Payload: []byte("x")}); err != nil {
				return nil, err
			}
			var env queue.Envelope
			for a := 1; a <= attempt; a++ {
				resp, err := store.Dequeue(queue.DequeueRequest{Route: "/r", Batch: 1, LeaseTTL: time.Minute})
				if err != nil || len(resp.Items) != 1 {
					return nil, fmt.Errorf("dequeue: %v", err)
				}
				env = resp.Items[0]
				if a < attempt {
					_ = store.Nack(env.LeaseID, 0)
				}
			}
			hd := dispatcher.NewHTTPDeliverer(&http.Client{}, dispatcher.EgressPolicy{HTTPSOnly: c.httpsOnly, Redirects: c.redirects})
			d := &dispatcher.PushDispatcher{Store: store, Deliverer: hd}
			tcfg := dispatcher.TargetConfig{URL: c.url, Timeout: c.timeout, Retry: dispatcher.RetryConfig{Type: "exponential", Max: req.Max, Base: time.Second, Cap: time.Minute}}
			if c.sign != "" {
				tcfg.SignHMAC = failingSign(c.sign)
			}
			act := d.VerifClassifyAndApply(c06Quiet, env, tcfg)
			r := rc{Name: c.name, Attempt: attempt, Action: act.Kind, Reason: act.Reason}
			if m, ok := c06Lookup(store, "/r", id); ok {
				r.State = c06StateCode(m.State)
				r.DeadR = c06ReasonCode(m.DeadReason)
				r.NextIn = int64(m.NextRunAt.Sub(clk.Now()))
			}
			atts, _ := store.ListAttempts(queue.AttemptListRequest{EventID: id, Limit: 10})
			if len(atts.Items) == 1 {
				r.RecOut = c06OutcomeCode(atts.Items[0].Outcome)
				r.RecCode = atts.Items[0].StatusCode
				r.RecErr = atts.Items[0].Error != ""
			} else {
				r.RecOut = -len(atts.Items) - 1
			}
			rows = append(rows, r)
		}
	}
	return rows, nil
}

// ---------------------------------------------------------------------------
// routeLeaseTTL / routeDequeueBatch / routeMutationBatch

func dispatchArith(in []byte) (any, error) {
	var req struct {
		TTL   [][]int64 `json:"ttl"`   // each: slack, batch, timeouts...
		Batch [][]int   `json:"batch"` // each: concurrency, targets
	}
	if err := json.Unmarshal(in, &req); err != nil {
		return nil, err
	}
	var ttl []int64
	for _, c := range req.TTL {
		var ts []dispatcher.TargetConfig
		for _, t := range c[2:] {
			ts = append(ts, dispatcher.TargetConfig{Timeout: time.Duration(t)})
		}
		ttl = append(ttl, int64(dispatcher.VerifRouteLeaseTTL(ts, time.Duration(c[0]), int(c[1]))))
	}
	var batch [][]int
	for _, c := range req.Batch {
		b := dispatcher.VerifRouteDequeueBatch(c[0], c[1])
		batch = append(batch, []int{b, dispatcher.VerifRouteMutationBatch(b)})
	}
	return map[string]any{"ttl": ttl, "batch": batch}, nil
}

// ---------------------------------------------------------------------------
// one micro-batch of messages on different attempt numbers through the real
// classifyDelivery + applyLeaseActions (batched lease mutations with per-action fallback)

type c06BatchMsg struct {
	Pre  int `json:"pre"`  // attempt counter before the batch dequeue
	Kind int `json:"kind"` // result kind as in dispatch-classify
	Code int `json:"code"`
}
type c06BatchCase struct {
	Backend    string        `json:"backend"`
	Max        int           `json:"max"`
	Base       int64         `json:"base"`
	Cap        int64         `json:"cap"`
	JitterBits uint64        `json:"jitter_bits"`
	Msgs       []c06BatchMsg `json:"msgs"`
	Single     bool          `json:"single"` // apply each action through applyLeaseAction instead
}

type c06PerIDDeliverer struct {
	res map[string]dispatcher.Result
}

func (p *c06PerIDDeliverer) Deliver(_ context.Context, d dispatcher.Delivery) dispatcher.Result {
	return p.res[d.ID]
}

func dispatchBatch(in []byte) (any, error) {
	var req struct {
		Dir   string         `json:"dir"`
		Cases []c06BatchCase `json:"cases"`
	}
	if err := json.Unmarshal(in, &req); err != nil {
		return nil, err
	}
	type row struct {
		Rows [][]int64 `json:"rows"` // per message: attempt, action, delay, state, dead_reason, next_delta, nrec, rec_outcome, rec_reason
		Now  int64     `json:"now"`  // store clock at the failure instant
		Err  string    `json:"err,omitempty"`
	}
	outs := make([]row, 0, len(req.Cases))
	for ci, c := range req.Cases {
		var o row
		clk := &c06Clock{t: time.Unix(0, 1790000000000000000).UTC()}
		store, closeFn, err := c06OpenStore(c.Backend, req.Dir, fmt.Sprintf("batch-%d-%d", os.Getpid(), ci), clk, true)
		if err != nil {
			return nil, err
		}
		const route = "/r"
		const target = "http://127.0.0.1:9/t"
		const park = 10 * time.Second
		t0 := clk.Now()
		del := &c06PerIDDeliverer{res: map[string]dispatcher.Result{}}
		fail := func(e error) {
			o.Err = e.Error()
		}
		for i, m := range c.Msgs {
			id := fmt.Sprintf("b%03d", i)
			del.res[id] = c06MkResult(m.Kind, m.Code)
			env := queue.Envelope{ID: id, Route: route, Target: target, Payload: []byte("p")}
			if m.Pre <= 0 {
				env.NextRunAt = t0.Add(park)
			}
			if err := store.Enqueue(env); err != nil {
				fail(err)
				break
			}
			for k := 1; k <= m.Pre; k++ {
				resp, err := store.Dequeue(queue.DequeueRequest{Route: route, Batch: 1, LeaseTTL: time.Minute})
				if err != nil || len(resp.Items) != 1 || resp.Items[0].ID != id {
					fail(fmt.Errorf("pre-aging %s failed: %v", id, err))
					break
				}
				delay := time.Duration(0)
				if k == m.Pre {
					delay = park
				}
				if err := store.Nack(resp.Items[0].LeaseID, delay); err != nil {
					fail(err)
					break
				}
			}
		}
		if o.Err == "" {
			clk.Set(t0.Add(park))
			o.Now = clk.Now().UnixNano()
			resp, err := store.Dequeue(queue.DequeueRequest{Route: route, Batch: 100, LeaseTTL: time.Minute})
			if err != nil || len(resp.Items) != len(c.Msgs) {
				fail(fmt.Errorf("batch dequeue returned %d of %d items: %v", len(resp.Items), len(c.Msgs), err))
			} else {
				tcfg := dispatcher.TargetConfig{URL: target, Timeout: time.Second,
					Retry: dispatcher.RetryConfig{Type: "exponential", Max: c.Max, Base: time.Duration(c.Base), Cap: time.Duration(c.Cap), Jitter: math.Float64frombits(c.JitterBits)}}
				d := &dispatcher.PushDispatcher{Store: store, Deliverer: del}
				var acts []dispatcher.VerifAction
				if c.Single {
					for _, env := range resp.Items {
						acts = append(acts, d.VerifClassifyAndApply(c06Quiet, env, tcfg))
					}
				} else {
					acts = d.VerifClassifyBatch(c06Quiet, resp.Items, tcfg)
				}
				byID := map[string]int{}
				for i, env := range resp.Items {
					byID[env.ID] = i
				}
				for i := range c.Msgs {
					id := fmt.Sprintf("b%03d", i)
					k := byID[id]
					env := resp.Items[k]
					act := acts[k]
					ac := int64(9)
					switch act.Kind {
					case "ack":
						ac = 0
					case "nack":
						ac = 1
					case "dead":
						ac = int64(c06ReasonCode(act.Reason))
					}
					st, dr, nd := int64(0), int64(0), int64(0)
					if msg, ok := c06Lookup(store, route, id); ok {
						st, dr, nd = int64(c06StateCode(msg.State)), int64(c06ReasonCode(msg.DeadReason)), msg.NextRunAt.Sub(clk.Now()).Nanoseconds()
					}
					atts, _ := store.ListAttempts(queue.AttemptListRequest{EventID: id, Limit: 10})
					ro, rr := int64(-1), int64(-1)
					if len(atts.Items) > 0 {
						ro, rr = int64(c06OutcomeCode(atts.Items[0].Outcome)), int64(c06ReasonCode(atts.Items[0].DeadReason))
					}
					o.Rows = append(o.Rows, []int64{int64(env.Attempt), ac, int64(act.Delay), st, dr, nd, int64(len(atts.Items)), ro, rr})
				}
			}
		}
		closeFn()
		outs = append(outs, o)
	}
	return outs, nil
}


// ---------------------------------------------------------------------------
// retry-blocks: a route with SEVERAL deliver blocks, each with its own (full, partial or absent) retry directive, through the real
// Parse + Compile + buildDispatchRoutes: the retry settings each target ends up with.  The check compares every block with the same
// block compiled alone on a route of its own - a target's retry policy is its block's directive over the defaults, whatever its
// neighbours say.

func retryBlocks(in []byte) (any, error) {
	var req struct {
		Cases []struct {
			Defaults string   `json:"defaults"` // text after "retry" in defaults { deliver { ... } }, "" = none
			Blocks   []string `json:"blocks"`   // text after "retry" per deliver block, "" = no retry directive
		} `json:"cases"`
	}
	if err := json.Unmarshal(in, &req); err != nil {
		return nil, err
	}
	type tgt struct {
		Max        int    `json:"max"`
		Base       int64  `json:"base"`
		Cap        int64  `json:"cap"`
		JitterBits uint64 `json:"jitter_bits"`
	}
	type res struct {
		OK      bool     `json:"ok"`
		Errors  []string `json:"errors,omitempty"`
		Targets []tgt    `json:"targets"`
	}
	var out []res
	for _, c := range req.Cases {
		var b strings.Builder
		b.WriteString("ingress {\n  listen \":18080\"\n}\n")
		if c.Defaults != "" {
			b.WriteString("defaults {\n  deliver {\n    retry " + c.Defaults + "\n  }\n}\n")
		}
		b.WriteString("\"/r\" {\n")
		for i, blk := range c.Blocks {
			b.WriteString(fmt.Sprintf("  deliver \"http://127.0.0.1:9/t%d\" {\n", i))
			if blk != "" {
				b.WriteString("    retry " + blk + "\n")
			}
			b.WriteString("    timeout 1s\n  }\n")
		}
		b.WriteString("}\n")
		var r res
		compiled, vr, err := c06CompileText(b.String())
		if err != nil {
			r.Errors = []string{"parse: " + err.Error()}
			out = append(out, r)
			continue
		}
		if !vr.OK {
			r.Errors = vr.Errors
			out = append(out, r)
			continue
		}
		routes := app.VerifRLBuildDispatchRoutes(compiled)
		if len(routes) != 1 {
			return nil, fmt.Errorf("expected one deliver route, got %d", len(routes))
		}
		r.OK = true
		for _, t := range routes[0].Targets {
			r.Targets = append(r.Targets, tgt{Max: t.Retry.Max, Base: int64(t.Retry.Base), Cap: int64(t.Retry.Cap), JitterBits: math.Float64bits(t.Retry.Jitter)})
		}
		out = append(out, r)
	}
	return map[string]any{"cases": out}, nil
}
