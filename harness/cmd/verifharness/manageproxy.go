//go:build verif

package main

// C14 / C20, MCP tools in Admin-proxy mode: the compiled queue backend is "memory", so the real MCP server
// (mcp.NewServer(...).Serve over stdio JSON-RPC framing) chooses the Admin-proxy path by itself and calls
// the Admin API over HTTP.  Per group:
//
//   MCP server --HTTP--> forwarder (this file, scripted faults) --HTTP--> real listener of the real admin.Server
//                                                                        (wired by app.startServers, memory store,
//                                                                         injected clock), handler wrapped by a recorder
//
// The configuration file handed to the MCP server is the group's configuration with admin_api.listen
// pointing at the forwarder (or, for the "refuse" behaviour, at a port that is bound but not listening).
// Recorded per tool call: the tool result, the white-box snapshot of the store before/after, the audit
// lines the MCP server wrote, every HTTP request the MCP server sent (as the forwarder read it) and
// every request the Admin handler served (method, path, status).

import (
	"bufio"
	"bytes"
	"encoding/json"
	"fmt"
	"io"
	"net"
	"net/http"
	"os"
	"path/filepath"
	"strconv"
	"strings"
	"sync"
	"syscall"
	"time"

	"github.com/nuetzliches/hookaido/internal/config"
	"github.com/nuetzliches/hookaido/internal/mcp"
	"github.com/nuetzliches/hookaido/internal/queue"
)

func init() {
	register("manageproxy", mpRun)
}

type mpCall struct {
	Tool   string          `json:"tool"`
	Args   json.RawMessage `json:"args"`
	Faults []string        `json:"faults"` // behaviour of the forwarder for the 1st, 2nd, ... request of this call; exhausted = pass
	Refuse bool            `json:"refuse"` // the whole call runs against a port nobody listens on (connection refused)
}

type mpGroup struct {
	Config    string    `json:"config"`     // the instance's configuration (placeholders %INGRESS% %PULL% %ADMIN% %GRPC%)
	McpConfig string    `json:"mcp_config"` // configuration file of the MCP server ("" = Config); %ADMIN% = the forwarder
	Now       int64     `json:"now"`
	Setup     []mgSetup `json:"setup"`
	Principal string    `json:"principal"`
	Role      string    `json:"role"`
	Mutations bool      `json:"mutations"`
	Allowlist []string  `json:"allowlist"` // --admin-endpoint-allowlist entries; %FWD% = forwarder host:port
	Calls     []mpCall  `json:"calls"`
}

type mpIn struct {
	Dir    string    `json:"dir"`
	Groups []mpGroup `json:"groups"`
	Par    int       `json:"par"`
}

type mpFwdReq struct {
	Behaviour string `json:"behaviour"`
	Read      bool   `json:"read"` // the forwarder read a complete request
	Method    string `json:"method"`
	Path      string `json:"path"`
	Query     string `json:"query"`
	Body      string `json:"body"`
	Reason    string `json:"reason"`
	Actor     string `json:"actor"`
	ReqID     string `json:"request_id"`
	HasActor  bool   `json:"has_actor"`
	HasReqID  bool   `json:"has_request_id"`
	Auth      string `json:"auth"`
	CType     string `json:"ctype"`
	Forwarded bool   `json:"forwarded"`
	At        int64  `json:"at"` // ms since the start of the call
}

type mpSeen struct {
	Method string `json:"method"`
	Path   string `json:"path"`
	Status int    `json:"status"`
}

type mpResp struct {
	Status   int               `json:"status"` // 200 = result, 0 = isError result, -1 = JSON-RPC error
	Fields   map[string]int    `json:"fields"`
	HasPrev  bool              `json:"has_preview"`
	Preview  bool              `json:"preview_only"`
	Body     string            `json:"body"`
	RAudit   map[string]string `json:"result_audit"` // the "audit" object of the tool result
	Items    []string          `json:"items"`        // listing tools: "id|route|target|state"
	HasItems bool              `json:"has_items"`
	Same     bool              `json:"same"`
	After    []qRow            `json:"after,omitempty"`
	T0       int64             `json:"t0"`
	T1       int64             `json:"t1"`
	Err      string            `json:"err,omitempty"`
	Audit    []string          `json:"audit"` // "result" of every audit record the MCP server appended
	AuditOK  bool              `json:"audit_fields_ok"`
	Fwd      []mpFwdReq        `json:"fwd"`
	Seen     []mpSeen          `json:"seen"`
}

type mpGroupOut struct {
	Err      string         `json:"err,omitempty"`
	Compiled pubCompiled    `json:"compiled"`
	Backend  string         `json:"mcp_backend"` // queue backend of the configuration the MCP server reads
	Setup    []qRow         `json:"setup"`
	Resps    []mpResp       `json:"resps"`
	Consts   map[string]int `json:"consts"`
}

// ---- recorder around the real admin handler ----

type mpRecorder struct {
	mu   sync.Mutex
	seen []mpSeen
	next http.Handler
}

type mpStatusWriter struct {
	http.ResponseWriter
	status int
}

func (w *mpStatusWriter) WriteHeader(code int) {
	if w.status == 0 {
		w.status = code
	}
	w.ResponseWriter.WriteHeader(code)
}

func (w *mpStatusWriter) Write(b []byte) (int, error) {
	if w.status == 0 {
		w.status = 200
	}
	return w.ResponseWriter.Write(b)
}

func (r *mpRecorder) ServeHTTP(w http.ResponseWriter, req *http.Request) {
	sw := &mpStatusWriter{ResponseWriter: w}
	r.next.ServeHTTP(sw, req)
	if sw.status == 0 {
		sw.status = 200
	}
	r.mu.Lock()
	r.seen = append(r.seen, mpSeen{Method: req.Method, Path: req.URL.Path, Status: sw.status})
	r.mu.Unlock()
}

func (r *mpRecorder) take() []mpSeen {
	r.mu.Lock()
	defer r.mu.Unlock()
	out := r.seen
	r.seen = nil
	return out
}

// ---- forwarder with scripted behaviours ----

type mpForwarder struct {
	ln      net.Listener
	target  string // host:port of the real admin listener
	timeout time.Duration
	mu      sync.Mutex
	script  []string
	idx     int
	start   time.Time
	log     []mpFwdReq
	late    sync.WaitGroup // forwards that complete after the client has given up
	conns   sync.WaitGroup
}

func mpNewForwarder(target string, timeout time.Duration) (*mpForwarder, error) {
	ln, err := net.Listen("tcp", "127.0.0.1:0")
	if err != nil {
		return nil, err
	}
	f := &mpForwarder{ln: ln, target: target, timeout: timeout}
	go f.loop()
	return f, nil
}

func (f *mpForwarder) addr() string { return f.ln.Addr().String() }

func (f *mpForwarder) arm(script []string) {
	f.mu.Lock()
	f.script, f.idx, f.log, f.start = script, 0, nil, time.Now()
	f.mu.Unlock()
}

func (f *mpForwarder) collect() []mpFwdReq {
	f.conns.Wait()
	f.late.Wait()
	f.mu.Lock()
	defer f.mu.Unlock()
	out := f.log
	f.log = nil
	return out
}

func (f *mpForwarder) loop() {
	for {
		c, err := f.ln.Accept()
		if err != nil {
			return
		}
		f.mu.Lock()
		b := "pass"
		if f.idx < len(f.script) {
			b = f.script[f.idx]
		}
		f.idx++
		slot := len(f.log)
		f.log = append(f.log, mpFwdReq{Behaviour: b, At: time.Since(f.start).Milliseconds()})
		f.mu.Unlock()
		f.conns.Add(1)
		go func() {
			defer f.conns.Done()
			f.serve(c, b, slot)
		}()
	}
}

func (f *mpForwarder) note(slot int, fn func(*mpFwdReq)) {
	f.mu.Lock()
	if slot < len(f.log) {
		fn(&f.log[slot])
	}
	f.mu.Unlock()
}

func (f *mpForwarder) forward(req *http.Request, body []byte) (*http.Response, []byte, error) {
	out, err := http.NewRequest(req.Method, "http://"+f.target+req.URL.RequestURI(), bytes.NewReader(body))
	if err != nil {
		return nil, nil, err
	}
	for k, vs := range req.Header {
		for _, v := range vs {
			out.Header.Add(k, v)
		}
	}
	cl := &http.Client{Timeout: 60 * time.Second, Transport: &http.Transport{DisableKeepAlives: true}}
	resp, err := cl.Do(out)
	if err != nil {
		return nil, nil, err
	}
	rb, _ := io.ReadAll(resp.Body)
	_ = resp.Body.Close()
	return resp, rb, nil
}

func mpWriteResponse(c net.Conn, status int, ctype string, body []byte, truncate bool) {
	var b bytes.Buffer
	fmt.Fprintf(&b, "HTTP/1.1 %d %s\r\n", status, http.StatusText(status))
	if ctype != "" {
		fmt.Fprintf(&b, "Content-Type: %s\r\n", ctype)
	}
	fmt.Fprintf(&b, "Content-Length: %d\r\nConnection: close\r\n\r\n", len(body))
	if truncate {
		b.Write(body[:len(body)/2])
	} else {
		b.Write(body)
	}
	_, _ = c.Write(b.Bytes())
}

func (f *mpForwarder) serve(c net.Conn, b string, slot int) {
	defer c.Close()
	switch b {
	case "close":
		return
	case "reset":
		if tc, ok := c.(*net.TCPConn); ok {
			_ = tc.SetLinger(0)
		}
		return
	}
	_ = c.SetReadDeadline(time.Now().Add(30 * time.Second))
	br := bufio.NewReader(c)
	req, err := http.ReadRequest(br)
	if err != nil {
		return
	}
	body, _ := io.ReadAll(req.Body)
	f.note(slot, func(r *mpFwdReq) {
		r.Read = true
		r.Method, r.Path, r.Query, r.Body = req.Method, req.URL.Path, req.URL.RawQuery, string(body)
		r.Reason = req.Header.Get("X-Hookaido-Audit-Reason")
		r.Actor = req.Header.Get("X-Hookaido-Audit-Actor")
		r.ReqID = req.Header.Get("X-Request-ID")
		_, r.HasActor = req.Header["X-Hookaido-Audit-Actor"]
		_, r.HasReqID = req.Header["X-Request-Id"]
		r.Auth = req.Header.Get("Authorization")
		r.CType = req.Header.Get("Content-Type")
	})
	switch {
	case b == "pass" || b == "lost" || b == "truncated":
		resp, rb, err := f.forward(req, body)
		if err != nil {
			return
		}
		f.note(slot, func(r *mpFwdReq) { r.Forwarded = true })
		if b == "lost" {
			return // the handler has finished and answered; the answer never reaches the MCP server
		}
		mpWriteResponse(c, resp.StatusCode, resp.Header.Get("Content-Type"), rb, b == "truncated" && len(rb) > 1)
	case strings.HasPrefix(b, "s"):
		st, _ := strconv.Atoi(b[1:])
		mpWriteResponse(c, st, "application/json", []byte(`{"code":"store_unavailable","detail":"injected by the verification forwarder"}`+"\n"), false)
	case b == "delay_drop":
		time.Sleep(f.timeout + 400*time.Millisecond)
	case b == "delay_late":
		// hold the request until the MCP side has given up, then let it through
		f.late.Add(1)
		defer f.late.Done()
		time.Sleep(f.timeout + 400*time.Millisecond)
		if _, _, err := f.forward(req, body); err == nil {
			f.note(slot, func(r *mpFwdReq) { r.Forwarded = true })
		}
	}
}

// a TCP port that is bound but not listening: connecting to it is refused, and nobody else can take it meanwhile
func mpDeadPort() (string, func(), error) {
	fd, err := syscall.Socket(syscall.AF_INET, syscall.SOCK_STREAM, 0)
	if err != nil {
		return "", nil, err
	}
	sa := &syscall.SockaddrInet4{Port: 0, Addr: [4]byte{127, 0, 0, 1}}
	if err := syscall.Bind(fd, sa); err != nil {
		_ = syscall.Close(fd)
		return "", nil, err
	}
	got, err := syscall.Getsockname(fd)
	if err != nil {
		_ = syscall.Close(fd)
		return "", nil, err
	}
	port := got.(*syscall.SockaddrInet4).Port
	return fmt.Sprintf("127.0.0.1:%d", port), func() { _ = syscall.Close(fd) }, nil
}

func mpNewServer(in io.Reader, out io.Writer, audit io.Writer, cfgPath, dbPath, pidPath string, g mpGroup, allow []string) *mcp.Server {
	opts := []mcp.Option{
		mcp.WithRole(mcp.Role(g.Role)),
		mcp.WithMutationsEnabled(g.Mutations),
		mcp.WithRuntimeControlEnabled(false),
		mcp.WithPrincipal(g.Principal),
		mcp.WithAuditWriter(audit),
		mcp.WithRuntimeControlPIDFile(pidPath),
		mcp.WithRuntimeControlRunBinary("/nonexistent/verif-no-binary"),
	}
	if len(allow) > 0 {
		opts = append(opts, mcp.WithAdminProxyEndpointAllowlist(allow))
	}
	return mcp.NewServer(in, out, cfgPath, dbPath, opts...)
}

func mpWriteConfig(path, text string, addrs []string, admin string) error {
	for i, ph := range []string{"%INGRESS%", "%PULL%", "%ADMIN%", "%GRPC%"} {
		v := addrs[i]
		if ph == "%ADMIN%" {
			v = admin
		}
		text = strings.ReplaceAll(text, ph, v)
	}
	return os.WriteFile(path, []byte(text), 0o600)
}

func mpGroupRun(dir string, g mpGroup) (out mpGroupOut) {
	out.Consts = map[string]int{
		"admin_proxy_retry_max_get":   mcp.VerifAdminProxyRetryMaxGET,
		"admin_proxy_retry_backoff_ms": int(mcp.VerifAdminProxyRetryBackoff / time.Millisecond),
		"admin_proxy_timeout_ms":      int(mcp.VerifDefaultAdminProxyTimeout / time.Millisecond),
		"mcp_max_list_limit":          mcp.VerifMaxListLimit,
	}
	if err := os.MkdirAll(dir, 0o755); err != nil {
		out.Err = err.Error()
		return
	}
	clk := &pubClock{}
	clk.set(g.Now)
	var snap pubSnapshotter
	var raw queue.Store
	compiled, addrs, run, _, err := pubStartWithRetry(g.Config, func(c config.Compiled) (queue.Store, error) {
		s, sn, _, err := pubOpenStore("memory", dir, c, clk)
		if err != nil {
			return nil, err
		}
		raw, snap = s, sn
		return s, nil
	})
	if err != nil {
		out.Err = err.Error()
		return
	}
	defer run.Shutdown()
	out.Compiled = pubDumpCompiled(compiled)
	hs := run.HTTP[addrs[2]]
	if hs == nil {
		out.Err = "admin http.Server not found among the servers startServers built"
		return
	}
	rec := &mpRecorder{next: hs.Handler}
	hs.Handler = rec

	if err := mgSetupStore(raw, g.Setup); err != nil {
		out.Err = err.Error()
		return
	}
	envs, err := snap.snapshot()
	if err != nil {
		out.Err = err.Error()
		return
	}
	prev := mgRows(envs)
	out.Setup = prev

	fwd, err := mpNewForwarder(addrs[2], mcp.VerifDefaultAdminProxyTimeout)
	if err != nil {
		out.Err = "forwarder: " + err.Error()
		return
	}
	defer fwd.ln.Close()
	dead, closeDead, err := mpDeadPort()
	if err != nil {
		out.Err = "dead port: " + err.Error()
		return
	}
	defer closeDead()
	mcpText := g.McpConfig
	if mcpText == "" {
		mcpText = g.Config
	}
	cfgLive := filepath.Join(dir, "Hookaidofile")
	cfgDead := filepath.Join(dir, "Hookaidofile.refused")
	if err := mpWriteConfig(cfgLive, mcpText, addrs, fwd.addr()); err != nil {
		out.Err = err.Error()
		return
	}
	if err := mpWriteConfig(cfgDead, mcpText, addrs, dead); err != nil {
		out.Err = err.Error()
		return
	}
	if data, err := os.ReadFile(cfgLive); err == nil {
		if cfg, err := config.Parse(data); err == nil {
			if cc, res := config.Compile(cfg); res.OK && len(cc.Routes) > 0 {
				out.Backend = cc.Routes[0].QueueBackend
			}
		}
	}
	var allowLive, allowDead []string
	for _, a := range g.Allowlist {
		allowLive = append(allowLive, strings.ReplaceAll(a, "%FWD%", fwd.addr()))
		allowDead = append(allowDead, strings.ReplaceAll(a, "%FWD%", dead))
	}
	dbPath := filepath.Join(dir, "absent.db") // never created: direct mode would fail on it

	for k, call := range g.Calls {
		clk.set(g.Now + int64(k+1)*1000000)
		var resp mpResp
		var args any
		if err := json.Unmarshal(call.Args, &args); err != nil {
			resp.Err = "args: " + err.Error()
			out.Resps = append(out.Resps, resp)
			continue
		}
		cfgPath, allow := cfgLive, allowLive
		if call.Refuse {
			cfgPath, allow = cfgDead, allowDead
		}
		rec.take()
		fwd.arm(call.Faults)
		resp.T0 = time.Now().UnixNano()
		var auditBuf bytes.Buffer
		frames, err := rpcCall(func(i io.Reader, o io.Writer) *mcp.Server {
			return mpNewServer(i, o, &auditBuf, cfgPath, dbPath, filepath.Join(dir, "pid"), g, allow)
		}, []any{map[string]any{"jsonrpc": "2.0", "id": 7, "method": "tools/call",
			"params": map[string]any{"name": call.Tool, "arguments": args}}})
		resp.T1 = time.Now().UnixNano()
		resp.Fwd = fwd.collect()
		resp.Seen = rec.take()
		resp.AuditOK = true
		for _, line := range strings.Split(strings.TrimSpace(auditBuf.String()), "\n") {
			if strings.TrimSpace(line) == "" {
				continue
			}
			var recd map[string]any
			if json.Unmarshal([]byte(line), &recd) != nil {
				resp.Audit = append(resp.Audit, "?")
				resp.AuditOK = false
				continue
			}
			res, _ := recd["result"].(string)
			resp.Audit = append(resp.Audit, res)
			if t, _ := recd["tool"].(string); t != call.Tool {
				resp.AuditOK = false
			}
			if p, _ := recd["principal"].(string); p != strings.TrimSpace(g.Principal) {
				resp.AuditOK = false
			}
		}
		if err != nil || len(frames) != 1 {
			resp.Err = fmt.Sprintf("rpc: %v (%d frames)", err, len(frames))
			out.Resps = append(out.Resps, resp)
			continue
		}
		if _, bad := frames[0]["error"]; bad {
			resp.Status = -1
			b, _ := json.Marshal(frames[0]["error"])
			resp.Body = mgHead(b)
		} else if res, ok := frames[0]["result"].(map[string]any); ok {
			isErr, _ := res["isError"].(bool)
			if isErr {
				resp.Status = 0
				if cc, ok := res["content"].([]any); ok && len(cc) > 0 {
					if cm, ok := cc[0].(map[string]any); ok {
						t, _ := cm["text"].(string)
						resp.Body = mgHead([]byte(t))
					}
				}
			} else {
				resp.Status = 200
				b, _ := json.Marshal(res["structuredContent"])
				resp.Body = mgHead(b)
				var mr mgResp
				mgDecode(b, &mr)
				resp.Fields, resp.HasPrev, resp.Preview = mr.Fields, mr.HasPrev, mr.Preview
				if sc, ok := res["structuredContent"].(map[string]any); ok {
					if am, ok := sc["audit"].(map[string]any); ok {
						resp.RAudit = map[string]string{}
						for ak, av := range am {
							if s, ok := av.(string); ok {
								resp.RAudit[ak] = s
							}
						}
					}
					if items, ok := sc["items"].([]any); ok {
						resp.HasItems = true
						for _, it := range items {
							if im, ok := it.(map[string]any); ok {
								id, _ := im["id"].(string)
								rt, _ := im["route"].(string)
								tg, _ := im["target"].(string)
								st, _ := im["state"].(string)
								resp.Items = append(resp.Items, id+"|"+rt+"|"+tg+"|"+st)
							}
						}
					}
				}
			}
		}
		envs, err := snap.snapshot()
		if err != nil {
			resp.Err = err.Error()
		}
		rows := mgRows(envs)
		if mgSameRows(rows, prev) {
			resp.Same = true
		} else {
			resp.After = rows
			prev = rows
		}
		out.Resps = append(out.Resps, resp)
	}
	return
}

func mpRun(in []byte) (any, error) {
	var min mpIn
	if err := json.Unmarshal(in, &min); err != nil {
		return nil, err
	}
	par := min.Par
	if par <= 0 {
		par = 8
	}
	outs := make([]mpGroupOut, len(min.Groups))
	sem := make(chan struct{}, par)
	var wg sync.WaitGroup
	for i := range min.Groups {
		wg.Add(1)
		sem <- struct{}{}
		go func(i int) {
			defer wg.Done()
			defer func() { <-sem }()
			defer func() {
				if r := recover(); r != nil {
					outs[i].Err = fmt.Sprintf("panic: %v", r)
				}
			}()
			dir := filepath.Join(min.Dir, fmt.Sprintf("mp%d", i))
			outs[i] = mpGroupRun(dir, min.Groups[i])
			_ = os.RemoveAll(dir)
		}(i)
	}
	wg.Wait()
	return outs, nil
}
