//go:build verif

package main

// attempt-log: the delivery-attempt log of the queue.Store contract (RecordAttempt / ListAttempts) on the memory and the SQLite
// store, driven by the same operation sequences as Model/Attempts.v (C13).  Strings are numbers on the wire (0 = empty string):
// id "a%012d", event "evt_%d", route "/r%d", target "t%d", outcome 0 "" 1 retry 2 acked 3 dead.  `gen` is the bulk generator
// gen_att of the model (same arithmetic).

import (
	"encoding/json"
	"fmt"
	"path/filepath"
	"strconv"
	"strings"
	"sync"
	"time"

	"github.com/nuetzliches/hookaido/internal/queue"
)

func init() { register("attempt-log", attemptLog) }

type alAtt struct {
	ID      int64 `json:"id"`
	Event   int64 `json:"event"`
	Route   int64 `json:"route"`
	Target  int64 `json:"target"`
	Attempt int   `json:"attempt"`
	Status  int   `json:"status"`
	Outcome int   `json:"outcome"`
	Created int64 `json:"created"`
}

type alList struct {
	Route   int64  `json:"route"`
	Target  int64  `json:"target"`
	Event   int64  `json:"event"`
	Outcome int    `json:"outcome"`
	Limit   int    `json:"limit"`
	Before  *int64 `json:"before"`
}

type alOp struct {
	Rec  *alAtt   `json:"rec,omitempty"`
	Gen  *[2]int64 `json:"gen,omitempty"`
	List *alList  `json:"list,omitempty"`
}

var alOutcomes = []queue.AttemptOutcome{"", queue.AttemptOutcomeRetry, queue.AttemptOutcomeAcked, queue.AttemptOutcomeDead}

func alName(prefix string, n int64) string {
	if n == 0 {
		return ""
	}
	return prefix + strconv.FormatInt(n, 10)
}

func alNum(prefix, s string) int64 {
	if s == "" {
		return 0
	}
	n, err := strconv.ParseInt(strings.TrimPrefix(s, prefix), 10, 64)
	if err != nil {
		return -1
	}
	return n
}

func alAttempt(a alAtt) queue.DeliveryAttempt {
	id := ""
	if a.ID != 0 {
		id = fmt.Sprintf("a%012d", a.ID)
	}
	return queue.DeliveryAttempt{ID: id, EventID: alName("evt_", a.Event), Route: alName("/r", a.Route), Target: alName("t", a.Target),
		Attempt: a.Attempt, StatusCode: a.Status, Outcome: alOutcomes[a.Outcome], CreatedAt: time.Unix(0, a.Created).UTC()}
}

// gen_att of Model/Attempts.v
func alGen(i int64) alAtt {
	st := 0
	switch i % 3 {
	case 0:
		st = 200
	case 1:
		st = 503
	}
	return alAtt{ID: i + 1, Event: 100 + i%40, Route: 1 + (i/7)%3, Target: 10 + i%2, Attempt: int(1 + i%5), Status: st,
		Outcome: int(i % 4), Created: 1700000000000000000 + (i/2)*1000000}
}

func alOutcomeNum(o queue.AttemptOutcome) int64 {
	for i, x := range alOutcomes {
		if x == o {
			return int64(i)
		}
	}
	return -1
}

func attemptLog(in []byte) (any, error) {
	var req struct {
		Dir      string   `json:"dir"`
		Backends []string `json:"backends"`
		Cases    []struct {
			Ops []alOp `json:"ops"`
		} `json:"cases"`
	}
	if err := json.Unmarshal(in, &req); err != nil {
		return nil, err
	}
	type caseOut struct {
		Backend string    `json:"backend"`
		Results  [][]int64 `json:"results"`
		Refusals []string  `json:"refusals,omitempty"`
		Err      string    `json:"err,omitempty"`
	}
	out := make([][]caseOut, len(req.Cases))
	var wg sync.WaitGroup
	sem := make(chan struct{}, 8)
	for ci := range req.Cases {
		out[ci] = make([]caseOut, len(req.Backends))
		for bi, backend := range req.Backends {
			wg.Add(1)
			go func(ci, bi int, backend string) {
				defer wg.Done()
				sem <- struct{}{}
				defer func() { <-sem }()
				co := caseOut{Backend: backend, Results: [][]int64{}}
				clk := &clock{}
				clk.set(1800000000 * int64(time.Second))
				st, closeFn, _, err := openStore(backend, qCfg{}, clk, filepath.Join(req.Dir, "al-"+backend+"-"+itoa(ci)+".db"))
				if err != nil {
					co.Err = err.Error()
					out[ci][bi] = co
					return
				}
				defer closeFn()
				for _, op := range req.Cases[ci].Ops {
					switch {
					case op.Rec != nil:
						if err := st.RecordAttempt(alAttempt(*op.Rec)); err != nil {
							// a refused attempt is an observable of the run: the row [-1] (the text of the error differs by backend)
							co.Results = append(co.Results, []int64{-1})
							co.Refusals = append(co.Refusals, err.Error())
						}
					case op.Gen != nil:
						for i := op.Gen[0]; i < op.Gen[0]+op.Gen[1]; i++ {
							if err := st.RecordAttempt(alAttempt(alGen(i))); err != nil {
								co.Err = "RecordAttempt: " + err.Error()
								break
							}
						}
					case op.List != nil:
						lr := queue.AttemptListRequest{Route: alName("/r", op.List.Route), Target: alName("t", op.List.Target),
							EventID: alName("evt_", op.List.Event), Outcome: alOutcomes[op.List.Outcome], Limit: op.List.Limit}
						if op.List.Before != nil {
							lr.Before = time.Unix(0, *op.List.Before).UTC()
						}
						resp, err := st.ListAttempts(lr)
						if err != nil {
							co.Err = "ListAttempts: " + err.Error()
						}
						row := make([]int64, 0, 7*len(resp.Items))
						for _, a := range resp.Items {
							row = append(row, alNum("evt_", a.EventID), alNum("/r", a.Route), alNum("t", a.Target), int64(a.Attempt),
								int64(a.StatusCode), alOutcomeNum(a.Outcome), a.CreatedAt.UnixNano())
						}
						co.Results = append(co.Results, row)
					}
				}
				out[ci][bi] = co
			}(ci, bi, backend)
		}
	}
	wg.Wait()
	return map[string]any{"cases": out}, nil
}
