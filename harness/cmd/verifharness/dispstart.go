//go:build verif

package main

// dispatch-start: what does the REAL PushDispatcher.Start ask the store for?  A recording store notes (batch, lease TTL) of every Dequeue
// per route; the driver compares them with routeDequeueBatch / routeLeaseTTL (whose arithmetic is compared with the Coq model elsewhere):
// the lease of every message dequeued together must cover the whole micro-batch (C06: retries are scheduled by the dispatcher, a lease
// that runs out under a healthy dispatcher turns a nack-with-delay into an immediate requeue).

import (
	"fmt"
	"context"
	"encoding/json"
	"io"
	"log/slog"
	"sort"
	"sync"
	"time"

	"github.com/nuetzliches/hookaido/internal/dispatcher"
	"github.com/nuetzliches/hookaido/internal/queue"
)

func init() { register("dispatch-start", dispatchStart) }

type dsRoute struct {
	TimeoutsNs  []int64 `json:"timeouts_ns"`
	Concurrency int     `json:"concurrency"`
}

type dsSeen struct {
	Batch int   `json:"batch"`
	TTLNs int64 `json:"ttl_ns"`
}

type dsRecStore struct {
	queue.Store
	mu   sync.Mutex
	seen map[string]map[dsSeen]bool
}

func (s *dsRecStore) Dequeue(req queue.DequeueRequest) (queue.DequeueResponse, error) {
	s.mu.Lock()
	if s.seen[req.Route] == nil {
		s.seen[req.Route] = map[dsSeen]bool{}
	}
	s.seen[req.Route][dsSeen{Batch: req.Batch, TTLNs: int64(req.LeaseTTL)}] = true
	s.mu.Unlock()
	return s.Store.Dequeue(req)
}

type dsDeliverer struct{}

func (dsDeliverer) Deliver(ctx context.Context, d dispatcher.Delivery) dispatcher.Result {
	return dispatcher.Result{StatusCode: 200}
}

func dispatchStart(in []byte) (any, error) {
	var req struct {
		SlackNs int64     `json:"slack_ns"`
		Routes  []dsRoute `json:"routes"`
	}
	if err := json.Unmarshal(in, &req); err != nil {
		return nil, err
	}
	st := &dsRecStore{Store: queue.NewMemoryStore(), seen: map[string]map[dsSeen]bool{}}
	var routes []dispatcher.RouteConfig
	for i, r := range req.Routes {
		rc := dispatcher.RouteConfig{Route: "/r" + itoa(i), Concurrency: r.Concurrency}
		for j, t := range r.TimeoutsNs {
			rc.Targets = append(rc.Targets, dispatcher.TargetConfig{URL: "http://t" + itoa(j) + ".invalid/h", Timeout: time.Duration(t),
				Retry: dispatcher.RetryConfig{Type: "exponential", Max: 1, Base: time.Second, Cap: time.Second}})
		}
		routes = append(routes, rc)
	}
	d := &dispatcher.PushDispatcher{Store: st, Deliverer: dsDeliverer{}, Routes: routes,
		Logger: slog.New(slog.NewTextHandler(io.Discard, nil)), MaxWait: 5 * time.Millisecond, LeaseSlack: time.Duration(req.SlackNs)}
	d.Start()
	deadline := time.Now().Add(3 * time.Second)
	for time.Now().Before(deadline) {
		st.mu.Lock()
		n := len(st.seen)
		st.mu.Unlock()
		if n >= len(routes) {
			break
		}
		time.Sleep(5 * time.Millisecond)
	}
	d.Drain(2 * time.Second)
	out := make([][]dsSeen, len(routes))
	for i := range routes {
		st.mu.Lock()
		for k := range st.seen["/r"+itoa(i)] {
			out[i] = append(out[i], k)
		}
		st.mu.Unlock()
		sort.Slice(out[i], func(a, b int) bool { return out[i][a].Batch < out[i][b].Batch || (out[i][a].Batch == out[i][b].Batch && out[i][a].TTLNs < out[i][b].TTLNs) })
		// the pure functions, for the comparison
	}
	exp := make([]dsSeen, len(routes))
	for i, r := range req.Routes {
		b := dispatcher.VerifRouteDequeueBatch(maxInt(r.Concurrency, 1), len(r.TimeoutsNs))
		exp[i] = dsSeen{Batch: b, TTLNs: int64(dispatcher.VerifRouteLeaseTTL(routes[i].Targets, leaseSlackOrDefault(req.SlackNs), b))}
	}
	return map[string]any{"seen": out, "by_functions": exp}, nil
}

func leaseSlackOrDefault(ns int64) time.Duration {
	if ns <= 0 {
		return 30 * time.Second
	}
	return time.Duration(ns)
}

func maxInt(a, b int) int {
	if a > b {
		return a
	}
	return b
}

func itoa(i int) string { return fmt.Sprintf("%02d", i) }
