//go:build verif

package main

// C07 driver.  `fidelity`: end to end with the real servers (wired by app.startServers through
// the shim app.VerifC15Start): raw HTTP requests over loopback -> ingress.Server (a recording
// middleware snapshots r.Header of the very request object first) -> memory / SQLite store ->
//   (a) Pull API dequeue over HTTP (payload_b64), (b) worker gRPC Dequeue over a real gRPC
//   connection, (c) real PushDispatcher + HTTPDeliverer to a loopback target that records body
//   and headers (first attempt of every message is answered 503, so every message is also
//   redelivered), (d) Admin GET /messages?include_payload=1&include_headers=1,
// repeated after nack and - SQLite - after closing and reopening the database file.
// Admin publish feeds the same consumers.  `fidelity-funcs`: the Go functions the byte-level
// models mirror, applied to generated strings.

import (
	"bufio"
	"bytes"
	"context"
	"encoding/base64"
	"encoding/json"
	"fmt"
	"io"
	"net"
	"net/http"
	"os"
	"path/filepath"
	"sort"
	"strconv"
	"strings"
	"sync"
	"time"

	"github.com/nuetzliches/hookaido/internal/app"
	"github.com/nuetzliches/hookaido/internal/config"
	"github.com/nuetzliches/hookaido/internal/httpheader"
	"github.com/nuetzliches/hookaido/internal/ingress"
	"github.com/nuetzliches/hookaido/internal/queue"
	workerapipb "github.com/nuetzliches/hookaido/internal/workerapi/proto"
	"google.golang.org/grpc"
	"google.golang.org/grpc/credentials/insecure"
	"google.golang.org/grpc/metadata"
	"google.golang.org/protobuf/types/known/durationpb"
)

func init() {
	register("fidelity", fidelityRun)
	register("fidelity-funcs", fidelityFuncs)
}

type fidReq struct {
	Route   string      `json:"route"`   // request path
	Query   string      `json:"query"`   // appended to the path on the request line ("?a=1"), "" = none
	Headers [][2]string `json:"headers"` // raw header lines, values base64 (arbitrary bytes)
	Names64 bool        `json:"names64"`
	Body    string      `json:"body_b64"`
	Chunked bool        `json:"chunked"` // no Content-Length: Transfer-Encoding: chunked, the body in several chunks
	Seq     string      `json:"seq"`
}

type fidPub struct {
	Body string `json:"body"` // raw JSON request body for POST /messages/publish
	Seq  string `json:"seq"`
}

type fidForward struct {
	Status      int         `json:"status"`
	RespHeaders [][2]string `json:"resp_headers"`
}

type fidCase struct {
	Config   string      `json:"config"` // placeholders %INGRESS% %PULL% %ADMIN% %GRPC% %TARGET% %AUTH%
	Backend  string      `json:"backend"`
	Forward  *fidForward `json:"forward"`
	Requests []fidReq    `json:"requests"`
	Publish  []fidPub    `json:"publish"`
	PullPath string      `json:"pull_path"` // e.g. /pull/p
	Reopen   bool        `json:"reopen"`
	Detour   string      `json:"detour"` // "" | cancel-resume | cancel-requeue | ids: an operator detour between acceptance and consumption
}

type fidIn struct {
	Dir   string    `json:"dir"`
	Cases []fidCase `json:"cases"`
	Par   int       `json:"par"`
}

type fidHdr struct {
	K string   `json:"k"`
	V []string `json:"v"` // base64 of each value
}

type fidObs struct {
	Where   string            `json:"where"`
	ID      string            `json:"id"`
	Payload string            `json:"payload_b64"` // as the consumer got it (string for JSON paths, base64 of the bytes for gRPC/push)
	Headers map[string]string `json:"headers,omitempty"`
	HList   []fidHdr          `json:"hlist,omitempty"` // push target: full received header
	Attempt int               `json:"attempt"`
}

type fidReqOut struct {
	Status   int      `json:"status"`
	Snapshot []fidHdr `json:"snapshot"`
	IDs      []string `json:"ids"`
	Seen     bool     `json:"seen"`
}

type fidPubOut struct {
	Status int      `json:"status"`
	Code   string   `json:"code"`
	IDs    []string `json:"ids"`
}

type fidCaseOut struct {
	Err      string      `json:"err,omitempty"`
	Requests []fidReqOut `json:"requests"`
	Publish  []fidPubOut `json:"publish"`
	Obs      []fidObs    `json:"obs"`
	Stored   []pubRow    `json:"stored"` // white-box snapshot right after the ingress/publish phase
	Notes    []string    `json:"notes,omitempty"`
}


type fidRecorder struct {
	mu   sync.Mutex
	next http.Handler
	last []fidHdr
	seen bool
}

func (r *fidRecorder) ServeHTTP(w http.ResponseWriter, req *http.Request) {
	snap := make([]fidHdr, 0, len(req.Header))
	for k, vs := range req.Header {
		h := fidHdr{K: b64([]byte(k))}
		for _, v := range vs {
			h.V = append(h.V, b64([]byte(v)))
		}
		snap = append(snap, h)
	}
	sort.Slice(snap, func(i, j int) bool { return snap[i].K < snap[j].K })
	r.mu.Lock()
	r.last, r.seen = snap, true
	r.mu.Unlock()
	r.next.ServeHTTP(w, req)
}

type fidTarget struct {
	mu       sync.Mutex
	attempts map[string]int
	obs      []fidObs
}

func (t *fidTarget) ServeHTTP(w http.ResponseWriter, req *http.Request) {
	body, _ := io.ReadAll(req.Body)
	seq := req.Header.Get("X-Verif-Seq")
	t.mu.Lock()
	t.attempts[seq]++
	n := t.attempts[seq]
	o := fidObs{Where: "push", ID: seq, Payload: b64(body), Attempt: n}
	for k, vs := range req.Header {
		h := fidHdr{K: b64([]byte(k))}
		for _, v := range vs {
			h.V = append(h.V, b64([]byte(v)))
		}
		o.HList = append(o.HList, h)
	}
	sort.Slice(o.HList, func(i, j int) bool { return o.HList[i].K < o.HList[j].K })
	t.obs = append(t.obs, o)
	t.mu.Unlock()
	if n == 1 {
		w.WriteHeader(http.StatusServiceUnavailable)
		return
	}
	w.WriteHeader(http.StatusOK)
}

func fidRawRequest(addr string, rq fidReq) (int, error) {
	conn, err := net.DialTimeout("tcp", addr, 5*time.Second)
	if err != nil {
		return 0, err
	}
	defer conn.Close()
	_ = conn.SetDeadline(time.Now().Add(20 * time.Second))
	body, err := base64.StdEncoding.DecodeString(rq.Body)
	if err != nil {
		return 0, err
	}
	var buf bytes.Buffer
	if rq.Chunked {
		fmt.Fprintf(&buf, "POST %s HTTP/1.1\r\nHost: verif.test\r\nTransfer-Encoding: chunked\r\nConnection: close\r\n", rq.Route+rq.Query)
	} else {
		fmt.Fprintf(&buf, "POST %s HTTP/1.1\r\nHost: verif.test\r\nContent-Length: %d\r\nConnection: close\r\n", rq.Route+rq.Query, len(body))
	}
	for _, h := range rq.Headers {
		name := h[0]
		if rq.Names64 {
			nb, _ := base64.StdEncoding.DecodeString(h[0])
			name = string(nb)
		}
		val, err := base64.StdEncoding.DecodeString(h[1])
		if err != nil {
			return 0, err
		}
		buf.WriteString(name)
		buf.WriteString(": ")
		buf.Write(val)
		buf.WriteString("\r\n")
	}
	buf.WriteString("\r\n")
	if rq.Chunked {
		for i := 0; i < len(body); i += 997 {
			j := i + 997
			if j > len(body) {
				j = len(body)
			}
			fmt.Fprintf(&buf, "%x\r\n", j-i)
			buf.Write(body[i:j])
			buf.WriteString("\r\n")
		}
		buf.WriteString("0\r\n\r\n")
	} else {
		buf.Write(body)
	}
	if _, err := conn.Write(buf.Bytes()); err != nil {
		// the server may have answered (413) and closed before everything was written
		_ = err
	}
	resp, err := http.ReadResponse(bufio.NewReader(conn), nil)
	if err != nil {
		return 0, err
	}
	_, _ = io.Copy(io.Discard, resp.Body)
	_ = resp.Body.Close()
	return resp.StatusCode, nil
}

func fidIDs(sn pubSnapshotter) (map[string]bool, []queue.Envelope, error) {
	envs, err := sn.snapshot()
	if err != nil {
		return nil, nil, err
	}
	out := map[string]bool{}
	for _, e := range envs {
		out[e.ID] = true
	}
	return out, envs, nil
}

type fidRig struct {
	compiled config.Compiled
	addrs    []string
	run      *app.VerifC15Running
	store    queue.Store
	snap     pubSnapshotter
	closeFn  func()
	rec      *fidRecorder
	direct   bool // the wrapped handler is the *ingress.Server itself
}

func fidStart(text, backend, dir string, wipe bool) (*fidRig, error) {
	rig := &fidRig{}
	compiled, addrs, run, _, err := pubStartWithRetry(text, func(c config.Compiled) (queue.Store, error) {
		if rig.closeFn != nil {
			rig.closeFn()
			if wipe {
				_ = os.RemoveAll(dir)
			}
		}
		s, sn, cl, err := fidOpenStore(backend, dir, c)
		if err != nil {
			return nil, err
		}
		rig.store, rig.snap, rig.closeFn = s, sn, cl
		return s, nil
	})
	if err != nil {
		return nil, err
	}
	rig.compiled, rig.addrs, rig.run = compiled, addrs, run
	ing := run.HTTP[compiled.Ingress.Listen]
	if ing == nil {
		return nil, fmt.Errorf("ingress server not found among started servers")
	}
	_, rig.direct = unwrapIngress(ing.Handler)
	rig.rec = &fidRecorder{next: ing.Handler}
	ing.Handler = rig.rec
	return rig, nil
}

// unwrapIngress only documents what is being wrapped: the handler startServers installed is
// the *ingress.Server itself (tracing / access log are off in the generated configurations).
func unwrapIngress(h http.Handler) (*ingress.Server, bool) {
	s, ok := h.(*ingress.Server)
	return s, ok
}

// real clock here: the dispatcher and the lease TTLs run in real time
func fidOpenStore(backend, dir string, c config.Compiled) (queue.Store, pubSnapshotter, func(), error) {
	switch backend {
	case "memory":
		s := queue.NewMemoryStore(
			queue.WithQueueLimits(c.QueueLimits.MaxDepth, c.QueueLimits.DropPolicy),
			queue.WithQueueRetention(c.QueueRetention.MaxAge, c.QueueRetention.PruneInterval),
			queue.WithDeliveredRetention(c.DeliveredRetention.MaxAge),
			queue.WithDLQRetention(c.DLQRetention.MaxAge, c.DLQRetention.MaxDepth),
		)
		return s, pubMemSnap{s}, func() {}, nil
	case "sqlite":
		if err := os.MkdirAll(dir, 0o755); err != nil {
			return nil, nil, nil, err
		}
		s, err := queue.NewSQLiteStore(filepath.Join(dir, "q.db"),
			queue.WithSQLiteQueueLimits(c.QueueLimits.MaxDepth, c.QueueLimits.DropPolicy),
			queue.WithSQLiteRetention(c.QueueRetention.MaxAge, c.QueueRetention.PruneInterval),
			queue.WithSQLiteDeliveredRetention(c.DeliveredRetention.MaxAge),
			queue.WithSQLiteDLQRetention(c.DLQRetention.MaxAge, c.DLQRetention.MaxDepth),
		)
		if err != nil {
			return nil, nil, nil, err
		}
		return s, pubSqlSnap{s}, func() { _ = s.Close() }, nil
	}
	return nil, nil, nil, fmt.Errorf("backend %q", backend)
}

func (rig *fidRig) stop() {
	if rig.run != nil {
		rig.run.Shutdown()
	}
	if rig.closeFn != nil {
		rig.closeFn()
	}
}

func (rig *fidRig) adminList(client *http.Client, where string) ([]fidObs, error) {
	base := "http://" + rig.addrs[2] + strings.TrimRight(rig.compiled.AdminAPI.Prefix, "/")
	resp, err := client.Get(base + "/messages?limit=1000&include_payload=1&include_headers=1")
	if err != nil {
		return nil, err
	}
	defer resp.Body.Close()
	b, _ := io.ReadAll(resp.Body)
	if resp.StatusCode != 200 {
		return nil, fmt.Errorf("GET /messages: %d %s", resp.StatusCode, string(b))
	}
	var lst struct {
		Items []struct {
			ID      string            `json:"id"`
			Payload string            `json:"payload_b64"`
			Headers map[string]string `json:"headers"`
		} `json:"items"`
	}
	if err := json.Unmarshal(b, &lst); err != nil {
		return nil, err
	}
	var out []fidObs
	for _, it := range lst.Items {
		out = append(out, fidObs{Where: where, ID: it.ID, Payload: it.Payload, Headers: it.Headers})
	}
	return out, nil
}

type fidLease struct{ id, lease string }

func (rig *fidRig) pullHTTP(client *http.Client, pullPath, where string) ([]fidObs, []fidLease, error) {
	base := "http://" + rig.addrs[1] + strings.TrimRight(rig.compiled.PullAPI.Prefix, "/") + pullPath
	var out []fidObs
	var leases []fidLease
	for round := 0; round < 50; round++ {
		req, _ := http.NewRequest(http.MethodPost, base+"/dequeue", strings.NewReader(`{"batch":100,"lease_ttl":"60s"}`))
		req.Header.Set("Authorization", "Bearer verif-pull")
		req.Header.Set("Content-Type", "application/json")
		resp, err := client.Do(req)
		if err != nil {
			return nil, nil, err
		}
		b, _ := io.ReadAll(resp.Body)
		_ = resp.Body.Close()
		if resp.StatusCode == http.StatusNoContent {
			break
		}
		if resp.StatusCode != 200 {
			return nil, nil, fmt.Errorf("pull dequeue: %d %s", resp.StatusCode, string(b))
		}
		var dq struct {
			Items []struct {
				ID      string            `json:"id"`
				LeaseID string            `json:"lease_id"`
				Payload string            `json:"payload_b64"`
				Headers map[string]string `json:"headers"`
				Attempt int               `json:"attempt"`
			} `json:"items"`
		}
		if err := json.Unmarshal(b, &dq); err != nil {
			return nil, nil, err
		}
		if len(dq.Items) == 0 {
			break
		}
		for _, it := range dq.Items {
			out = append(out, fidObs{Where: where, ID: it.ID, Payload: it.Payload, Headers: it.Headers, Attempt: it.Attempt})
			leases = append(leases, fidLease{it.ID, it.LeaseID})
		}
	}
	return out, leases, nil
}

func (rig *fidRig) pullHTTPOp(client *http.Client, pullPath, op string, leases []fidLease) error {
	base := "http://" + rig.addrs[1] + strings.TrimRight(rig.compiled.PullAPI.Prefix, "/") + pullPath
	for _, l := range leases {
		body := fmt.Sprintf(`{"lease_id":%q}`, l.lease)
		if op == "nack" {
			body = fmt.Sprintf(`{"lease_id":%q,"delay":"0s"}`, l.lease)
		}
		req, _ := http.NewRequest(http.MethodPost, base+"/"+op, strings.NewReader(body))
		req.Header.Set("Authorization", "Bearer verif-pull")
		req.Header.Set("Content-Type", "application/json")
		resp, err := client.Do(req)
		if err != nil {
			return err
		}
		b, _ := io.ReadAll(resp.Body)
		_ = resp.Body.Close()
		if resp.StatusCode/100 != 2 {
			return fmt.Errorf("pull %s: %d %s", op, resp.StatusCode, string(b))
		}
	}
	return nil
}

func (rig *fidRig) pullGRPC(pullPath string) ([]fidObs, error) {
	conn, err := grpc.NewClient(rig.addrs[3], grpc.WithTransportCredentials(insecure.NewCredentials()))
	if err != nil {
		return nil, err
	}
	defer conn.Close()
	cl := workerapipb.NewWorkerServiceClient(conn)
	ctx, cancel := context.WithTimeout(context.Background(), 30*time.Second)
	defer cancel()
	ctx = metadata.AppendToOutgoingContext(ctx, "authorization", "Bearer verif-pull")
	var out []fidObs
	var leases []string
	for round := 0; round < 50; round++ {
		resp, err := cl.Dequeue(ctx, &workerapipb.DequeueRequest{Endpoint: pullPath, Batch: 100, LeaseTtl: durationpb.New(60 * time.Second)})
		if err != nil {
			return nil, fmt.Errorf("grpc dequeue: %v", err)
		}
		if len(resp.GetItems()) == 0 {
			break
		}
		for _, it := range resp.GetItems() {
			out = append(out, fidObs{Where: "grpc", ID: it.GetId(), Payload: b64(it.GetPayload()), Headers: it.GetHeaders(), Attempt: int(it.GetAttempt())})
			leases = append(leases, it.GetLeaseId())
		}
	}
	for _, l := range leases {
		if _, err := cl.Nack(ctx, &workerapipb.NackRequest{Endpoint: pullPath, LeaseId: l, Delay: durationpb.New(0)}); err != nil {
			return nil, fmt.Errorf("grpc nack: %v", err)
		}
	}
	return out, nil
}

func fidelityCase(dir string, c fidCase) (out fidCaseOut) {
	// loopback push target and scripted auth service (owned by the harness)
	target := &fidTarget{attempts: map[string]int{}}
	tln, err := net.Listen("tcp", "127.0.0.1:0")
	if err != nil {
		out.Err = err.Error()
		return
	}
	tsrv := &http.Server{Handler: target}
	go tsrv.Serve(tln)
	defer tsrv.Close()
	aln, err := net.Listen("tcp", "127.0.0.1:0")
	if err != nil {
		out.Err = err.Error()
		return
	}
	asrv := &http.Server{Handler: http.HandlerFunc(func(w http.ResponseWriter, r *http.Request) {
		_, _ = io.Copy(io.Discard, r.Body)
		if c.Forward == nil {
			w.WriteHeader(204)
			return
		}
		for _, h := range c.Forward.RespHeaders {
			w.Header().Add(h[0], h[1])
		}
		w.WriteHeader(c.Forward.Status)
	})}
	go asrv.Serve(aln)
	defer asrv.Close()

	text := strings.ReplaceAll(c.Config, "%TARGET%", "http://"+tln.Addr().String())
	text = strings.ReplaceAll(text, "%AUTH%", "http://"+aln.Addr().String())
	rig, err := fidStart(text, c.Backend, dir, true)
	if err != nil {
		out.Err = "start: " + err.Error()
		return
	}
	defer func() { rig.stop() }()
	client := &http.Client{Timeout: 30 * time.Second}
	if !rig.direct {
		out.Notes = append(out.Notes, "ingress handler is wrapped by startServers (tracing/access log); the recorder sits in front of the wrapper")
	}

	known, _, err := fidIDs(rig.snap)
	if err != nil {
		out.Err = err.Error()
		return
	}
	newIDs := func() ([]string, error) {
		now, _, err := fidIDs(rig.snap)
		if err != nil {
			return nil, err
		}
		var ids []string
		for id := range now {
			if !known[id] {
				ids = append(ids, id)
				known[id] = true
			}
		}
		sort.Strings(ids)
		return ids, nil
	}

	// ---- ingress
	for _, rq := range c.Requests {
		rig.rec.mu.Lock()
		rig.rec.seen, rig.rec.last = false, nil
		rig.rec.mu.Unlock()
		st, err := fidRawRequest(rig.addrs[0], rq)
		ro := fidReqOut{Status: st}
		if err != nil {
			out.Notes = append(out.Notes, "request "+rq.Seq+": "+err.Error())
			ro.Status = -1
		}
		rig.rec.mu.Lock()
		ro.Snapshot, ro.Seen = rig.rec.last, rig.rec.seen
		rig.rec.mu.Unlock()
		ids, err := newIDs()
		if err != nil {
			out.Err = err.Error()
			return
		}
		ro.IDs = ids
		out.Requests = append(out.Requests, ro)
	}
	// ---- admin publish
	adminBase := "http://" + rig.addrs[2] + strings.TrimRight(rig.compiled.AdminAPI.Prefix, "/")
	for _, p := range c.Publish {
		req, _ := http.NewRequest(http.MethodPost, adminBase+"/messages/publish", strings.NewReader(p.Body))
		req.Header.Set("Content-Type", "application/json")
		req.Header.Set("X-Hookaido-Audit-Reason", "verif")
		resp, err := client.Do(req)
		po := fidPubOut{}
		if err != nil {
			out.Err = err.Error()
			return
		}
		b, _ := io.ReadAll(resp.Body)
		_ = resp.Body.Close()
		po.Status = resp.StatusCode
		var parsed struct {
			Code string `json:"code"`
		}
		_ = json.Unmarshal(b, &parsed)
		po.Code = parsed.Code
		ids, err := newIDs()
		if err != nil {
			out.Err = err.Error()
			return
		}
		po.IDs = ids
		out.Publish = append(out.Publish, po)
	}
	_, envs, err := fidIDs(rig.snap)
	if err != nil {
		out.Err = err.Error()
		return
	}
	out.Stored = pubRowsOf(envs)

	add := func(obs []fidObs, err error) bool {
		if err != nil {
			out.Err = err.Error()
			return false
		}
		out.Obs = append(out.Obs, obs...)
		return true
	}
	// ---- operator detour: every accepted message is canceled and brought back (by filter, or by id list) before anybody consumes it
	if c.Detour != "" {
		var derr error
		switch c.Detour {
		case "cancel-resume":
			if _, derr = rig.store.CancelMessagesByFilter(queue.MessageManageFilterRequest{Limit: 1000}); derr == nil {
				_, derr = rig.store.ResumeMessagesByFilter(queue.MessageManageFilterRequest{Limit: 1000})
			}
		case "cancel-requeue":
			if _, derr = rig.store.CancelMessagesByFilter(queue.MessageManageFilterRequest{Limit: 1000}); derr == nil {
				_, derr = rig.store.RequeueMessagesByFilter(queue.MessageManageFilterRequest{Limit: 1000, State: queue.StateCanceled})
			}
		case "ids":
			var ids []string
			for _, e := range envs {
				ids = append(ids, e.ID)
			}
			if _, derr = rig.store.CancelMessages(queue.MessageCancelRequest{IDs: ids}); derr == nil {
				_, derr = rig.store.ResumeMessages(queue.MessageResumeRequest{IDs: ids})
			}
		}
		if derr != nil {
			out.Err = "detour " + c.Detour + ": " + derr.Error()
			return
		}
	}
	// ---- (d) Admin listing
	if !add(rig.adminList(client, "admin1")) {
		return
	}
	// ---- (a) pull over HTTP, nack, (b) pull over gRPC, nack
	o1, leases, err := rig.pullHTTP(client, c.PullPath, "pull_http1")
	if !add(o1, err) {
		return
	}
	if err := rig.pullHTTPOp(client, c.PullPath, "nack", leases); err != nil {
		out.Err = err.Error()
		return
	}
	if !add(rig.pullGRPC(c.PullPath)) {
		return
	}
	// ---- (c) push: start the dispatcher, every first attempt fails, wait until the deliver route is drained
	push := app.VerifC07Dispatcher(rig.compiled, rig.store)
	push.Start()
	deadline := time.Now().Add(20 * time.Second)
	for {
		_, envs, err := fidIDs(rig.snap)
		if err != nil {
			out.Err = err.Error()
			return
		}
		pending := 0
		for _, e := range envs {
			if e.Target != "pull" && (e.State == queue.StateQueued || e.State == queue.StateLeased) {
				pending++
			}
		}
		if pending == 0 {
			break
		}
		if time.Now().After(deadline) {
			out.Notes = append(out.Notes, fmt.Sprintf("push: %d messages still pending after 20s", pending))
			break
		}
		time.Sleep(10 * time.Millisecond)
	}
	push.Drain(5 * time.Second)
	target.mu.Lock()
	out.Obs = append(out.Obs, target.obs...)
	target.mu.Unlock()

	// ---- restart on the same database file (SQLite), then list and pull again
	if c.Reopen && c.Backend == "sqlite" {
		rig.stop()
		rig2, err := fidStart(text, c.Backend, dir, false)
		if err != nil {
			out.Err = "restart: " + err.Error()
			return
		}
		rig = rig2
	}
	if !add(rig.adminList(client, "admin2")) {
		return
	}
	o2, leases2, err := rig.pullHTTP(client, c.PullPath, "pull_http2")
	if !add(o2, err) {
		return
	}
	if err := rig.pullHTTPOp(client, c.PullPath, "ack", leases2); err != nil {
		out.Err = err.Error()
		return
	}
	return
}

func fidelityRun(in []byte) (any, error) {
	var fin fidIn
	if err := json.Unmarshal(in, &fin); err != nil {
		return nil, err
	}
	par := fin.Par
	if par <= 0 {
		par = 8
	}
	outs := make([]fidCaseOut, len(fin.Cases))
	sem := make(chan struct{}, par)
	var wg sync.WaitGroup
	for i := range fin.Cases {
		wg.Add(1)
		sem <- struct{}{}
		go func(i int) {
			defer wg.Done()
			defer func() { <-sem }()
			defer func() {
				if r := recover(); r != nil {
					outs[i].Err = fmt.Sprintf("panic: %v", r)
				}
			}()
			dir := filepath.Join(fin.Dir, "c"+strconv.Itoa(i))
			outs[i] = fidelityCase(dir, fin.Cases[i])
			_ = os.RemoveAll(dir)
		}(i)
	}
	wg.Wait()
	return outs, nil
}

// ---------------------------------------------------------------------------
// the Go functions behind the byte-level models

type fidFuncsIn struct {
	Canon  []string `json:"canon"`  // base64 strings -> http.CanonicalHeaderKey
	Trim   []string `json:"trim"`   // base64 strings -> strings.TrimSpace
	Lower  []string `json:"lower"`  // base64 strings -> strings.ToLower
	Encode []string `json:"encode"` // base64 of bytes -> StdEncoding.EncodeToString
	Decode []string `json:"decode"` // base64 of the text to decode -> StdEncoding.DecodeString
	Valid  []struct {
		K string `json:"k"`
		V string `json:"v"`
	} `json:"valid"` // one-entry maps -> httpheader.ValidateMap
	Copy []struct {
		H     []fidHdr    `json:"h"`
		Max   int         `json:"max"`
		Extra [][2]string `json:"extra"` // base64 key, base64 value
	} `json:"copy"` // ingress.copyHeadersWithExtra
}

type fidCopyOut struct {
	OK  bool        `json:"ok"`
	Nil bool        `json:"nil"`
	M   [][2]string `json:"m"`
}

func fidelityFuncs(in []byte) (any, error) {
	var fin fidFuncsIn
	if err := json.Unmarshal(in, &fin); err != nil {
		return nil, err
	}
	dec := func(s string) []byte { b, _ := base64.StdEncoding.DecodeString(s); return b }
	out := map[string]any{}
	var canon, trim, lower, enc []string
	for _, s := range fin.Canon {
		canon = append(canon, b64([]byte(http.CanonicalHeaderKey(string(dec(s))))))
	}
	for _, s := range fin.Trim {
		trim = append(trim, b64([]byte(strings.TrimSpace(string(dec(s))))))
	}
	for _, s := range fin.Lower {
		lower = append(lower, b64([]byte(strings.ToLower(string(dec(s))))))
	}
	for _, s := range fin.Encode {
		enc = append(enc, base64.StdEncoding.EncodeToString(dec(s)))
	}
	var decs []any
	for _, s := range fin.Decode {
		b, err := base64.StdEncoding.DecodeString(string(dec(s)))
		if err != nil {
			decs = append(decs, nil)
		} else {
			decs = append(decs, b64(b))
		}
	}
	var valid []bool
	for _, e := range fin.Valid {
		valid = append(valid, httpheader.ValidateMap(map[string]string{string(dec(e.K)): string(dec(e.V))}) == nil)
	}
	var copies []fidCopyOut
	for _, c := range fin.Copy {
		h := http.Header{}
		for _, e := range c.H {
			var vs []string
			for _, v := range e.V {
				vs = append(vs, string(dec(v)))
			}
			h[string(dec(e.K))] = vs
		}
		var extra map[string]string
		if len(c.Extra) > 0 {
			extra = map[string]string{}
			for _, e := range c.Extra {
				extra[string(dec(e[0]))] = string(dec(e[1]))
			}
		}
		m, ok := ingress.VerifCopyHeadersWithExtra(h, c.Max, extra)
		co := fidCopyOut{OK: ok, Nil: m == nil}
		for k, v := range m {
			co.M = append(co.M, [2]string{b64([]byte(k)), b64([]byte(v))})
		}
		sort.Slice(co.M, func(i, j int) bool { return co.M[i][0] < co.M[j][0] })
		copies = append(copies, co)
	}
	out["canon"], out["trim"], out["lower"], out["encode"], out["decode"], out["valid"], out["copy"] = canon, trim, lower, enc, decs, valid, copies
	return out, nil
}
