//go:build verif

package main

// restart-class: for pairs (running configuration, new configuration) report what run.go's reload classifier says and what the
// push dispatcher would be built from under each.  The dispatcher is built once at start-up and never rebuilt by a reload, so a
// change of anything it is built from must be classified "restart required": otherwise the reload is reported as applied while
// deliveries go on under the old retry / signing / egress configuration (C17, C18).

import (
	"encoding/json"

	"github.com/nuetzliches/hookaido/internal/app"
	"github.com/nuetzliches/hookaido/internal/config"
)

func init() { register("restart-class", restartClass) }

type rcPair struct {
	Running string `json:"running"`
	New     string `json:"new"`
}

type rcOut struct {
	RunningOK       bool     `json:"running_ok"`
	NewOK           bool     `json:"new_ok"`
	Errors          []string `json:"errors,omitempty"`
	RequiresRestart bool     `json:"requires_restart"`
	DumpRunning     string   `json:"dump_running"`
	DumpNew         string   `json:"dump_new"`
}

func rcCompile(text string) (config.Compiled, bool, []string) {
	cfg, err := config.Parse([]byte(text))
	if err != nil {
		return config.Compiled{}, false, []string{"parse: " + err.Error()}
	}
	c, res := config.Compile(cfg)
	return c, res.OK, res.Errors
}

func restartClass(in []byte) (any, error) {
	var req struct {
		Pairs []rcPair `json:"pairs"`
	}
	if err := json.Unmarshal(in, &req); err != nil {
		return nil, err
	}
	outs := make([]rcOut, len(req.Pairs))
	for i, p := range req.Pairs {
		var o rcOut
		var a, b config.Compiled
		var ea, eb []string
		a, o.RunningOK, ea = rcCompile(p.Running)
		b, o.NewOK, eb = rcCompile(p.New)
		o.Errors = append(ea, eb...)
		if o.RunningOK && o.NewOK {
			o.RequiresRestart = app.VerifRequiresRestart(b, a)
			o.DumpRunning = app.VerifDispatcherDump(a)
			o.DumpNew = app.VerifDispatcherDump(b)
		}
		outs[i] = o
	}
	return map[string]any{"pairs": outs}, nil
}
