//go:build verif

package main

import (
	"bufio"
	"encoding/json"
	"fmt"
	"math"
	"net"
	"net/http"
	"net/http/httptest"
	"sort"
	"strconv"
	"strings"
	"sync"
	"time"

	"github.com/nuetzliches/hookaido/internal/app"
	"github.com/nuetzliches/hookaido/internal/config"
	"github.com/nuetzliches/hookaido/internal/queue"
)

func init() {
	register("ratelimit-seq", ratelimitSeq)
	register("ratelimit-state", ratelimitState)
	register("ratelimit-hammer", ratelimitHammer)
	register("ingress-size", ingressSize)
}

// ---------------------------------------------------------------------------
// white-box tokenBucketLimiter.AllowAt on arrival sequences

type c12rlCase struct {
	RPSBits uint64  `json:"rps_bits"`
	Burst   int     `json:"burst"`
	Start   int64   `json:"start"`
	Times   []int64 `json:"times"`
}
type c12rlOut struct {
	Dec        string `json:"dec"` // '1' admitted, '0' refused, per call
	RateBits   uint64 `json:"rate_bits"`
	BurstBits  uint64 `json:"burst_bits"`
	TokensBits uint64 `json:"tokens_bits"`
	Last       int64  `json:"last"`
}

func ratelimitSeq(in []byte) (any, error) {
	var req struct {
		Cases []c12rlCase `json:"cases"`
	}
	if err := json.Unmarshal(in, &req); err != nil {
		return nil, err
	}
	out := make([]c12rlOut, 0, len(req.Cases))
	for _, c := range req.Cases {
		l := app.VerifRLNewLimiter(math.Float64frombits(c.RPSBits), c.Burst, time.Unix(0, c.Start).UTC())
		var sb strings.Builder
		for _, t := range c.Times {
			if l.AllowAt(time.Unix(0, t).UTC()) {
				sb.WriteByte('1')
			} else {
				sb.WriteByte('0')
			}
		}
		r, b, tk, last := l.State()
		out = append(out, c12rlOut{Dec: sb.String(), RateBits: r, BurstBits: b, TokensBits: tk, Last: last})
	}
	return out, nil
}

// ---------------------------------------------------------------------------
// runtimeState.allowIngress on compiled configs with an injected clock

type c12rlLimit struct {
	Path    string `json:"path"`
	Enabled bool   `json:"enabled"`
	RPSBits uint64 `json:"rps_bits"`
	Burst   int    `json:"burst"`
}
type c12rlReq struct {
	Route string `json:"route"`
	T     int64  `json:"t"`
}
type c12rlStateCase struct {
	Config   string  `json:"config"`
	Start    int64   `json:"start"`
	Reqs     []c12rlReq `json:"reqs"`
	ReloadAt int     `json:"reload_at"` // before request index k (>0) call updateAll with the same compiled config (re-arm)
}
type c12rlLimState struct {
	Path       string `json:"path"`
	TokensBits uint64 `json:"tokens_bits"`
	Last       int64  `json:"last"`
}
type c12rlStateOut struct {
	OK     bool         `json:"ok"`
	Errors []string     `json:"errors,omitempty"`
	Global c12rlLimit      `json:"global"`
	Routes []c12rlLimit    `json:"routes"`
	Dec    string       `json:"dec"`
	Final  []c12rlLimState `json:"final"`
	Limits [][]int64    `json:"limits"` // per route: limitsFor -> max_body, max_headers
}

func ratelimitState(in []byte) (any, error) {
	var req struct {
		Cases []c12rlStateCase `json:"cases"`
	}
	if err := json.Unmarshal(in, &req); err != nil {
		return nil, err
	}
	out := make([]c12rlStateOut, 0, len(req.Cases))
	for _, c := range req.Cases {
		var o c12rlStateOut
		compiled, res, err := c06CompileText(c.Config)
		if err != nil {
			o.Errors = []string{"parse: " + err.Error()}
			out = append(out, o)
			continue
		}
		if !res.OK {
			o.Errors = res.Errors
			out = append(out, o)
			continue
		}
		o.OK = true
		o.Global = c12rlLimit{Enabled: compiled.Ingress.RateLimit.Enabled, RPSBits: math.Float64bits(compiled.Ingress.RateLimit.RPS), Burst: compiled.Ingress.RateLimit.Burst}
		for _, rt := range compiled.Routes {
			o.Routes = append(o.Routes, c12rlLimit{Path: rt.Path, Enabled: rt.RateLimit.Enabled, RPSBits: math.Float64bits(rt.RateLimit.RPS), Burst: rt.RateLimit.Burst})
		}
		clk := &c06Clock{t: time.Unix(0, c.Start).UTC()}
		st := app.VerifRLNewState(compiled, clk.Now)
		var sb strings.Builder
		for i, r := range c.Reqs {
			if c.ReloadAt > 0 && i == c.ReloadAt {
				st.UpdateAll(compiled)
			}
			clk.Set(time.Unix(0, r.T).UTC())
			if st.AllowIngress(r.Route) {
				sb.WriteByte('1')
			} else {
				sb.WriteByte('0')
			}
		}
		o.Dec = sb.String()
		if tk, last, ok := st.LimiterState(""); ok {
			o.Final = append(o.Final, c12rlLimState{Path: "", TokensBits: tk, Last: last})
		}
		for _, rt := range compiled.Routes {
			if tk, last, ok := st.LimiterState(rt.Path); ok {
				o.Final = append(o.Final, c12rlLimState{Path: rt.Path, TokensBits: tk, Last: last})
			}
			mb, mh := st.LimitsFor(rt.Path)
			o.Limits = append(o.Limits, []int64{mb, int64(mh)})
		}
		out = append(out, o)
	}
	return out, nil
}

// ---------------------------------------------------------------------------
// concurrent hammering of one limiter through the real allowIngress with the real clock

func ratelimitHammer(in []byte) (any, error) {
	var req struct {
		Config     string `json:"config"`
		Route      string `json:"route"`
		Goroutines int    `json:"goroutines"`
		DurationMs int    `json:"duration_ms"`
		PauseUs    int    `json:"pause_us"`
	}
	if err := json.Unmarshal(in, &req); err != nil {
		return nil, err
	}
	compiled, res, err := c06CompileText(req.Config)
	if err != nil {
		return nil, err
	}
	if !res.OK {
		return nil, fmt.Errorf("config rejected: %v", res.Errors)
	}
	t0 := time.Now()
	st := app.VerifRLNewState(compiled, time.Now)
	type ev struct{ b, a int64 }
	var mu sync.Mutex
	var admitted []ev
	total := 0
	var wg sync.WaitGroup
	stop := t0.Add(time.Duration(req.DurationMs) * time.Millisecond)
	for g := 0; g < req.Goroutines; g++ {
		wg.Add(1)
		go func() {
			defer wg.Done()
			var local []ev
			n := 0
			for time.Now().Before(stop) {
				b := time.Since(t0).Nanoseconds()
				ok := st.AllowIngress(req.Route)
				a := time.Since(t0).Nanoseconds()
				n++
				if ok {
					local = append(local, ev{b, a})
				}
				if req.PauseUs > 0 {
					time.Sleep(time.Duration(req.PauseUs) * time.Microsecond)
				}
			}
			mu.Lock()
			admitted = append(admitted, local...)
			total += n
			mu.Unlock()
		}()
	}
	wg.Wait()
	end := time.Since(t0).Nanoseconds()
	sort.Slice(admitted, func(i, j int) bool { return admitted[i].b < admitted[j].b })
	evs := make([][]int64, 0, len(admitted))
	for _, e := range admitted {
		evs = append(evs, []int64{e.b, e.a})
	}
	var lim c12rlLimit
	for _, rt := range compiled.Routes {
		if rt.Path == req.Route && rt.RateLimit.Enabled {
			lim = c12rlLimit{Path: rt.Path, Enabled: true, RPSBits: math.Float64bits(rt.RateLimit.RPS), Burst: rt.RateLimit.Burst}
		}
	}
	if !lim.Enabled {
		lim = c12rlLimit{Enabled: compiled.Ingress.RateLimit.Enabled, RPSBits: math.Float64bits(compiled.Ingress.RateLimit.RPS), Burst: compiled.Ingress.RateLimit.Burst}
	}
	return map[string]any{"admitted": evs, "total_calls": total, "end": end, "limit": lim}, nil
}

// ---------------------------------------------------------------------------
// size limits and 429 through the real ingress.Server over loopback HTTP

type c12szHeader struct {
	Name string `json:"name"`
	Len  int    `json:"len"`
}
type c12szCase struct {
	Path    string     `json:"path"`
	BodyLen int        `json:"body_len"`
	Headers []c12szHeader `json:"headers"`
	Chunked bool       `json:"chunked"` // send the body with Transfer-Encoding: chunked (no Content-Length)
	T       int64      `json:"t"`       // clock value for this request (0 = unchanged)
}
type c12szOut struct {
	Status      int   `json:"status"`
	HdrSize     int   `json:"hdr_size"` // size of the headers as the handler received them (own measurement)
	Reached     bool  `json:"reached"`  // the request reached the handler
	Before      int   `json:"before"`
	After       int   `json:"after"`
	SameQueue   bool  `json:"same_queue"` // ids, states and payload lengths unchanged
	NewPayloads []int `json:"new_payloads"`
	NewTargets  int   `json:"new_targets"`
}

func c12szFingerprint(store *queue.MemoryStore) (map[string]string, int) {
	m := map[string]string{}
	snap := store.VerifSnapshot()
	for _, e := range snap {
		m[e.ID] = fmt.Sprintf("%s|%s|%s|%d|%d|%d", e.Route, e.Target, e.State, e.Attempt, len(e.Payload), e.NextRunAt.UnixNano())
	}
	return m, len(snap)
}

func c12szMeasureHeaders(h http.Header) int {
	total := 0
	for k, v := range h {
		switch strings.ToLower(k) {
		case "authorization", "proxy-authorization", "cookie":
			continue
		}
		total += len(http.CanonicalHeaderKey(k)) + len(strings.Join(v, ","))
	}
	return total
}

func ingressSize(in []byte) (any, error) {
	var req struct {
		Config string   `json:"config"`
		Start  int64    `json:"start"`
		Cases  []c12szCase `json:"cases"`
	}
	if err := json.Unmarshal(in, &req); err != nil {
		return nil, err
	}
	compiled, res, err := c06CompileText(req.Config)
	if err != nil {
		return map[string]any{"ok": false, "errors": []string{"parse: " + err.Error()}}, nil
	}
	if !res.OK {
		return map[string]any{"ok": false, "errors": res.Errors}, nil
	}
	if req.Start == 0 {
		req.Start = 1790000000000000000
	}
	clk := &c06Clock{t: time.Unix(0, req.Start).UTC()}
	store := queue.NewMemoryStore(queue.WithNowFunc(clk.Now))
	st := app.VerifRLNewState(compiled, clk.Now)
	real := st.IngressHandler(store, compiled)
	var hmu sync.Mutex
	lastSize, reached := 0, false
	srv := httptest.NewServer(http.HandlerFunc(func(w http.ResponseWriter, r *http.Request) {
		hmu.Lock()
		lastSize = c12szMeasureHeaders(r.Header)
		reached = true
		hmu.Unlock()
		real.ServeHTTP(w, r)
	}))
	defer srv.Close()
	addr := strings.TrimPrefix(srv.URL, "http://")

	type routeInfo struct {
		Path       string `json:"path"`
		MaxBody    int64  `json:"max_body"`
		MaxHeaders int    `json:"max_headers"`
		Targets    int    `json:"targets"`
	}
	var routes []routeInfo
	for _, rt := range compiled.Routes {
		n := len(rt.Deliveries)
		if n == 0 {
			n = 1
		}
		routes = append(routes, routeInfo{Path: rt.Path, MaxBody: rt.MaxBodyBytes, MaxHeaders: rt.MaxHeaderBytes, Targets: n})
	}

	outs := make([]c12szOut, 0, len(req.Cases))
	for _, c := range req.Cases {
		if c.T != 0 {
			clk.Set(time.Unix(0, c.T).UTC())
		}
		before, nb := c12szFingerprint(store)
		hmu.Lock()
		lastSize, reached = 0, false
		hmu.Unlock()

		conn, err := net.DialTimeout("tcp", addr, 2*time.Second)
		if err != nil {
			return nil, err
		}
		_ = conn.SetDeadline(time.Now().Add(5 * time.Second))
		var sb strings.Builder
		sb.WriteString("POST " + c.Path + " HTTP/1.1\r\nHost: verif.test\r\n")
		if c.Chunked {
			sb.WriteString("Transfer-Encoding: chunked\r\n")
		} else {
			sb.WriteString("Content-Length: " + strconv.Itoa(c.BodyLen) + "\r\n")
		}
		for _, h := range c.Headers {
			sb.WriteString(h.Name + ": " + strings.Repeat("v", h.Len) + "\r\n")
		}
		sb.WriteString("\r\n")
		body := strings.Repeat("b", c.BodyLen)
		if c.Chunked {
			if c.BodyLen > 0 {
				sb.WriteString(strconv.FormatInt(int64(c.BodyLen), 16) + "\r\n" + body + "\r\n")
			}
			sb.WriteString("0\r\n\r\n")
		} else {
			sb.WriteString(body)
		}
		_, _ = conn.Write([]byte(sb.String()))
		status := 0
		br := bufio.NewReader(conn)
		if resp, err := http.ReadResponse(br, nil); err == nil {
			status = resp.StatusCode
			_ = resp.Body.Close()
		}
		_ = conn.Close()
		// the handler has returned once the response status was read; give the server no more work
		after, na := c12szFingerprint(store)
		o := c12szOut{Status: status, Before: nb, After: na, SameQueue: true}
		hmu.Lock()
		o.HdrSize, o.Reached = lastSize, reached
		hmu.Unlock()
		for id, fp := range before {
			if after[id] != fp {
				o.SameQueue = false
			}
		}
		tg := map[string]bool{}
		for id, fp := range after {
			if _, ok := before[id]; !ok {
				o.SameQueue = false
				parts := strings.Split(fp, "|")
				n, _ := strconv.Atoi(parts[4])
				o.NewPayloads = append(o.NewPayloads, n)
				tg[parts[1]] = true
			}
		}
		o.NewTargets = len(tg)
		outs = append(outs, o)
	}
	return map[string]any{"ok": true, "routes": routes, "default_max_body": compiled.Defaults.MaxBodyBytes,
		"default_max_headers": compiled.Defaults.MaxHeaderBytes, "cases": outs}, nil
}

var _ = config.Compiled{}
