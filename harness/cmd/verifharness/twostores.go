//go:build verif

package main

// two-stores: TWO SQLiteStore objects on ONE database file - the gateway's store and an operator's (`hookaido mcp` in direct SQLite
// mode opens its own store on the live queue file).  While the gateway executes a single lease operation (ack / nack / extend /
// mark-dead, on a live or an expired lease) the operator's cancel is run at the k-th clock reading of that call - the one point inside
// a store call that a test can hook.  C04: whatever the interleaving, the outcome is one of the two serial orders; in particular a
// message whose cancel was acknowledged to the operator stays canceled (an operator-voided lease changes nothing).

import (
	"encoding/json"
	"fmt"
	"os"
	"path/filepath"
	"sync/atomic"
	"time"

	"github.com/nuetzliches/hookaido/internal/queue"
)

func init() { register("two-stores", twoStores) }

type tsCase struct {
	AOp     string `json:"a_op"`      // ack nack extend dead
	Stale   bool   `json:"stale"`     // the lease has run out (and nothing has swept it) when A's call arrives
	BOp     string `json:"b_op"`      // cancel cancel_filter
	HookAt  int64  `json:"hook_at"`   // B runs at the HookAt-th clock reading of A's call (1-based)
	Deliv   bool   `json:"delivered"` // delivered retention on (an acked message stays as `delivered`)
}

type tsOut struct {
	AErr       string `json:"a_err"`
	BCount     int    `json:"b_count"`
	BErr       string `json:"b_err,omitempty"`
	BInside    bool   `json:"b_inside"`    // B's call completed inside A's call
	BBusy      bool   `json:"b_busy"`      // B was refused as busy inside A's call and ran after it
	ClockReads int64  `json:"clock_reads"` // of A's call
	Final      string `json:"final"`       // state of the message afterwards ("" = gone)
	Other      string `json:"other"`       // state of the bystander
	Redeliver  int    `json:"redelivered"` // how many dequeues after the end still return the message
	Err        string `json:"err,omitempty"`
}

func twoStores(in []byte) (any, error) {
	var req struct {
		Dir   string   `json:"dir"`
		Cases []tsCase `json:"cases"`
	}
	if err := json.Unmarshal(in, &req); err != nil {
		return nil, err
	}
	if err := os.MkdirAll(req.Dir, 0o755); err != nil {
		return nil, err
	}
	outs := make([]tsOut, len(req.Cases))
	for i, c := range req.Cases {
		outs[i] = tsRun(filepath.Join(req.Dir, fmt.Sprintf("ts-%d-%d.db", os.Getpid(), i)), c)
	}
	return map[string]any{"cases": outs}, nil
}

func tsRun(path string, c tsCase) (out tsOut) {
	base := time.Date(2026, 2, 4, 12, 0, 0, 0, time.UTC)
	var off atomic.Int64
	nowAt := func() time.Time { return base.Add(time.Duration(off.Load())) }
	var bopts []queue.SQLiteOption
	bopts = append(bopts, queue.WithSQLiteNowFunc(nowAt))
	if c.Deliv {
		bopts = append(bopts, queue.WithSQLiteDeliveredRetention(24*time.Hour))
	}
	B, err := queue.NewSQLiteStore(path, bopts...)
	if err != nil {
		out.Err = "open operator store: " + err.Error()
		return
	}
	defer B.Close()
	_ = B.VerifSetBusyTimeout(120)
	runB := func() (int, error) {
		switch c.BOp {
		case "cancel_filter":
			r, err := B.CancelMessagesByFilter(queue.MessageManageFilterRequest{Route: "/r", Target: "t", Limit: 1})
			return r.Canceled, err
		default:
			r, err := B.CancelMessages(queue.MessageCancelRequest{IDs: []string{"evt_1"}})
			return r.Canceled, err
		}
	}
	var armed, attempted atomic.Bool
	var reads atomic.Int64
	var bCount int
	var bErr error
	var inside, busy bool
	gwNow := func() time.Time {
		if armed.Load() {
			if reads.Add(1) == c.HookAt && attempted.CompareAndSwap(false, true) {
				n, err := runB()
				if err != nil {
					busy = true
				} else {
					bCount, inside = n, true
				}
			}
		}
		return nowAt()
	}
	aopts := []queue.SQLiteOption{queue.WithSQLiteNowFunc(gwNow), queue.WithSQLitePollInterval(5 * time.Millisecond)}
	if c.Deliv {
		aopts = append(aopts, queue.WithSQLiteDeliveredRetention(24*time.Hour))
	}
	A, err := queue.NewSQLiteStore(path, aopts...)
	if err != nil {
		out.Err = "open gateway store: " + err.Error()
		return
	}
	defer A.Close()
	if err := A.Enqueue(queue.Envelope{ID: "evt_1", Route: "/r", Target: "t", Payload: []byte("x")}); err != nil {
		out.Err = "enqueue: " + err.Error()
		return
	}
	off.Add(int64(time.Millisecond))
	resp, err := A.Dequeue(queue.DequeueRequest{Route: "/r", Target: "t", Batch: 1, LeaseTTL: 10 * time.Second})
	if err != nil || len(resp.Items) != 1 {
		out.Err = fmt.Sprintf("set-up dequeue: %d items, %v", len(resp.Items), err)
		return
	}
	lease := resp.Items[0].LeaseID
	// the bystander is enqueued after the dequeue, so the lease belongs to evt_1
	if err := A.Enqueue(queue.Envelope{ID: "evt_2", Route: "/r2", Target: "t", Payload: []byte("y")}); err != nil {
		out.Err = "enqueue bystander: " + err.Error()
		return
	}
	if c.Stale {
		off.Add(int64(11 * time.Second))
	} else {
		off.Add(int64(time.Second))
	}
	armed.Store(true)
	var aerr error
	switch c.AOp {
	case "ack":
		aerr = A.Ack(lease)
	case "nack":
		aerr = A.Nack(lease, 30*time.Second)
	case "extend":
		aerr = A.Extend(lease, 5*time.Second)
	case "dead":
		aerr = A.MarkDead(lease, "boom")
	}
	armed.Store(false)
	out.ClockReads = reads.Load()
	if aerr != nil {
		out.AErr = aerr.Error()
	}
	if !inside {
		// the hook never fired (fewer clock readings) or the operator was refused as busy: the operator's call comes after A's
		bCount, bErr = runB()
	}
	out.BInside, out.BBusy, out.BCount = inside, busy, bCount
	if bErr != nil {
		out.BErr = bErr.Error()
	}
	lr, err := B.LookupMessages(queue.MessageLookupRequest{IDs: []string{"evt_1", "evt_2"}})
	if err != nil {
		out.Err = "lookup: " + err.Error()
		return
	}
	for _, it := range lr.Items {
		if it.ID == "evt_1" {
			out.Final = string(it.State)
		} else {
			out.Other = string(it.State)
		}
	}
	// is the message ever handed out again?  (far in the future: every lease and delay has run out)
	off.Add(int64(time.Hour))
	for k := 0; k < 2; k++ {
		off.Add(int64(time.Second))
		r, err := A.Dequeue(queue.DequeueRequest{Route: "/r", Target: "t", Batch: 5, LeaseTTL: time.Second})
		if err == nil {
			for _, it := range r.Items {
				if it.ID == "evt_1" {
					out.Redeliver++
				}
			}
		}
	}
	return
}

// two-stores-visibility: what one store object does to the shared file must be visible to the other at its next call - a message
// enqueued (or requeued from the DLQ) by the operator's store, a lease taken by a second process that then dies.  C05: a ready
// message is returned by the next dequeue whoever made it ready; no per-process hint may hide it.
func init() { register("two-stores-visibility", twoStoresVisibility) }

type tvCase struct {
	Scenario string `json:"scenario"` // other-enqueues other-leases-and-dies other-requeues-dead other-nacks
	Polls    int    `json:"polls"`    // empty polls by the survivor before the other store acts
}

type tvOut struct {
	Before  []int    `json:"before"` // items returned by the survivor's polls before
	Got     []string `json:"got"`    // ids returned by the survivor's dequeue afterwards
	Attempt []int    `json:"attempts"`
	Err     string   `json:"err,omitempty"`
}

func twoStoresVisibility(in []byte) (any, error) {
	var req struct {
		Dir   string   `json:"dir"`
		Cases []tvCase `json:"cases"`
	}
	if err := json.Unmarshal(in, &req); err != nil {
		return nil, err
	}
	if err := os.MkdirAll(req.Dir, 0o755); err != nil {
		return nil, err
	}
	outs := make([]tvOut, len(req.Cases))
	for i, c := range req.Cases {
		outs[i] = tvRun(filepath.Join(req.Dir, fmt.Sprintf("tv-%d-%d.db", os.Getpid(), i)), c)
	}
	return map[string]any{"cases": outs}, nil
}

func tvRun(path string, c tvCase) (out tvOut) {
	base := time.Date(2026, 2, 4, 12, 0, 0, 0, time.UTC)
	var off atomic.Int64
	nowAt := func() time.Time { return base.Add(time.Duration(off.Load())) }
	A, err := queue.NewSQLiteStore(path, queue.WithSQLiteNowFunc(nowAt), queue.WithSQLitePollInterval(5*time.Millisecond))
	if err != nil {
		out.Err = "open survivor: " + err.Error()
		return
	}
	defer A.Close()
	B, err := queue.NewSQLiteStore(path, queue.WithSQLiteNowFunc(nowAt))
	if err != nil {
		out.Err = "open other: " + err.Error()
		return
	}
	closedB := false
	defer func() {
		if !closedB {
			B.Close()
		}
	}()
	if c.Scenario == "other-requeues-dead" || c.Scenario == "other-nacks" {
		// a message the survivor itself has dead-lettered / leased before it goes idle
		if err := A.Enqueue(queue.Envelope{ID: "evt_1", Route: "/r", Target: "t", Payload: []byte("x")}); err != nil {
			out.Err = err.Error()
			return
		}
		r, err := A.Dequeue(queue.DequeueRequest{Route: "/r", Target: "t", Batch: 1, LeaseTTL: time.Hour})
		if err != nil || len(r.Items) != 1 {
			out.Err = "set-up dequeue failed"
			return
		}
		if c.Scenario == "other-requeues-dead" {
			if err := A.MarkDead(r.Items[0].LeaseID, "boom"); err != nil {
				out.Err = err.Error()
				return
			}
		} else {
			// the other process holds the lease id (a worker talking to a second gateway on the same file)
			defer func() {}()
			off.Add(int64(time.Second))
			for k := 0; k < c.Polls; k++ {
				off.Add(int64(20 * time.Millisecond))
				rr, _ := A.Dequeue(queue.DequeueRequest{Route: "/r", Target: "t", Batch: 10, LeaseTTL: time.Minute})
				out.Before = append(out.Before, len(rr.Items))
			}
			if err := B.Nack(r.Items[0].LeaseID, 0); err != nil {
				out.Err = "other nack: " + err.Error()
				return
			}
			off.Add(int64(20 * time.Millisecond))
			rr, err := A.Dequeue(queue.DequeueRequest{Route: "/r", Target: "t", Batch: 10, LeaseTTL: time.Minute})
			if err != nil {
				out.Err = err.Error()
				return
			}
			for _, it := range rr.Items {
				out.Got = append(out.Got, it.ID)
				out.Attempt = append(out.Attempt, it.Attempt)
			}
			return
		}
	}
	for k := 0; k < c.Polls; k++ {
		off.Add(int64(20 * time.Millisecond))
		rr, err := A.Dequeue(queue.DequeueRequest{Route: "/r", Target: "t", Batch: 10, LeaseTTL: time.Minute})
		if err != nil {
			out.Err = err.Error()
			return
		}
		out.Before = append(out.Before, len(rr.Items))
	}
	switch c.Scenario {
	case "other-enqueues":
		if err := B.Enqueue(queue.Envelope{ID: "evt_1", Route: "/r", Target: "t", Payload: []byte("x")}); err != nil {
			out.Err = "other enqueue: " + err.Error()
			return
		}
	case "other-leases-and-dies":
		if err := B.Enqueue(queue.Envelope{ID: "evt_1", Route: "/r", Target: "t", Payload: []byte("x")}); err != nil {
			out.Err = "other enqueue: " + err.Error()
			return
		}
		r, err := B.Dequeue(queue.DequeueRequest{Route: "/r", Target: "t", Batch: 1, LeaseTTL: 30 * time.Second})
		if err != nil || len(r.Items) != 1 {
			out.Err = "other dequeue failed"
			return
		}
		B.Close()
		closedB = true
		off.Add(int64(31 * time.Second))
	case "other-requeues-dead":
		if _, err := B.RequeueDead(queue.DeadRequeueRequest{IDs: []string{"evt_1"}}); err != nil {
			out.Err = "other requeue: " + err.Error()
			return
		}
	}
	off.Add(int64(20 * time.Millisecond))
	rr, err := A.Dequeue(queue.DequeueRequest{Route: "/r", Target: "t", Batch: 10, LeaseTTL: time.Minute})
	if err != nil {
		out.Err = err.Error()
		return
	}
	for _, it := range rr.Items {
		out.Got = append(out.Got, it.ID)
		out.Attempt = append(out.Attempt, it.Attempt)
	}
	return
}

// two-stores-filter: a by-filter operator mutation of the gateway's store (select, then write) with a competing state change made
// through the other store object at the clock reading between the two statements.  C14: a by-filter mutation changes only messages
// that are in a state the operation is defined for WHEN IT CHANGES THEM, and counts what it changed.
func init() { register("two-stores-filter", twoStoresFilter) }

type tfCase struct {
	Scenario string `json:"scenario"` // requeue-vs-resume-and-lease | cancel-vs-ack | resume-vs-requeue-and-lease
	HookAt   int64  `json:"hook_at"`
}

type tfOut struct {
	ACount     int    `json:"a_count"`
	AErr       string `json:"a_err,omitempty"`
	BCount     int    `json:"b_count"`  // what B's own mutation reported (resumed / requeued / acked = 1)
	BLeased    int    `json:"b_leased"` // messages B's dequeue got
	BInside    bool   `json:"b_inside"`
	BBusy      bool   `json:"b_busy"`
	ClockReads int64  `json:"clock_reads"`
	Final      string `json:"final"`
	Lease      string `json:"final_lease"`
	Err        string `json:"err,omitempty"`
}

func twoStoresFilter(in []byte) (any, error) {
	var req struct {
		Dir   string   `json:"dir"`
		Cases []tfCase `json:"cases"`
	}
	if err := json.Unmarshal(in, &req); err != nil {
		return nil, err
	}
	if err := os.MkdirAll(req.Dir, 0o755); err != nil {
		return nil, err
	}
	outs := make([]tfOut, len(req.Cases))
	for i, c := range req.Cases {
		outs[i] = tfRun(filepath.Join(req.Dir, fmt.Sprintf("tf-%d-%d.db", os.Getpid(), i)), c)
	}
	return map[string]any{"cases": outs}, nil
}

func tfRun(path string, c tfCase) (out tfOut) {
	base := time.Date(2026, 2, 4, 12, 0, 0, 0, time.UTC)
	var off atomic.Int64
	nowAt := func() time.Time { return base.Add(time.Duration(off.Load())) }
	B, err := queue.NewSQLiteStore(path, queue.WithSQLiteNowFunc(nowAt), queue.WithSQLiteDeliveredRetention(24*time.Hour))
	if err != nil {
		out.Err = "open operator store: " + err.Error()
		return
	}
	defer B.Close()
	_ = B.VerifSetBusyTimeout(120)
	runB := func() (int, int, error) {
		switch c.Scenario {
		case "requeue-vs-resume-and-lease":
			r, err := B.ResumeMessages(queue.MessageResumeRequest{IDs: []string{"evt_1"}})
			if err != nil {
				return 0, 0, err
			}
			d, err := B.Dequeue(queue.DequeueRequest{Route: "/r", Target: "t", Batch: 1, LeaseTTL: time.Hour})
			return r.Resumed, len(d.Items), err
		case "resume-vs-requeue-and-lease":
			r, err := B.RequeueMessages(queue.MessageRequeueRequest{IDs: []string{"evt_1"}})
			if err != nil {
				return 0, 0, err
			}
			d, err := B.Dequeue(queue.DequeueRequest{Route: "/r", Target: "t", Batch: 1, LeaseTTL: time.Hour})
			return r.Requeued, len(d.Items), err
		default: // cancel-vs-ack
			d, err := B.Dequeue(queue.DequeueRequest{Route: "/r", Target: "t", Batch: 1, LeaseTTL: time.Hour})
			if err != nil || len(d.Items) == 0 {
				return 0, 0, err
			}
			if err := B.Ack(d.Items[0].LeaseID); err != nil {
				return 0, 1, err
			}
			return 1, 1, nil
		}
	}
	var armed, attempted atomic.Bool
	var reads atomic.Int64
	var bCount, bLeased int
	var inside, busy bool
	gwNow := func() time.Time {
		if armed.Load() {
			if reads.Add(1) == c.HookAt && attempted.CompareAndSwap(false, true) {
				n, l, err := runB()
				if err != nil {
					busy = true
				} else {
					bCount, bLeased, inside = n, l, true
				}
			}
		}
		return nowAt()
	}
	A, err := queue.NewSQLiteStore(path, queue.WithSQLiteNowFunc(gwNow), queue.WithSQLiteDeliveredRetention(24*time.Hour))
	if err != nil {
		out.Err = "open gateway store: " + err.Error()
		return
	}
	defer A.Close()
	if err := A.Enqueue(queue.Envelope{ID: "evt_1", Route: "/r", Target: "t", Payload: []byte("x")}); err != nil {
		out.Err = err.Error()
		return
	}
	if c.Scenario != "cancel-vs-ack" {
		if _, err := A.CancelMessages(queue.MessageCancelRequest{IDs: []string{"evt_1"}}); err != nil {
			out.Err = err.Error()
			return
		}
	}
	off.Add(int64(time.Second))
	armed.Store(true)
	var aerr error
	f := queue.MessageManageFilterRequest{Route: "/r", Limit: 10}
	switch c.Scenario {
	case "requeue-vs-resume-and-lease":
		r, err := A.RequeueMessagesByFilter(f)
		out.ACount, aerr = r.Requeued, err
	case "resume-vs-requeue-and-lease":
		r, err := A.ResumeMessagesByFilter(f)
		out.ACount, aerr = r.Resumed, err
	default:
		r, err := A.CancelMessagesByFilter(f)
		out.ACount, aerr = r.Canceled, err
	}
	armed.Store(false)
	out.ClockReads = reads.Load()
	if aerr != nil {
		out.AErr = aerr.Error()
	}
	if !inside {
		n, l, err := runB()
		if err != nil {
			out.Err = "operator after: " + err.Error()
			return
		}
		bCount, bLeased = n, l
	}
	out.BCount, out.BLeased, out.BInside, out.BBusy = bCount, bLeased, inside, busy
	lr, err := B.LookupMessages(queue.MessageLookupRequest{IDs: []string{"evt_1"}})
	if err != nil {
		out.Err = err.Error()
		return
	}
	for _, it := range lr.Items {
		out.Final = string(it.State)
	}
	if envs, err := B.VerifSnapshot(); err == nil {
		for _, e := range envs {
			if e.ID == "evt_1" {
				out.Lease = e.LeaseID
			}
		}
	}
	return
}
