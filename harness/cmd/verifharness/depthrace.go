//go:build verif

package main

// depth-race (C12): concurrent enqueues into a queue that has just had ONE slot freed after being full (reject policy).  The store
// has refused an enqueue as full before (whatever it remembers about being full is set), then a message is acked, then G goroutines
// enqueue at once - ingress handlers and the Admin publish endpoint call Enqueue concurrently.  Admission is per enqueue: exactly as many
// are stored as there were free slots, the others are refused with ErrQueueFull, and the active count never exceeds max_depth.

import (
	"encoding/json"
	"errors"
	"fmt"
	"path/filepath"
	"sync"
	"time"

	"github.com/nuetzliches/hookaido/internal/queue"
)

func init() { register("depth-race", depthRace) }

func depthRace(in []byte) (any, error) {
	var req struct {
		Dir        string   `json:"dir"`
		Backends   []string `json:"backends"`
		Trials     int      `json:"trials"`
		Goroutines int      `json:"goroutines"`
		Depth      int      `json:"depth"`
		Free       int      `json:"free"` // slots freed before the racers start
	}
	if err := json.Unmarshal(in, &req); err != nil {
		return nil, err
	}
	type row struct {
		Backend     string `json:"backend"`
		Trials      int    `json:"trials"`
		MaxStored   int    `json:"max_stored"`  // most racers stored in one trial
		MinStored   int    `json:"min_stored"`
		MaxActive   int    `json:"max_active"`  // highest active count seen after a trial
		OtherErrors int    `json:"other_errors"` // answers that are neither nil nor ErrQueueFull
		FirstBad    int    `json:"first_bad_trial"`
		Err         string `json:"err,omitempty"`
	}
	var rows []row
	for _, backend := range req.Backends {
		r := row{Backend: backend, MinStored: 1 << 30, FirstBad: -1}
		for t := 0; t < req.Trials; t++ {
			clk := &clock{}
			clk.set(1800000000 * int64(time.Second))
			st, closeFn, _, err := openStore(backend, qCfg{MaxDepth: req.Depth}, clk, filepath.Join(req.Dir, fmt.Sprintf("dr-%s-%d.db", backend, t)))
			if err != nil {
				r.Err = err.Error()
				break
			}
			for i := 0; i < req.Depth; i++ {
				if err := st.Enqueue(queue.Envelope{ID: fmt.Sprintf("f%d", i), Route: "/r", Target: "t", Payload: []byte("x")}); err != nil {
					r.Err = "fill: " + err.Error()
				}
			}
			if err := st.Enqueue(queue.Envelope{ID: "over", Route: "/r", Target: "t", Payload: []byte("x")}); !errors.Is(err, queue.ErrQueueFull) {
				r.Err = fmt.Sprintf("the enqueue into the full queue was answered %v", err)
			}
			resp, err := st.Dequeue(queue.DequeueRequest{Route: "/r", Target: "t", Batch: req.Free, LeaseTTL: time.Minute})
			if err != nil || len(resp.Items) != req.Free {
				r.Err = fmt.Sprintf("dequeue: %d items, %v", len(resp.Items), err)
			}
			for _, it := range resp.Items {
				if err := st.Ack(it.LeaseID); err != nil {
					r.Err = "ack: " + err.Error()
				}
			}
			if r.Err != "" {
				closeFn()
				break
			}
			var wg sync.WaitGroup
			start := make(chan struct{})
			errs := make([]error, req.Goroutines)
			for g := 0; g < req.Goroutines; g++ {
				wg.Add(1)
				go func(g int) {
					defer wg.Done()
					<-start
					errs[g] = st.Enqueue(queue.Envelope{ID: fmt.Sprintf("r%d", g), Route: "/r", Target: "t", Payload: []byte("y")})
				}(g)
			}
			close(start)
			wg.Wait()
			stored := 0
			for _, e := range errs {
				switch {
				case e == nil:
					stored++
				case errors.Is(e, queue.ErrQueueFull):
				default:
					r.OtherErrors++
				}
			}
			active := -1
			if s, err := st.Stats(); err == nil {
				active = s.ByState[queue.StateQueued] + s.ByState[queue.StateLeased]
			}
			if stored > r.MaxStored {
				r.MaxStored = stored
			}
			if stored < r.MinStored {
				r.MinStored = stored
			}
			if active > r.MaxActive {
				r.MaxActive = active
			}
			if (stored != req.Free || active > req.Depth) && r.FirstBad < 0 {
				r.FirstBad = t
			}
			closeFn()
			r.Trials++
		}
		rows = append(rows, r)
	}
	return map[string]any{"rows": rows}, nil
}
