//go:build verif

package main

import (
	"bufio"
	"bytes"
	"context"
	"crypto/sha256"
	"encoding/hex"
	"encoding/json"
	"fmt"
	"io"
	"os"
	"path/filepath"
	"sort"
	"strconv"
	"strings"

	"github.com/nuetzliches/hookaido/internal/mcp"
	"github.com/nuetzliches/hookaido/internal/queue"
)

func init() {
	register("mcp-gate", mcpGate)
	register("mcp-confine", mcpConfine)
}

type mcpSetting struct {
	Role      string `json:"role"`
	Mut       bool   `json:"mut"`
	Rt        bool   `json:"rt"`
	Principal string `json:"principal"`
}

type mcpGateIn struct {
	Dir      string       `json:"dir"`
	Settings []mcpSetting `json:"settings"`
	Names    []string     `json:"names"`
	Actors   []string     `json:"actors"` // "" = absent
}

type mcpGateRow struct {
	Setting      int      `json:"setting"`
	Name         string   `json:"name"`
	Actor        string   `json:"actor"`
	GateAllowed  bool     `json:"gate_allowed"`
	Listed       bool     `json:"listed"`
	CallIsError  bool     `json:"call_is_error"`
	CallIsGate   bool     `json:"call_is_gate_error"` // error text equals toolAccessError text
	RPCError     bool     `json:"rpc_error"`
	AuditResults []string `json:"audit_results"`
	AuditFields  bool     `json:"audit_fields_ok"`
	AuditTool    bool     `json:"audit_tool_ok"`
	FilesSame    bool     `json:"files_same"`
}

type mcpGateOut struct {
	Rows  []mcpGateRow `json:"rows"`
	Lists [][]string   `json:"lists"`
}

const mcpValidConfig = `ingress {
  listen ":18080"
}
pull_api {
  listen ":19443"
  auth token "raw:verif-token"
}
"/hooks" {
  pull { path "/pull/hooks" }
}
`

func frame(v any) []byte {
	b, _ := json.Marshal(v)
	return []byte(fmt.Sprintf("Content-Length: %d\r\n\r\n%s", len(b), b))
}

func readFrames(out []byte) ([]map[string]any, error) {
	r := bufio.NewReader(bytes.NewReader(out))
	var res []map[string]any
	for {
		n := -1
		for {
			line, err := r.ReadString('\n')
			if err != nil {
				if err == io.EOF && n < 0 {
					return res, nil
				}
				return res, err
			}
			line = strings.TrimRight(line, "\r\n")
			if line == "" {
				break
			}
			if i := strings.IndexByte(line, ':'); i > 0 && strings.EqualFold(strings.TrimSpace(line[:i]), "Content-Length") {
				n, _ = strconv.Atoi(strings.TrimSpace(line[i+1:]))
			}
		}
		if n < 0 {
			return res, fmt.Errorf("frame without length")
		}
		buf := make([]byte, n)
		if _, err := io.ReadFull(r, buf); err != nil {
			return res, err
		}
		var m map[string]any
		if err := json.Unmarshal(buf, &m); err != nil {
			return res, err
		}
		res = append(res, m)
	}
}

func hashTree(paths ...string) string {
	h := sha256.New()
	for _, root := range paths {
		var files []string
		_ = filepath.Walk(root, func(p string, info os.FileInfo, err error) error {
			if err != nil || info.IsDir() {
				return nil
			}
			files = append(files, p)
			return nil
		})
		sort.Strings(files)
		for _, f := range files {
			b, _ := os.ReadFile(f)
			fmt.Fprintf(h, "%s:%d:", f, len(b))
			h.Write(b)
		}
	}
	return hex.EncodeToString(h.Sum(nil))
}

func newMcpServer(in io.Reader, out io.Writer, audit io.Writer, cfgPath, dbPath, pidPath string, st mcpSetting) *mcp.Server {
	return mcp.NewServer(in, out, cfgPath, dbPath,
		mcp.WithRole(mcp.Role(st.Role)),
		mcp.WithMutationsEnabled(st.Mut),
		mcp.WithRuntimeControlEnabled(st.Rt),
		mcp.WithPrincipal(st.Principal),
		mcp.WithAuditWriter(audit),
		mcp.WithRuntimeControlPIDFile(pidPath),
		mcp.WithRuntimeControlRunBinary("/nonexistent/verif-no-binary"),
	)
}

func rpcCall(srvNew func(in io.Reader, out io.Writer) *mcp.Server, reqs []any) ([]map[string]any, error) {
	var in bytes.Buffer
	for _, r := range reqs {
		in.Write(frame(r))
	}
	var out bytes.Buffer
	s := srvNew(&in, &out)
	if err := s.Serve(context.Background()); err != nil {
		return nil, err
	}
	return readFrames(out.Bytes())
}

func mcpGate(inb []byte) (any, error) {
	var in mcpGateIn
	if err := json.Unmarshal(inb, &in); err != nil {
		return nil, err
	}
	state := filepath.Join(in.Dir, "state")
	if err := os.MkdirAll(state, 0o755); err != nil {
		return nil, err
	}
	cfgPath := filepath.Join(state, "Hookaidofile")
	dbPath := filepath.Join(state, "hookaido.db")
	pidPath := filepath.Join(state, "hookaido.pid")
	if err := os.WriteFile(cfgPath, []byte(mcpValidConfig), 0o600); err != nil {
		return nil, err
	}
	st, err := queue.NewSQLiteStore(dbPath)
	if err != nil {
		return nil, err
	}
	_ = st.Enqueue(queue.Envelope{ID: "seed-1", Route: "/hooks", Target: "pull"})
	_ = st.Close()

	out := mcpGateOut{}
	for si, set := range in.Settings {
		// tools/list
		resp, err := rpcCall(func(i io.Reader, o io.Writer) *mcp.Server {
			return newMcpServer(i, o, io.Discard, cfgPath, dbPath, pidPath, set)
		}, []any{map[string]any{"jsonrpc": "2.0", "id": 1, "method": "tools/list"}})
		if err != nil {
			return nil, err
		}
		listed := map[string]bool{}
		var names []string
		if len(resp) == 1 {
			if r, ok := resp[0]["result"].(map[string]any); ok {
				if tl, ok := r["tools"].([]any); ok {
					for _, t := range tl {
						if tm, ok := t.(map[string]any); ok {
							n, _ := tm["name"].(string)
							listed[n] = true
							names = append(names, n)
						}
					}
				}
			}
		}
		out.Lists = append(out.Lists, names)
		for _, name := range in.Names {
			for _, actor := range in.Actors {
				row := mcpGateRow{Setting: si, Name: name, Actor: actor, Listed: listed[name]}
				probe := newMcpServer(nil, nil, io.Discard, cfgPath, dbPath, pidPath, set)
				gateOK, gateTxt := probe.VerifAccessError(name)
				row.GateAllowed = gateOK
				before := hashTree(state)
				var audit bytes.Buffer
				args := map[string]any{"__verif_unknown__": true}
				if actor != "" {
					args["actor"] = actor
				}
				resp, err := rpcCall(func(i io.Reader, o io.Writer) *mcp.Server {
					return newMcpServer(i, o, &audit, cfgPath, dbPath, pidPath, set)
				}, []any{map[string]any{"jsonrpc": "2.0", "id": 7, "method": "tools/call",
					"params": map[string]any{"name": name, "arguments": args}}})
				if err != nil {
					return nil, err
				}
				row.FilesSame = before == hashTree(state)
				if len(resp) != 1 {
					return nil, fmt.Errorf("expected one response for %q, got %d", name, len(resp))
				}
				if _, bad := resp[0]["error"]; bad {
					row.RPCError = true
				} else if r, ok := resp[0]["result"].(map[string]any); ok {
					row.CallIsError, _ = r["isError"].(bool)
					txt := ""
					if c, ok := r["content"].([]any); ok && len(c) > 0 {
						if cm, ok := c[0].(map[string]any); ok {
							txt, _ = cm["text"].(string)
						}
					}
					row.CallIsGate = row.CallIsError && !gateOK && txt == gateTxt
				}
				row.AuditFields = true
				row.AuditTool = true
				for _, line := range strings.Split(strings.TrimSpace(audit.String()), "\n") {
					if strings.TrimSpace(line) == "" {
						continue
					}
					var ev map[string]any
					if err := json.Unmarshal([]byte(line), &ev); err != nil {
						row.AuditFields = false
						row.AuditResults = append(row.AuditResults, "unparsable")
						continue
					}
					res, _ := ev["result"].(string)
					row.AuditResults = append(row.AuditResults, res)
					for _, k := range []string{"timestamp", "principal", "role", "tool", "input_hash", "result", "duration_ms"} {
						if _, ok := ev[k]; !ok {
							row.AuditFields = false
						}
					}
					if t, _ := ev["tool"].(string); t != name {
						row.AuditTool = false
					}
					if p, _ := ev["principal"].(string); p != strings.TrimSpace(set.Principal) {
						row.AuditFields = false
					}
				}
				if row.AuditResults == nil {
					row.AuditResults = []string{}
				}
				out.Rows = append(out.Rows, row)
			}
		}
	}
	return out, nil
}

// ---------------------------------------------------------------------------
// confinement: which files does a config-writing call touch?

type mcpConfineCase struct {
	Tool      string         `json:"tool"`
	CfgKind   string         `json:"cfg_kind"`  // "set" | "empty" | "padded"
	PathKind  string         `json:"path_kind"` // "absent" | "empty" | "same" | "padded" | "foreign" | "foreign_new" | "nonstring"
	Content   string         `json:"content"`
	Mode      string         `json:"mode"`
	Actor     string         `json:"actor"`
	Principal string         `json:"principal"`
	Extra     map[string]any `json:"extra"`
}

type mcpConfineRes struct {
	IsError        bool              `json:"is_error"`
	Text           string            `json:"text"`
	CfgChanged     bool              `json:"cfg_changed"`
	CfgContent     string            `json:"cfg_content"`
	ForeignChanged bool              `json:"foreign_changed"`
	ForeignNew     bool              `json:"foreign_new_created"`
	OtherFiles     []string          `json:"other_files"`
	AuditResults   []string          `json:"audit_results"`
	Applied        any               `json:"applied"`
	OK             any               `json:"ok"`
	Compiles       bool              `json:"cfg_compiles_after"`
	DBStates       map[string]string `json:"db_states"`
}

func mcpConfine(inb []byte) (any, error) {
	var in struct {
		Dir   string           `json:"dir"`
		Cases []mcpConfineCase `json:"cases"`
	}
	if err := json.Unmarshal(inb, &in); err != nil {
		return nil, err
	}
	var out []mcpConfineRes
	for ci, c := range in.Cases {
		dir := filepath.Join(in.Dir, fmt.Sprintf("c%d", ci))
		if err := os.MkdirAll(dir, 0o755); err != nil {
			return nil, err
		}
		cfgPath := filepath.Join(dir, "Hookaidofile")
		foreign := filepath.Join(dir, "foreign.conf")
		foreignNew := filepath.Join(dir, "foreign_new.conf")
		relForeign := filepath.Join(dir, "rel", "Hookaidofile")
		dbPath := filepath.Join(dir, "hookaido.db")
		_ = os.WriteFile(cfgPath, []byte(mcpValidConfig), 0o600)
		_ = os.WriteFile(foreign, []byte("# foreign\n"), 0o600)
		if st, err := queue.NewSQLiteStore(dbPath); err == nil {
			_ = st.Enqueue(queue.Envelope{ID: "dead-1", Route: "/hooks", Target: "pull", State: queue.StateDead, DeadReason: "x"})
			_ = st.Enqueue(queue.Envelope{ID: "q-1", Route: "/hooks", Target: "pull"})
			_ = st.Close()
		}
		srvCfg := cfgPath
		switch c.CfgKind {
		case "empty":
			srvCfg = ""
		case "padded":
			srvCfg = "  " + cfgPath + "  "
		}
		args := map[string]any{}
		for k, v := range c.Extra {
			args[k] = v
		}
		switch c.PathKind {
		case "empty":
			args["path"] = ""
		case "same":
			args["path"] = cfgPath
		case "padded":
			args["path"] = " " + cfgPath + "\t"
		case "foreign":
			args["path"] = foreign
		case "foreign_new":
			args["path"] = foreignNew
		case "nonstring":
			args["path"] = 42
		case "casefold":
			// a different file on a case-sensitive file system: same spelling up to letter case
			args["path"] = filepath.Join(dir, "hookaidofile")
		case "suffix":
			args["path"] = cfgPath + ".bak"
		case "prefixdir":
			args["path"] = filepath.Join(filepath.Dir(dir), filepath.Base(dir)+"x", "Hookaidofile")
		case "dotdot_symlink":
			// <dir>/current -> <dir>/rel/v12 ; <dir>/current/../Hookaidofile is, for the kernel, <dir>/rel/Hookaidofile - another file -
			// although it collapses lexically onto the configured path
			_ = os.MkdirAll(filepath.Join(dir, "rel", "v12"), 0o755)
			_ = os.WriteFile(relForeign, []byte("# foreign\n"), 0o600)
			_ = os.Symlink(filepath.Join(dir, "rel", "v12"), filepath.Join(dir, "current"))
			args["path"] = dir + "/current/../Hookaidofile"
		}
		if c.Tool == "config_apply" {
			args["content"] = c.Content
			if c.Mode != "" {
				args["mode"] = c.Mode
			}
		}
		if c.Actor != "" {
			args["actor"] = c.Actor
		}
		set := mcpSetting{Role: "admin", Mut: true, Rt: false, Principal: c.Principal}
		var audit bytes.Buffer
		resp, err := rpcCall(func(i io.Reader, o io.Writer) *mcp.Server {
			return newMcpServer(i, o, &audit, srvCfg, dbPath, filepath.Join(dir, "pid"), set)
		}, []any{map[string]any{"jsonrpc": "2.0", "id": 7, "method": "tools/call",
			"params": map[string]any{"name": c.Tool, "arguments": args}}})
		if err != nil {
			return nil, err
		}
		var r mcpConfineRes
		if len(resp) == 1 {
			if res, ok := resp[0]["result"].(map[string]any); ok {
				r.IsError, _ = res["isError"].(bool)
				if cc, ok := res["content"].([]any); ok && len(cc) > 0 {
					if cm, ok := cc[0].(map[string]any); ok {
						r.Text, _ = cm["text"].(string)
					}
				}
				if sc, ok := res["structuredContent"].(map[string]any); ok {
					r.Applied = sc["applied"]
					r.OK = sc["ok"]
				}
			}
		}
		if len(r.Text) > 300 {
			r.Text = r.Text[:300]
		}
		cb, _ := os.ReadFile(cfgPath)
		r.CfgChanged = string(cb) != mcpValidConfig
		r.CfgContent = string(cb)
		fb, _ := os.ReadFile(foreign)
		r.ForeignChanged = string(fb) != "# foreign\n"
		if c.PathKind == "dotdot_symlink" {
			rb, _ := os.ReadFile(relForeign)
			if string(rb) != "# foreign\n" {
				r.ForeignChanged = true
			}
			if rents, err := os.ReadDir(filepath.Join(dir, "rel")); err == nil && len(rents) != 2 {
				r.ForeignNew = true
			}
		}
		if _, err := os.Stat(foreignNew); err == nil {
			r.ForeignNew = true
		}
		ents, _ := os.ReadDir(dir)
		for _, e := range ents {
			switch e.Name() {
			case "Hookaidofile", "foreign.conf", "foreign_new.conf", "hookaido.db", "hookaido.db-wal", "hookaido.db-shm", "current", "rel":
			default:
				r.OtherFiles = append(r.OtherFiles, e.Name())
			}
		}
		for _, line := range strings.Split(strings.TrimSpace(audit.String()), "\n") {
			if strings.TrimSpace(line) == "" {
				continue
			}
			var ev map[string]any
			if json.Unmarshal([]byte(line), &ev) == nil {
				s, _ := ev["result"].(string)
				r.AuditResults = append(r.AuditResults, s)
			}
		}
		r.Compiles = configCompiles(cb)
		r.DBStates = map[string]string{}
		if st, err := queue.NewSQLiteStore(dbPath); err == nil {
			if lr, err := st.ListMessages(queue.MessageListRequest{Limit: 100, Order: "asc"}); err == nil {
				for _, it := range lr.Items {
					r.DBStates[it.ID] = string(it.State)
				}
			}
			_ = st.Close()
		}
		out = append(out, r)
	}
	return out, nil
}
