//go:build verif

package main

// lease-horizon: lease TTLs so long that now+ttl leaves the int64 nanosecond range (year 2262).  The queue model is over unbounded
// integers, so these inputs are judged on the implementation directly (C03: a message whose lease has not ended is never handed out
// again; C04: the holder's lease operations keep working).

import (
	"encoding/json"
	"path/filepath"
	"time"

	"github.com/nuetzliches/hookaido/internal/queue"
)

func init() { register("lease-horizon", leaseHorizon) }

type lhRow struct {
	Backend       string `json:"backend"`
	TTLNs         int64  `json:"ttl_ns"`
	FirstItems    int    `json:"first_items"`
	UntilAfterNow bool   `json:"lease_until_after_now"`
	SecondItems   int    `json:"second_items"` // a dequeue one second later
	ExtendErr     string `json:"extend_err"`   // the first holder extends afterwards
	AckErr        string `json:"ack_err"`
	Err           string `json:"err,omitempty"`
}

func leaseHorizon(in []byte) (any, error) {
	var req struct {
		Dir   string  `json:"dir"`
		TTLs  []int64 `json:"ttls_ns"`
		NowNs int64   `json:"now_ns"`
	}
	if err := json.Unmarshal(in, &req); err != nil {
		return nil, err
	}
	var rows []lhRow
	for _, backend := range []string{"memory", "sqlite"} {
		for k, ttl := range req.TTLs {
			clk := &clock{}
			clk.set(req.NowNs)
			st, closeFn, _, err := openStore(backend, qCfg{}, clk, filepath.Join(req.Dir, "lh-"+backend+"-"+itoa(k)+".db"))
			row := lhRow{Backend: backend, TTLNs: ttl}
			if err != nil {
				row.Err = err.Error()
				rows = append(rows, row)
				continue
			}
			_ = st.Enqueue(queue.Envelope{ID: "lh", Route: "/r", Target: "t", Payload: []byte("x")})
			r1, err := st.Dequeue(queue.DequeueRequest{Route: "/r", Target: "t", Batch: 1, LeaseTTL: time.Duration(ttl)})
			if err != nil {
				row.Err = err.Error()
			}
			row.FirstItems = len(r1.Items)
			if len(r1.Items) == 1 {
				row.UntilAfterNow = r1.Items[0].LeaseUntil.After(clk.now())
				clk.set(req.NowNs + int64(time.Second))
				r2, _ := st.Dequeue(queue.DequeueRequest{Route: "/r", Target: "t", Batch: 5, LeaseTTL: time.Second})
				row.SecondItems = len(r2.Items)
				if e := st.Extend(r1.Items[0].LeaseID, time.Second); e != nil {
					row.ExtendErr = e.Error()
				}
				if e := st.Ack(r1.Items[0].LeaseID); e != nil {
					row.AckErr = e.Error()
				}
			}
			closeFn()
			rows = append(rows, row)
		}
	}
	return map[string]any{"rows": rows}, nil
}

// schedule-horizon: publish-supplied instants outside the int64 nanosecond range (next_run_at after 2262-04-11, received_at before
// 1677-09-21; the Admin publish API accepts any RFC 3339 instant).  C05: a message scheduled for the future is not offered before its
// time; C12/C13: the oldest message is the one with the earliest received_at on either backend.
func init() { register("schedule-horizon", scheduleHorizon) }

type shRow struct {
	Backend   string `json:"backend"`
	Case      string `json:"case"`
	Offered   int    `json:"offered_now"`   // items a dequeue at the current clock returns for the far-future message's route
	State     string `json:"state"`         // of the far-future message afterwards
	NextAfter bool   `json:"next_after_now"` // its listed next_run_at is after the clock
	Evicted   string `json:"evicted"`        // drop_oldest case: which message made room
	Err       string `json:"err,omitempty"`
}

func scheduleHorizon(in []byte) (any, error) {
	var req struct {
		Dir   string  `json:"dir"`
		NowNs int64   `json:"now_ns"`
		Years []int   `json:"years"`      // next_run_at = 1 January of that year
		Old   []int   `json:"old_years"` // received_at = 1 January of that year (drop_oldest victim)
	}
	if err := json.Unmarshal(in, &req); err != nil {
		return nil, err
	}
	var rows []shRow
	for _, backend := range []string{"memory", "sqlite"} {
		for k, y := range req.Years {
			clk := &clock{}
			clk.set(req.NowNs)
			st, closeFn, _, err := openStore(backend, qCfg{}, clk, filepath.Join(req.Dir, "sh-"+backend+"-"+itoa(k)+".db"))
			row := shRow{Backend: backend, Case: "next_run_at-" + itoa(y/100) + itoa(y%100)}
			if err != nil {
				row.Err = err.Error()
				rows = append(rows, row)
				continue
			}
			if e := st.Enqueue(queue.Envelope{ID: "far", Route: "/r", Target: "t", Payload: []byte("x"), NextRunAt: time.Date(y, 1, 1, 0, 0, 0, 0, time.UTC)}); e != nil {
				row.Err = e.Error()
			}
			r, e := st.Dequeue(queue.DequeueRequest{Route: "/r", Target: "t", Batch: 5, LeaseTTL: time.Minute})
			if e != nil {
				row.Err = e.Error()
			}
			row.Offered = len(r.Items)
			if l, e := st.ListMessages(queue.MessageListRequest{Limit: 5}); e == nil {
				for _, m := range l.Items {
					if m.ID == "far" {
						row.State = string(m.State)
						row.NextAfter = m.NextRunAt.After(clk.now())
					}
				}
			}
			closeFn()
			rows = append(rows, row)
		}
		for k, y := range req.Old {
			clk := &clock{}
			clk.set(req.NowNs)
			st, closeFn, _, err := openStore(backend, qCfg{MaxDepth: 2, DropOldest: true}, clk, filepath.Join(req.Dir, "sho-"+backend+"-"+itoa(k)+".db"))
			row := shRow{Backend: backend, Case: "received_at-" + itoa(y/100) + itoa(y%100)}
			if err != nil {
				row.Err = err.Error()
				rows = append(rows, row)
				continue
			}
			_ = st.Enqueue(queue.Envelope{ID: "recent", Route: "/r", Target: "t", Payload: []byte("x"), ReceivedAt: time.Unix(0, req.NowNs).Add(-time.Hour).UTC()})
			_ = st.Enqueue(queue.Envelope{ID: "ancient", Route: "/r", Target: "t", Payload: []byte("x"), ReceivedAt: time.Date(y, 1, 1, 0, 0, 0, 0, time.UTC)})
			if e := st.Enqueue(queue.Envelope{ID: "new", Route: "/r", Target: "t", Payload: []byte("x")}); e != nil {
				row.Err = e.Error()
			}
			have := map[string]bool{}
			if l, e := st.ListMessages(queue.MessageListRequest{Limit: 5}); e == nil {
				for _, m := range l.Items {
					have[m.ID] = true
				}
			}
			for _, id := range []string{"recent", "ancient", "new"} {
				if !have[id] {
					row.Evicted += id
				}
			}
			closeFn()
			rows = append(rows, row)
		}
	}
	// a received_at in the far FUTURE (a replay tool stamping 2300-01-01; the Admin publish API accepts it): it is the newest message, the
	// one received an hour ago is the oldest
	for _, backend := range []string{"memory", "sqlite"} {
		for k, y := range req.Years {
			clk := &clock{}
			clk.set(req.NowNs)
			st, closeFn, _, err := openStore(backend, qCfg{MaxDepth: 2, DropOldest: true}, clk, filepath.Join(req.Dir, "shf-"+backend+"-"+itoa(k)+".db"))
			row := shRow{Backend: backend, Case: "received_at-future-" + itoa(y/100) + itoa(y%100)}
			if err != nil {
				row.Err = err.Error()
				rows = append(rows, row)
				continue
			}
			_ = st.Enqueue(queue.Envelope{ID: "future", Route: "/r", Target: "t", Payload: []byte("x"), ReceivedAt: time.Date(y, 1, 1, 0, 0, 0, 0, time.UTC)})
			_ = st.Enqueue(queue.Envelope{ID: "recent", Route: "/r", Target: "t", Payload: []byte("x"), ReceivedAt: time.Unix(0, req.NowNs).Add(-time.Hour).UTC()})
			if e := st.Enqueue(queue.Envelope{ID: "new", Route: "/r", Target: "t", Payload: []byte("x")}); e != nil {
				row.Err = e.Error()
			}
			have := map[string]bool{}
			if l, e := st.ListMessages(queue.MessageListRequest{Limit: 5}); e == nil {
				for _, m := range l.Items {
					have[m.ID] = true
				}
			}
			for _, id := range []string{"recent", "future", "new"} {
				if !have[id] {
					row.Evicted += id
				}
			}
			closeFn()
			rows = append(rows, row)
		}
	}
	return map[string]any{"rows": rows}, nil
}

// before-horizon: a `before` cursor / filter criterion outside the int64 nanosecond range (the Admin API accepts any RFC 3339 instant).
// C14: a by-filter mutation selects only messages matching every criterion - "received before the year 1600" matches nothing,
// "received before the year 2300" matches everything received so far; C13: the same on either backend.
func init() { register("before-horizon", beforeHorizon) }

type bhRow struct {
	Backend string `json:"backend"`
	Year    int    `json:"year"`
	Listed  int    `json:"listed"`          // ListMessages(before)
	Dead    int    `json:"dead_listed"`     // ListDead(before)
	Preview int    `json:"cancel_preview"`  // CancelMessagesByFilter(before, preview)
	Changed int    `json:"requeue_changed"` // RequeueMessagesByFilter(before) on the dead message
	Err     string `json:"err,omitempty"`
}

func beforeHorizon(in []byte) (any, error) {
	var req struct {
		Dir   string `json:"dir"`
		NowNs int64  `json:"now_ns"`
		Years []int  `json:"years"`
	}
	if err := json.Unmarshal(in, &req); err != nil {
		return nil, err
	}
	var rows []bhRow
	for _, backend := range []string{"memory", "sqlite"} {
		for k, y := range req.Years {
			clk := &clock{}
			clk.set(req.NowNs)
			st, closeFn, _, err := openStore(backend, qCfg{}, clk, filepath.Join(req.Dir, "bh-"+backend+"-"+itoa(k)+".db"))
			row := bhRow{Backend: backend, Year: y}
			if err != nil {
				row.Err = err.Error()
				rows = append(rows, row)
				continue
			}
			for _, id := range []string{"a", "b", "c"} {
				_ = st.Enqueue(queue.Envelope{ID: id, Route: "/r", Target: "t", Payload: []byte("x")})
			}
			if r, e := st.Dequeue(queue.DequeueRequest{Route: "/r", Target: "t", Batch: 1, LeaseTTL: time.Minute}); e == nil && len(r.Items) == 1 {
				_ = st.MarkDead(r.Items[0].LeaseID, "boom")
			}
			before := time.Date(y, 1, 1, 0, 0, 0, 0, time.UTC)
			if l, e := st.ListMessages(queue.MessageListRequest{Limit: 10, Before: before}); e == nil {
				row.Listed = len(l.Items)
			} else {
				row.Err = e.Error()
			}
			if l, e := st.ListDead(queue.DeadListRequest{Route: "/r", Limit: 10, Before: before}); e == nil {
				row.Dead = len(l.Items)
			}
			if p, e := st.CancelMessagesByFilter(queue.MessageManageFilterRequest{Route: "/r", Limit: 10, Before: before, PreviewOnly: true}); e == nil {
				row.Preview = p.Matched
			}
			if p, e := st.RequeueMessagesByFilter(queue.MessageManageFilterRequest{Route: "/r", Limit: 10, Before: before, State: queue.StateDead}); e == nil {
				row.Changed = p.Requeued
			}
			closeFn()
			rows = append(rows, row)
		}
	}
	return map[string]any{"rows": rows}, nil
}
