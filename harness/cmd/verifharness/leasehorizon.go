//go:build verif

package main

// lease-horizon: lease TTLs so long that now+ttl leaves the int64 nanosecond range (year 2262).  The queue model is over unbounded
// integers, so these inputs are judged on the implementation directly (C03: a message whose lease has not ended is never handed out
// again; C04: the holder's lease operations keep working).

import (
	"encoding/json"
	"path/filepath"
	"time"

	"github.com/nuetzliches/hookaido/internal/queue"
)

func init() { register("lease-horizon", leaseHorizon) }

type lhRow struct {
	Backend       string `json:"backend"`
	TTLNs         int64  `json:"ttl_ns"`
	FirstItems    int    `json:"first_items"`
	UntilAfterNow bool   `json:"lease_until_after_now"`
	SecondItems   int    `json:"second_items"` // a dequeue one second later
	ExtendErr     string `json:"extend_err"`   // the first holder extends afterwards
	AckErr        string `json:"ack_err"`
	Err           string `json:"err,omitempty"`
}

func leaseHorizon(in []byte) (any, error) {
	var req struct {
		Dir   string  `json:"dir"`
		TTLs  []int64 `json:"ttls_ns"`
		NowNs int64   `json:"now_ns"`
	}
	if err := json.Unmarshal(in, &req); err != nil {
		return nil, err
	}
	var rows []lhRow
	for _, backend := range []string{"memory", "sqlite"} {
		for k, ttl := range req.TTLs {
			clk := &clock{}
			clk.set(req.NowNs)
			st, closeFn, _, err := openStore(backend, qCfg{}, clk, filepath.Join(req.Dir, "lh-"+backend+"-"+itoa(k)+".db"))
			row := lhRow{Backend: backend, TTLNs: ttl}
			if err != nil {
				row.Err = err.Error()
				rows = append(rows, row)
				continue
			}
			_ = st.Enqueue(queue.Envelope{ID: "lh", Route: "/r", Target: "t", Payload: []byte("x")})
			r1, err := st.Dequeue(queue.DequeueRequest{Route: "/r", Target: "t", Batch: 1, LeaseTTL: time.Duration(ttl)})
			if err != nil {
				row.Err = err.Error()
			}
			row.FirstItems = len(r1.Items)
			if len(r1.Items) == 1 {
				row.UntilAfterNow = r1.Items[0].LeaseUntil.After(clk.now())
				clk.set(req.NowNs + int64(time.Second))
				r2, _ := st.Dequeue(queue.DequeueRequest{Route: "/r", Target: "t", Batch: 5, LeaseTTL: time.Second})
				row.SecondItems = len(r2.Items)
				if e := st.Extend(r1.Items[0].LeaseID, time.Second); e != nil {
					row.ExtendErr = e.Error()
				}
				if e := st.Ack(r1.Items[0].LeaseID); e != nil {
					row.AckErr = e.Error()
				}
			}
			closeFn()
			rows = append(rows, row)
		}
	}
	return map[string]any{"rows": rows}, nil
}
