//go:build verif

package main

import (
	"github.com/nuetzliches/hookaido/internal/config"
)

func configCompiles(b []byte) bool {
	cfg, err := config.Parse(b)
	if err != nil {
		return false
	}
	_, res := config.Compile(cfg)
	return res.OK
}
