//go:build verif

package main

import (
	"encoding/json"
	"errors"
	"fmt"
	"os"
	"path/filepath"
	"strings"
	"sync"
	"time"

	"github.com/nuetzliches/hookaido/internal/app"
	"github.com/nuetzliches/hookaido/internal/config"
	"github.com/nuetzliches/hookaido/internal/queue"
)

func init() {
	register("queue", queueRun)
}

// ---------------------------------------------------------------------------
// input

type qCfg struct {
	MaxDepth   int    `json:"max_depth"`
	DropOldest bool   `json:"drop_oldest"`
	RetAge     int64  `json:"ret_age"`
	PruneIv    int64  `json:"prune_iv"`
	DelivAge   int64  `json:"deliv_age"`
	DlqAge     int64  `json:"dlq_age"`
	DlqDepth   int    `json:"dlq_depth"`
	PressItems int    `json:"press_items"`
	Policy     string `json:"policy_raw"` // optional raw spelling of the drop policy
}

type qEnq struct {
	ID     string `json:"id"`
	Route  string `json:"route"`
	Target string `json:"target"`
	Recv   *int64 `json:"recv"`
	Next   *int64 `json:"next"`
	Body   int    `json:"body"`
	Hdr    int    `json:"hdr"`
	Trace  int    `json:"trace"`
}

type qLRef struct {
	Ref     []int  `json:"ref"` // [op index, item index]
	Pad     bool   `json:"pad"`
	Raw     string `json:"raw"`
	Unknown bool   `json:"unknown"`
	Suffix  string `json:"suffix"` // appended to the referenced lease id: an id nobody issued that starts with a real one
}

type qFilt struct {
	Route   string `json:"route"`
	Target  string `json:"target"`
	State   string `json:"state"`
	Limit   int    `json:"limit"`
	Before  *int64 `json:"before"`
	Preview bool   `json:"preview"`
	Order   string `json:"order"`
}

type qOp struct {
	Op     string   `json:"op"`
	Now    int64    `json:"now"`
	Enq    []qEnq   `json:"enq"`
	Route  string   `json:"route"`
	Target string   `json:"target"`
	Batch  int      `json:"batch"`
	TTL    int64    `json:"ttl"`
	Kind   string   `json:"kind"` // ack|nack|extend|dead ; cancel|requeue|resume|requeue_dead|delete_dead
	Dur    int64    `json:"dur"`
	Reason string   `json:"reason"`
	Lease  *qLRef   `json:"lease"`
	Leases []qLRef  `json:"leases"`
	IDs    []string `json:"ids"`
	Filt   *qFilt   `json:"filt"`
	Snap   bool     `json:"snap"` // take a snapshot after this step (default: yes unless snap_every set)
}

type qHistory struct {
	Cfg       qCfg  `json:"cfg"`
	Ops       []qOp `json:"ops"`
	SnapEvery int   `json:"snap_every"` // 0/1: after every step
}

type qIn struct {
	Dir       string     `json:"dir"`
	Backends  []string   `json:"backends"`
	Histories []qHistory `json:"histories"`
	Par       int        `json:"par"`
}

// ---------------------------------------------------------------------------
// output

type qRow struct {
	ID      string            `json:"id"`
	Route   string            `json:"route"`
	Target  string            `json:"target"`
	State   string            `json:"state"`
	Recv    int64             `json:"recv"`
	Attempt int               `json:"attempt"`
	Next    int64             `json:"next"`
	Payload string            `json:"payload"`
	Headers map[string]string `json:"headers,omitempty"`
	Trace   map[string]string `json:"trace,omitempty"`
	Reason  string            `json:"reason"`
	Lease   string            `json:"lease"`
	Until   int64             `json:"until"`
}

type qConflict struct {
	Lease   string `json:"lease"`
	Expired bool   `json:"expired"`
}

type qRes struct {
	Err       string      `json:"err,omitempty"` // "", not_found, expired, full, pressure, exists, other:<text>
	Count     int         `json:"count"`
	Matched   int         `json:"matched"`
	Preview   bool        `json:"preview"`
	Items     []qRow      `json:"items,omitempty"`
	Succeeded int         `json:"succeeded"`
	Conflicts []qConflict `json:"conflicts,omitempty"`
	Listed    []qRow      `json:"listed,omitempty"`
	Lookup    [][3]string `json:"lookup,omitempty"`
	Stats     map[string]int `json:"stats,omitempty"`
	StatsAge  []int64     `json:"stats_age,omitempty"` // oldest queued received_at, earliest queued next_run_at (unix ns, 0 = none), oldest age, ready lag
	StatsTop  [][]string  `json:"stats_top,omitempty"` // top backlog buckets: route, target, queued, oldest, earliest, age, lag
	Total     int         `json:"total"`
	Leases    []string    `json:"lease_args,omitempty"` // the concrete lease strings presented
}

type qStepOut struct {
	Res  qRes   `json:"res"`
	Snap []qRow `json:"snap"`
	HasSnap bool `json:"has_snap"`
	Counters []int `json:"counters,omitempty"`
}

type qHistOut struct {
	Backend string     `json:"backend"`
	Steps   []qStepOut `json:"steps"`
	Fatal   string     `json:"fatal,omitempty"`
}

// ---------------------------------------------------------------------------

func bodyOf(h int) []byte {
	if h == 0 {
		return nil
	}
	return []byte(fmt.Sprintf("body-%d\x00\xff", h))
}

func mapOf(prefix string, h int) map[string]string {
	if h == 0 {
		return nil
	}
	return map[string]string{prefix: fmt.Sprintf("%d", h), "X-Verif": verifCompanion[h%len(verifCompanion)]}
}

// values a header / trace map must bring back byte for byte whatever the store's encoding of the map (twin: COMPANION in
// lib/queuecheck.py): quotes and non-ASCII, backslashes that look like escapes (valid and invalid ones), HTML-sensitive characters,
// plain text, a tab, the JSON-hostile line separator
var verifCompanion = []string{"v\"é", "plain-value", "C:\\new\\table.json", "^a\\\\d+$", "C:\\hooks\\inbox", "a<b>&c", "tab\there", "sep\u2028end", "\\u0041\\"}

func toRow(e queue.Envelope) qRow {
	r := qRow{ID: e.ID, Route: e.Route, Target: e.Target, State: string(e.State), Attempt: e.Attempt,
		Payload: string(e.Payload), Headers: e.Headers, Trace: e.Trace, Reason: e.DeadReason, Lease: e.LeaseID}
	if !e.ReceivedAt.IsZero() {
		r.Recv = e.ReceivedAt.UnixNano()
	}
	if !e.NextRunAt.IsZero() {
		r.Next = e.NextRunAt.UnixNano()
	}
	if !e.LeaseUntil.IsZero() {
		r.Until = e.LeaseUntil.UnixNano()
	}
	if len(r.Headers) == 0 {
		r.Headers = nil
	}
	if len(r.Trace) == 0 {
		r.Trace = nil
	}
	return r
}

func errKind(err error) string {
	switch {
	case err == nil:
		return ""
	case errors.Is(err, queue.ErrLeaseNotFound):
		return "not_found"
	case errors.Is(err, queue.ErrLeaseExpired):
		return "expired"
	case errors.Is(err, queue.ErrQueueFull):
		return "full"
	case errors.Is(err, queue.ErrMemoryPressure):
		return "pressure"
	case errors.Is(err, queue.ErrEnvelopeExists):
		return "exists"
	default:
		if strings.Contains(err.Error(), "invalid message order") {
			return "invalid"
		}
		return "other:" + err.Error()
	}
}

type qStore interface {
	queue.Store
	queue.LeaseBatchStore
	queue.BatchEnqueuer
}

type clock struct {
	mu sync.Mutex
	t  time.Time
}

func (c *clock) now() time.Time { c.mu.Lock(); defer c.mu.Unlock(); return c.t }
func (c *clock) set(ns int64)   { c.mu.Lock(); c.t = time.Unix(0, ns).UTC(); c.mu.Unlock() }

func compiledFor(backend string, cfg qCfg, policy string) config.Compiled {
	return config.Compiled{
		Routes:             []config.CompiledRoute{{Path: "/verif", QueueBackend: backend}},
		QueueLimits:        config.QueueLimitsConfig{MaxDepth: cfg.MaxDepth, DropPolicy: policy},
		QueueRetention:     config.QueueRetentionConfig{MaxAge: time.Duration(cfg.RetAge), PruneInterval: time.Duration(cfg.PruneIv), Enabled: true},
		DeliveredRetention: config.DeliveredRetentionConfig{MaxAge: time.Duration(cfg.DelivAge), Enabled: cfg.DelivAge > 0},
		DLQRetention:       config.DLQRetentionConfig{MaxAge: time.Duration(cfg.DlqAge), MaxDepth: cfg.DlqDepth, Enabled: true},
	}
}

func openStore(backend string, cfg qCfg, clk *clock, dbPath string) (qStore, func(), func() ([]qRow, []int, error), error) {
	policy := "reject"
	if cfg.DropOldest {
		policy = "drop_oldest"
	}
	if cfg.Policy != "" {
		policy = cfg.Policy
	}
	switch backend {
	case "memory":
		// the store is built by the application's own constructor (run.go newQueueStore) from a compiled configuration,
		// so the plumbing configuration -> store options is part of what is checked; the clock is injected afterwards
		st, _, err := app.VerifNewQueueStore(compiledFor("memory", cfg, policy), dbPath)
		if err != nil {
			return nil, nil, nil, err
		}
		s, ok := st.(*queue.MemoryStore)
		if !ok {
			return nil, nil, nil, fmt.Errorf("newQueueStore(memory) returned %T", st)
		}
		queue.WithNowFunc(clk.now)(s)
		if cfg.PressItems > 0 {
			queue.WithMemoryPressureLimits(cfg.PressItems, 0)(s)
		}
		snap := func() ([]qRow, []int, error) {
			envs := s.VerifSnapshot()
			out := make([]qRow, 0, len(envs))
			for _, e := range envs {
				out = append(out, toRow(e))
			}
			return out, nil, nil
		}
		return s, func() {}, snap, nil
	case "sqlite":
		st, _, err := app.VerifNewQueueStore(compiledFor("sqlite", cfg, policy), dbPath)
		if err != nil {
			return nil, nil, nil, err
		}
		s, ok := st.(*queue.SQLiteStore)
		if !ok {
			return nil, nil, nil, fmt.Errorf("newQueueStore(sqlite) returned %T", st)
		}
		queue.WithSQLiteNowFunc(clk.now)(s)
		queue.WithSQLiteCheckpointInterval(0)(s)
		snap := func() ([]qRow, []int, error) {
			envs, err := s.VerifSnapshot()
			if err != nil {
				return nil, nil, err
			}
			out := make([]qRow, 0, len(envs))
			for _, e := range envs {
				out = append(out, toRow(e))
			}
			q, l, err := s.VerifCounters()
			if err != nil {
				return nil, nil, err
			}
			return out, []int{q, l}, nil
		}
		return s, func() { _ = s.Close() }, snap, nil
	}
	return nil, nil, nil, fmt.Errorf("unknown backend %q", backend)
}

func resolveLease(ref qLRef, results []qRes) string {
	if ref.Unknown {
		return "lease_ffffffffffffffff"
	}
	if ref.Ref == nil {
		return ref.Raw
	}
	s := "lease_0000000000000000"
	if len(ref.Ref) == 2 && ref.Ref[0] >= 0 && ref.Ref[0] < len(results) {
		items := results[ref.Ref[0]].Items
		if ref.Ref[1] >= 0 && ref.Ref[1] < len(items) {
			s = items[ref.Ref[1]].Lease
		}
	}
	s += ref.Suffix
	if ref.Pad {
		return " " + s + "\t"
	}
	return s
}

func toFilter(f *qFilt) queue.MessageManageFilterRequest {
	r := queue.MessageManageFilterRequest{Route: f.Route, Target: f.Target, State: queue.State(f.State), Limit: f.Limit, PreviewOnly: f.Preview}
	if f.Before != nil {
		r.Before = time.Unix(0, *f.Before).UTC()
	}
	return r
}

func runHistory(backend string, h qHistory, dbPath string) (out qHistOut) {
	out.Backend = backend
	defer func() {
		if r := recover(); r != nil {
			out.Fatal = fmt.Sprintf("panic: %v", r)
		}
	}()
	clk := &clock{}
	clk.set(1)
	st, closeFn, snap, err := openStore(backend, h.Cfg, clk, dbPath)
	if err != nil {
		out.Fatal = err.Error()
		return
	}
	defer func() { closeFn() }()
	var results []qRes
	for i, op := range h.Ops {
		clk.set(op.Now)
		var res qRes
		switch op.Op {
		case "enqueue", "enqueue_batch":
			envs := make([]queue.Envelope, 0, len(op.Enq))
			for _, e := range op.Enq {
				env := queue.Envelope{ID: e.ID, Route: e.Route, Target: e.Target, Payload: bodyOf(e.Body),
					Headers: mapOf("X-H", e.Hdr), Trace: mapOf("t", e.Trace)}
				if e.Recv != nil {
					env.ReceivedAt = time.Unix(0, *e.Recv).UTC()
				}
				if e.Next != nil {
					env.NextRunAt = time.Unix(0, *e.Next).UTC()
				}
				envs = append(envs, env)
			}
			if op.Op == "enqueue" {
				res.Err = errKind(st.Enqueue(envs[0]))
			} else {
				n, err := st.EnqueueBatch(envs)
				res.Count = n
				res.Err = errKind(err)
			}
		case "dequeue":
			resp, err := st.Dequeue(queue.DequeueRequest{Route: op.Route, Target: op.Target, Batch: op.Batch, LeaseTTL: time.Duration(op.TTL)})
			res.Err = errKind(err)
			for _, it := range resp.Items {
				res.Items = append(res.Items, toRow(it))
			}
		case "lease":
			l := resolveLease(*op.Lease, results)
			res.Leases = []string{l}
			var err error
			switch op.Kind {
			case "ack":
				err = st.Ack(l)
			case "nack":
				err = st.Nack(l, time.Duration(op.Dur))
			case "extend":
				err = st.Extend(l, time.Duration(op.Dur))
			case "dead":
				err = st.MarkDead(l, op.Reason)
			}
			res.Err = errKind(err)
		case "lease_batch":
			ls := make([]string, 0, len(op.Leases))
			for _, r := range op.Leases {
				ls = append(ls, resolveLease(r, results))
			}
			res.Leases = ls
			var br queue.LeaseBatchResult
			var err error
			switch op.Kind {
			case "ack":
				br, err = st.AckBatch(ls)
			case "nack":
				br, err = st.NackBatch(ls, time.Duration(op.Dur))
			case "dead":
				br, err = st.MarkDeadBatch(ls, op.Reason)
			}
			res.Err = errKind(err)
			res.Succeeded = br.Succeeded
			for _, c := range br.Conflicts {
				res.Conflicts = append(res.Conflicts, qConflict{Lease: c.LeaseID, Expired: c.Expired})
			}
		case "manage":
			var err error
			switch op.Kind {
			case "cancel":
				var r queue.MessageCancelResponse
				r, err = st.CancelMessages(queue.MessageCancelRequest{IDs: op.IDs})
				res.Count, res.Matched, res.Preview = r.Canceled, r.Matched, r.PreviewOnly
			case "requeue":
				var r queue.MessageRequeueResponse
				r, err = st.RequeueMessages(queue.MessageRequeueRequest{IDs: op.IDs})
				res.Count, res.Matched, res.Preview = r.Requeued, r.Matched, r.PreviewOnly
			case "resume":
				var r queue.MessageResumeResponse
				r, err = st.ResumeMessages(queue.MessageResumeRequest{IDs: op.IDs})
				res.Count, res.Matched, res.Preview = r.Resumed, r.Matched, r.PreviewOnly
			case "requeue_dead":
				var r queue.DeadRequeueResponse
				r, err = st.RequeueDead(queue.DeadRequeueRequest{IDs: op.IDs})
				res.Count = r.Requeued
			case "delete_dead":
				var r queue.DeadDeleteResponse
				r, err = st.DeleteDead(queue.DeadDeleteRequest{IDs: op.IDs})
				res.Count = r.Deleted
			}
			res.Err = errKind(err)
		case "manage_f":
			var err error
			f := toFilter(op.Filt)
			switch op.Kind {
			case "cancel":
				var r queue.MessageCancelResponse
				r, err = st.CancelMessagesByFilter(f)
				res.Count, res.Matched, res.Preview = r.Canceled, r.Matched, r.PreviewOnly
			case "requeue":
				var r queue.MessageRequeueResponse
				r, err = st.RequeueMessagesByFilter(f)
				res.Count, res.Matched, res.Preview = r.Requeued, r.Matched, r.PreviewOnly
			case "resume":
				var r queue.MessageResumeResponse
				r, err = st.ResumeMessagesByFilter(f)
				res.Count, res.Matched, res.Preview = r.Resumed, r.Matched, r.PreviewOnly
			}
			res.Err = errKind(err)
		case "list":
			req := queue.MessageListRequest{Route: op.Filt.Route, Target: op.Filt.Target, State: queue.State(op.Filt.State),
				Order: op.Filt.Order, Limit: op.Filt.Limit, IncludePayload: true, IncludeHeaders: true, IncludeTrace: true}
			if op.Filt.Before != nil {
				req.Before = time.Unix(0, *op.Filt.Before).UTC()
			}
			r, err := st.ListMessages(req)
			res.Err = errKind(err)
			for _, it := range r.Items {
				res.Listed = append(res.Listed, toRow(it))
			}
		case "list_dead":
			req := queue.DeadListRequest{Route: op.Filt.Route, Limit: op.Filt.Limit, IncludePayload: true, IncludeHeaders: true, IncludeTrace: true}
			if op.Filt.Before != nil {
				req.Before = time.Unix(0, *op.Filt.Before).UTC()
			}
			r, err := st.ListDead(req)
			res.Err = errKind(err)
			for _, it := range r.Items {
				res.Listed = append(res.Listed, toRow(it))
			}
		case "lookup":
			r, err := st.LookupMessages(queue.MessageLookupRequest{IDs: op.IDs})
			res.Err = errKind(err)
			for _, it := range r.Items {
				res.Lookup = append(res.Lookup, [3]string{it.ID, it.Route, string(it.State)})
			}
		case "stats":
			r, err := st.Stats()
			res.Err = errKind(err)
			res.Total = r.Total
			res.Stats = map[string]int{}
			for k, v := range r.ByState {
				res.Stats[string(k)] = v
			}
			uns := func(t time.Time) int64 {
				if t.IsZero() {
					return 0
				}
				return t.UnixNano()
			}
			res.StatsAge = []int64{uns(r.OldestQueuedReceivedAt), uns(r.EarliestQueuedNextRun), int64(r.OldestQueuedAge), int64(r.ReadyLag)}
			for _, b := range r.TopQueued {
				res.StatsTop = append(res.StatsTop, []string{b.Route, b.Target, fmt.Sprint(b.Queued), fmt.Sprint(uns(b.OldestQueuedReceivedAt)),
					fmt.Sprint(uns(b.EarliestQueuedNextRun)), fmt.Sprint(int64(b.OldestQueuedAge)), fmt.Sprint(int64(b.ReadyLag))})
			}
		case "reopen":
			if backend == "sqlite" {
				closeFn()
				st, closeFn, snap, err = openStore(backend, h.Cfg, clk, dbPath)
				if err != nil {
					out.Fatal = "reopen: " + err.Error()
					closeFn = func() {}
					return
				}
			}
		default:
			out.Fatal = fmt.Sprintf("unknown op %q", op.Op)
			return
		}
		results = append(results, res)
		step := qStepOut{Res: res}
		every := h.SnapEvery
		if every <= 1 || (i+1)%every == 0 || i == len(h.Ops)-1 || op.Snap {
			rows, counters, err := snap()
			if err != nil {
				out.Fatal = "snapshot: " + err.Error()
				return
			}
			step.Snap = rows
			step.HasSnap = true
			step.Counters = counters
		}
		out.Steps = append(out.Steps, step)
	}
	return
}

func queueRun(inb []byte) (any, error) {
	var in qIn
	if err := json.Unmarshal(inb, &in); err != nil {
		return nil, err
	}
	if in.Par <= 0 {
		in.Par = 8
	}
	if len(in.Backends) == 0 {
		in.Backends = []string{"memory", "sqlite"}
	}
	type job struct{ hi, bi int }
	outs := make([][]qHistOut, len(in.Histories))
	for i := range outs {
		outs[i] = make([]qHistOut, len(in.Backends))
	}
	jobs := make(chan job)
	var wg sync.WaitGroup
	for w := 0; w < in.Par; w++ {
		wg.Add(1)
		go func(w int) {
			defer wg.Done()
			for j := range jobs {
				dir := filepath.Join(in.Dir, fmt.Sprintf("q-%d-%d", j.hi, j.bi))
				_ = os.MkdirAll(dir, 0o755)
				outs[j.hi][j.bi] = runHistory(in.Backends[j.bi], in.Histories[j.hi], filepath.Join(dir, "q.db"))
				_ = os.RemoveAll(dir)
			}
		}(w)
	}
	for hi := range in.Histories {
		for bi := range in.Backends {
			jobs <- job{hi, bi}
		}
	}
	close(jobs)
	wg.Wait()
	return outs, nil
}
