//go:build verif

package main

// C15 driver: real config.Parse/Compile -> real app.startServers wiring (through the
// white-box shim app.VerifC15Start) on a memory or SQLite store chosen here, requests over
// real loopback HTTP to the Admin API.  After every request the stored messages are read
// back (store snapshot + GET /messages).

import (
	"errors"
	"bytes"
	"encoding/base64"
	"encoding/json"
	"fmt"
	"io"
	"net"
	"net/http"
	"net/url"
	"os"
	"path/filepath"
	"sort"
	"strings"
	"sync"
	"time"

	"github.com/nuetzliches/hookaido/internal/app"
	"github.com/nuetzliches/hookaido/internal/config"
	"github.com/nuetzliches/hookaido/internal/queue"
)

func init() {
	register("publish", publishRun)
}

type pubSetup struct {
	ID      string            `json:"id"`
	Route   string            `json:"route"`
	Target  string            `json:"target"`
	Recv    int64             `json:"recv"`
	Payload string            `json:"payload_b64"`
	Headers map[string]string `json:"headers"`
	Cancel  bool              `json:"cancel"`
	MayBeRefused bool         `json:"may_be_refused"` // the enqueue may be answered ErrQueueFull (and then stores nothing)
	CancelOnly   bool         `json:"cancel_only"`    // no enqueue: cancel the message of that id stored by an earlier entry
}

type pubRequest struct {
	Scoped bool              `json:"scoped"`
	App    string            `json:"app"`
	Ep     string            `json:"ep"`
	Audit  map[string]string `json:"audit"` // header name -> value
	Body   string            `json:"body"`
}

type pubGroup struct {
	Config   string       `json:"config"` // %INGRESS% %PULL% %ADMIN% are replaced by free loopback addresses
	Backend  string       `json:"backend"`
	NoBatch  bool         `json:"nobatch"`
	Now      int64        `json:"now"`
	Setup    []pubSetup   `json:"setup"`
	Requests []pubRequest `json:"requests"`
}

type pubIn struct {
	Dir    string     `json:"dir"`
	Groups []pubGroup `json:"groups"`
	Par    int        `json:"par"`
}

type pubRow struct {
	ID      string            `json:"id"`
	Route   string            `json:"route"`
	Target  string            `json:"target"`
	State   string            `json:"state"`
	Recv    int64             `json:"recv"`
	Next    int64             `json:"next"`
	Attempt int               `json:"attempt"`
	Lease   string            `json:"lease"`
	Payload string            `json:"payload_b64"`
	Headers map[string]string `json:"headers,omitempty"`
	Trace   map[string]string `json:"trace,omitempty"`
}

type pubResp struct {
	Status    int      `json:"status"`
	Code      string   `json:"code"`
	Detail    string   `json:"detail"`
	ItemIndex int      `json:"item_index"` // -1 when absent
	Published int      `json:"published"`
	After     []pubRow `json:"after"`
	API       []string `json:"api"` // "id|state|payload_b64" from GET /messages, sorted
	APIStatus int      `json:"api_status"`
	Err       string   `json:"err,omitempty"`
}

type pubRouteDump struct {
	Path       string   `json:"path"`
	Targets    []string `json:"targets"`
	Pull       bool     `json:"pull"`
	Publish    bool     `json:"publish"`
	Direct     bool     `json:"direct"`
	Managed    bool     `json:"managed"`
	MaxBody    int64    `json:"max_body"`
	MaxHeaders int      `json:"max_headers"`
	App        string   `json:"app"`
	Ep         string   `json:"ep"`
}

type pubCompiled struct {
	Routes       []pubRouteDump `json:"routes"`
	Direct       bool           `json:"direct"`
	Managed      bool           `json:"managed"`
	AllowPull    bool           `json:"allow_pull"`
	AllowDeliver bool           `json:"allow_deliver"`
	ReqActor     bool           `json:"require_actor"`
	ReqReqID     bool           `json:"require_request_id"`
	FailClosed   bool           `json:"fail_closed"`
	ActorAllow   []string       `json:"actor_allow"`
	ActorPrefix  []string       `json:"actor_prefix"`
	MaxBody      int64          `json:"max_body"`
	MaxHeaders   int            `json:"max_headers"`
	MaxDepth     int            `json:"max_depth"`
	DropPolicy   string         `json:"drop_policy"`
	RetAge       int64          `json:"ret_age"`
	PruneIv      int64          `json:"prune_iv"`
	DelivAge     int64          `json:"deliv_age"`
	DlqAge       int64          `json:"dlq_age"`
	DlqDepth     int            `json:"dlq_depth"`
	AdminPrefix  string         `json:"admin_prefix"`
}

type pubGroupOut struct {
	Err      string      `json:"err,omitempty"`
	Compiled pubCompiled `json:"compiled"`
	Setup    []pubRow    `json:"setup"`
	Resps    []pubResp   `json:"resps"`
}

// pubNoBatchStore has the method set of queue.Store only (like PostgresStore: no EnqueueBatch).
type pubNoBatchStore struct{ queue.Store }

type pubClock struct {
	mu sync.Mutex
	t  time.Time
}

func (c *pubClock) now() time.Time { c.mu.Lock(); defer c.mu.Unlock(); return c.t }
func (c *pubClock) set(ns int64)   { c.mu.Lock(); c.t = time.Unix(0, ns).UTC(); c.mu.Unlock() }

var pubPortMu sync.Mutex

func pubFreeAddrs(n int) ([]string, error) {
	pubPortMu.Lock()
	defer pubPortMu.Unlock()
	var lns []net.Listener
	var out []string
	for i := 0; i < n; i++ {
		ln, err := net.Listen("tcp", "127.0.0.1:0")
		if err != nil {
			return nil, err
		}
		lns = append(lns, ln)
		out = append(out, ln.Addr().String())
	}
	for _, ln := range lns {
		_ = ln.Close()
	}
	return out, nil
}

func pubCompileWithAddrs(text string) (config.Compiled, []string, error) {
	addrs, err := pubFreeAddrs(4)
	if err != nil {
		return config.Compiled{}, nil, err
	}
	text = strings.ReplaceAll(text, "%INGRESS%", addrs[0])
	text = strings.ReplaceAll(text, "%PULL%", addrs[1])
	text = strings.ReplaceAll(text, "%ADMIN%", addrs[2])
	text = strings.ReplaceAll(text, "%GRPC%", addrs[3])
	cfg, err := config.Parse([]byte(text))
	if err != nil {
		return config.Compiled{}, nil, fmt.Errorf("parse: %v", err)
	}
	compiled, res := config.Compile(cfg)
	if !res.OK {
		return config.Compiled{}, nil, fmt.Errorf("compile: %v", res.Errors)
	}
	return compiled, addrs, nil
}

func pubDumpCompiled(c config.Compiled) pubCompiled {
	out := pubCompiled{
		Direct: c.Defaults.PublishPolicy.DirectEnabled, Managed: c.Defaults.PublishPolicy.ManagedEnabled,
		AllowPull: c.Defaults.PublishPolicy.AllowPullRoutes, AllowDeliver: c.Defaults.PublishPolicy.AllowDeliverRoutes,
		ReqActor: c.Defaults.PublishPolicy.RequireActor, ReqReqID: c.Defaults.PublishPolicy.RequireRequestID,
		FailClosed: c.Defaults.PublishPolicy.FailClosed,
		ActorAllow: c.Defaults.PublishPolicy.ActorAllowlist, ActorPrefix: c.Defaults.PublishPolicy.ActorPrefixes,
		MaxBody: c.Defaults.MaxBodyBytes, MaxHeaders: c.Defaults.MaxHeaderBytes,
		MaxDepth: c.QueueLimits.MaxDepth, DropPolicy: c.QueueLimits.DropPolicy,
		RetAge: int64(c.QueueRetention.MaxAge), PruneIv: int64(c.QueueRetention.PruneInterval),
		DelivAge: int64(c.DeliveredRetention.MaxAge), DlqAge: int64(c.DLQRetention.MaxAge), DlqDepth: c.DLQRetention.MaxDepth,
		AdminPrefix: c.AdminAPI.Prefix,
	}
	for _, rt := range c.Routes {
		d := pubRouteDump{Path: rt.Path, Pull: rt.Pull != nil, Publish: rt.Publish, Direct: rt.PublishDirect, Managed: rt.PublishManaged,
			MaxBody: rt.MaxBodyBytes, MaxHeaders: rt.MaxHeaderBytes, App: rt.Application, Ep: rt.EndpointName}
		if rt.Pull != nil {
			d.Targets = []string{"pull"}
		} else {
			for _, dl := range rt.Deliveries {
				d.Targets = append(d.Targets, dl.URL)
			}
		}
		out.Routes = append(out.Routes, d)
	}
	return out
}

type pubSnapshotter interface{ snapshot() ([]queue.Envelope, error) }
type pubMemSnap struct{ s *queue.MemoryStore }
type pubSqlSnap struct{ s *queue.SQLiteStore }

func (m pubMemSnap) snapshot() ([]queue.Envelope, error) { return m.s.VerifSnapshot(), nil }
func (m pubSqlSnap) snapshot() ([]queue.Envelope, error) { return m.s.VerifSnapshot() }

func pubOpenStore(backend, dir string, c config.Compiled, clk *pubClock) (queue.Store, pubSnapshotter, func(), error) {
	switch backend {
	case "memory":
		s := queue.NewMemoryStore(
			queue.WithNowFunc(clk.now),
			queue.WithQueueLimits(c.QueueLimits.MaxDepth, c.QueueLimits.DropPolicy),
			queue.WithQueueRetention(c.QueueRetention.MaxAge, c.QueueRetention.PruneInterval),
			queue.WithDeliveredRetention(c.DeliveredRetention.MaxAge),
			queue.WithDLQRetention(c.DLQRetention.MaxAge, c.DLQRetention.MaxDepth),
		)
		return s, pubMemSnap{s}, func() {}, nil
	case "sqlite":
		if err := os.MkdirAll(dir, 0o755); err != nil {
			return nil, nil, nil, err
		}
		s, err := queue.NewSQLiteStore(filepath.Join(dir, "q.db"),
			queue.WithSQLiteNowFunc(clk.now),
			queue.WithSQLiteQueueLimits(c.QueueLimits.MaxDepth, c.QueueLimits.DropPolicy),
			queue.WithSQLiteRetention(c.QueueRetention.MaxAge, c.QueueRetention.PruneInterval),
			queue.WithSQLiteDeliveredRetention(c.DeliveredRetention.MaxAge),
			queue.WithSQLiteDLQRetention(c.DLQRetention.MaxAge, c.DLQRetention.MaxDepth),
			queue.WithSQLiteCheckpointInterval(0),
		)
		if err != nil {
			return nil, nil, nil, err
		}
		return s, pubSqlSnap{s}, func() { _ = s.Close() }, nil
	}
	return nil, nil, nil, fmt.Errorf("backend %q", backend)
}

func pubRowsOf(envs []queue.Envelope) []pubRow {
	out := make([]pubRow, 0, len(envs))
	for _, e := range envs {
		out = append(out, pubRow{ID: e.ID, Route: e.Route, Target: e.Target, State: string(e.State),
			Recv: e.ReceivedAt.UnixNano(), Next: e.NextRunAt.UnixNano(), Attempt: e.Attempt, Lease: e.LeaseID,
			Payload: base64.StdEncoding.EncodeToString(e.Payload), Headers: e.Headers, Trace: e.Trace})
	}
	sort.Slice(out, func(i, j int) bool { return out[i].ID < out[j].ID })
	return out
}

func pubStartWithRetry(text string, mk func(config.Compiled) (queue.Store, error)) (config.Compiled, []string, *app.VerifC15Running, queue.Store, error) {
	var lastErr error
	for attempt := 0; attempt < 6; attempt++ {
		compiled, addrs, err := pubCompileWithAddrs(text)
		if err != nil {
			return compiled, nil, nil, nil, err
		}
		store, err := mk(compiled)
		if err != nil {
			return compiled, nil, nil, nil, err
		}
		run, err := app.VerifC15Start(compiled, store)
		if err == nil {
			return compiled, addrs, run, store, nil
		}
		lastErr = err
		if !strings.Contains(err.Error(), "address already in use") {
			break
		}
	}
	return config.Compiled{}, nil, nil, nil, lastErr
}

func publishGroup(dir string, g pubGroup) (out pubGroupOut) {
	clk := &pubClock{}
	clk.set(g.Now)
	var snap pubSnapshotter
	var closeStore func()
	var raw queue.Store
	compiled, addrs, run, _, err := pubStartWithRetry(g.Config, func(c config.Compiled) (queue.Store, error) {
		if closeStore != nil {
			closeStore()
			_ = os.RemoveAll(dir)
		}
		s, sn, cl, err := pubOpenStore(g.Backend, dir, c, clk)
		if err != nil {
			return nil, err
		}
		raw, snap, closeStore = s, sn, cl
		if g.NoBatch {
			return pubNoBatchStore{s}, nil
		}
		return s, nil
	})
	if err != nil {
		out.Err = err.Error()
		return
	}
	defer func() {
		run.Shutdown()
		closeStore()
	}()
	out.Compiled = pubDumpCompiled(compiled)

	for _, su := range g.Setup {
		payload, _ := base64.StdEncoding.DecodeString(su.Payload)
		env := queue.Envelope{ID: su.ID, Route: su.Route, Target: su.Target, Payload: payload, Headers: su.Headers}
		if su.Recv != 0 {
			env.ReceivedAt = time.Unix(0, su.Recv).UTC()
		}
		if su.CancelOnly {
			// a message stored earlier in the set-up is canceled now (frees a slot after the queue has been full)
			if _, err := raw.CancelMessages(queue.MessageCancelRequest{IDs: []string{su.ID}}); err != nil {
				out.Err = "setup cancel: " + err.Error()
				return
			}
			continue
		}
		if err := raw.Enqueue(env); err != nil {
			if su.MayBeRefused && errors.Is(err, queue.ErrQueueFull) {
				continue // this entry exists to meet a full queue (an ingress webhook refused with 503 before the publish)
			}
			out.Err = "setup enqueue: " + err.Error()
			return
		}
		if su.Cancel {
			if _, err := raw.CancelMessages(queue.MessageCancelRequest{IDs: []string{su.ID}}); err != nil {
				out.Err = "setup cancel: " + err.Error()
				return
			}
		}
	}
	envs, err := snap.snapshot()
	if err != nil {
		out.Err = err.Error()
		return
	}
	out.Setup = pubRowsOf(envs)

	base := "http://" + addrs[2] + strings.TrimRight(compiled.AdminAPI.Prefix, "/")
	client := &http.Client{Timeout: 60 * time.Second}
	for k, rq := range g.Requests {
		clk.set(g.Now + int64(k+1)*1000000)
		var resp pubResp
		resp.ItemIndex = -1
		u := base + "/messages/publish"
		if rq.Scoped {
			u = base + "/applications/" + url.PathEscape(rq.App) + "/endpoints/" + url.PathEscape(rq.Ep) + "/messages/publish"
		}
		req, err := http.NewRequest(http.MethodPost, u, bytes.NewReader([]byte(rq.Body)))
		if err != nil {
			resp.Err = err.Error()
			out.Resps = append(out.Resps, resp)
			continue
		}
		req.Header.Set("Content-Type", "application/json")
		for hk, hv := range rq.Audit {
			req.Header.Set(hk, hv)
		}
		hr, err := client.Do(req)
		if err != nil {
			resp.Err = err.Error()
			out.Resps = append(out.Resps, resp)
			continue
		}
		body, _ := io.ReadAll(hr.Body)
		_ = hr.Body.Close()
		resp.Status = hr.StatusCode
		var parsed struct {
			Code      string `json:"code"`
			Detail    string `json:"detail"`
			ItemIndex *int   `json:"item_index"`
			Published int    `json:"published"`
		}
		if err := json.Unmarshal(body, &parsed); err != nil {
			resp.Err = "response not JSON: " + string(body)
		}
		resp.Code, resp.Detail, resp.Published = parsed.Code, parsed.Detail, parsed.Published
		if parsed.ItemIndex != nil {
			resp.ItemIndex = *parsed.ItemIndex
		}
		envs, err := snap.snapshot()
		if err != nil {
			resp.Err = err.Error()
		}
		resp.After = pubRowsOf(envs)
		// the observation the property names: GET /messages
		gr, err := client.Get(base + "/messages?limit=1000&include_payload=1&include_headers=1&include_trace=1")
		if err == nil {
			gb, _ := io.ReadAll(gr.Body)
			_ = gr.Body.Close()
			resp.APIStatus = gr.StatusCode
			var lst struct {
				Items []struct {
					ID      string `json:"id"`
					State   string `json:"state"`
					Payload string `json:"payload_b64"`
					Target  string `json:"target"`
					Route   string `json:"route"`
				} `json:"items"`
			}
			_ = json.Unmarshal(gb, &lst)
			for _, it := range lst.Items {
				resp.API = append(resp.API, it.ID+"|"+it.Route+"|"+it.Target+"|"+it.State+"|"+it.Payload)
			}
			sort.Strings(resp.API)
		}
		out.Resps = append(out.Resps, resp)
	}
	return
}

func publishRun(in []byte) (any, error) {
	var pin pubIn
	if err := json.Unmarshal(in, &pin); err != nil {
		return nil, err
	}
	par := pin.Par
	if par <= 0 {
		par = 8
	}
	outs := make([]pubGroupOut, len(pin.Groups))
	sem := make(chan struct{}, par)
	var wg sync.WaitGroup
	for i := range pin.Groups {
		wg.Add(1)
		sem <- struct{}{}
		go func(i int) {
			defer wg.Done()
			defer func() { <-sem }()
			defer func() {
				if r := recover(); r != nil {
					outs[i].Err = fmt.Sprintf("panic: %v", r)
				}
			}()
			dir := filepath.Join(pin.Dir, fmt.Sprintf("g%d", i))
			outs[i] = publishGroup(dir, pin.Groups[i])
			_ = os.RemoveAll(dir)
		}(i)
	}
	wg.Wait()
	return outs, nil
}
