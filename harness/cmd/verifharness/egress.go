//go:build verif

package main

// C16: drives the real egress policy code: config.Parse/Compile -> app.mapEgressRules ->
// dispatcher.HTTPDeliverer (fake resolver, recording RoundTripper with scripted 3xx chains),
// checkEgressPolicyURL, isAllowedIP, and the real PushDispatcher for the DLQ reason.

import (
	"context"
	"encoding/hex"
	"encoding/json"
	"errors"
	"fmt"
	"io"
	"net"
	"net/http"
	"net/netip"
	"net/url"
	"strings"
	"sync"
	"time"

	"github.com/nuetzliches/hookaido/internal/app"
	"github.com/nuetzliches/hookaido/internal/config"
	"github.com/nuetzliches/hookaido/internal/dispatcher"
	"github.com/nuetzliches/hookaido/internal/queue"
)

func init() {
	register("egress-ip", egressIP)
	register("egress-run", egressRun)
}

// ---------------------------------------------------------------- egress-ip

type egressIPIn struct {
	IPs []string `json:"ips"` // hex of the byte slice; "nil" = nil slice
}

type egressIPRow struct {
	Allowed  bool `json:"allowed"`
	Loopback bool `json:"loopback"`
	Private  bool `json:"private"`
	LLU      bool `json:"llu"`
	LLM      bool `json:"llm"`
	MC       bool `json:"mc"`
	Unspec   bool `json:"unspec"`
	Global   bool `json:"global"`
	To4      bool `json:"to4"`
}

func decodeIP(s string) (net.IP, error) {
	if s == "nil" {
		return nil, nil
	}
	b, err := hex.DecodeString(s)
	if err != nil {
		return nil, err
	}
	if b == nil {
		b = []byte{}
	}
	return net.IP(b), nil
}

func egressIP(in []byte) (any, error) {
	var req egressIPIn
	if err := json.Unmarshal(in, &req); err != nil {
		return nil, err
	}
	out := make([]egressIPRow, 0, len(req.IPs))
	for _, s := range req.IPs {
		ip, err := decodeIP(s)
		if err != nil {
			return nil, err
		}
		out = append(out, egressIPRow{
			Allowed:  dispatcher.VerifC16IsAllowedIP(ip),
			Loopback: ip.IsLoopback(),
			Private:  ip.IsPrivate(),
			LLU:      ip.IsLinkLocalUnicast(),
			LLM:      ip.IsLinkLocalMulticast(),
			MC:       ip.IsMulticast(),
			Unspec:   ip.IsUnspecified(),
			Global:   ip.IsGlobalUnicast(),
			To4:      ip.To4() != nil,
		})
	}
	return map[string]any{"rows": out}, nil
}

// ---------------------------------------------------------------- egress-run

type egressPolicyIn struct {
	HTTPSOnly string   `json:"https_only"` // "" = leave the default
	Redirects string   `json:"redirects"`
	Rebind    string   `json:"rebind"`
	Allow     []string `json:"allow"`
	Deny      []string `json:"deny"`
}

type egressRuleOut struct {
	IsCIDR bool   `json:"is_cidr"`
	Host   string `json:"host"`
	Sub    bool   `json:"sub"`
	Fam    int    `json:"fam"`  // 4 | 6 (netip: Is4 or not)
	Addr   string `json:"addr"` // hex, 4 or 16 bytes
	Bits   int    `json:"bits"`
	Valid  bool   `json:"valid"`
	// the rule text as netip parses it (ParsePrefix, else ParseAddr with BitLen bits), before parseEgressRule's own handling
	RawOK   bool   `json:"raw_ok"`
	RawFam  int    `json:"raw_fam"`
	RawAddr string `json:"raw_addr"`
	RawBits int    `json:"raw_bits"`
	Text    string `json:"text"`
}

func rawRule(text string, ro *egressRuleOut) {
	ro.Text = text
	t := strings.TrimSpace(text)
	var a netip.Addr
	if pfx, err := netip.ParsePrefix(t); err == nil {
		a, ro.RawBits = pfx.Addr(), pfx.Bits()
	} else if ad, err := netip.ParseAddr(t); err == nil {
		a, ro.RawBits = ad, ad.BitLen()
	} else {
		return
	}
	ro.RawOK = true
	if a.Is4() {
		ro.RawFam = 4
	} else {
		ro.RawFam = 6
	}
	ro.RawAddr = hex.EncodeToString(a.AsSlice())
}

type egressPolicyOut struct {
	OK        bool            `json:"ok"`
	Errors    []string        `json:"errors"`
	HTTPSOnly bool            `json:"https_only"`
	Redirects bool            `json:"redirects"`
	Rebind    bool            `json:"rebind"`
	Allow     []egressRuleOut `json:"allow"`
	Deny      []egressRuleOut `json:"deny"`
}

type dnsAnswer struct {
	Err bool     `json:"err"`
	IPs []string `json:"ips"`
}

type egressCase struct {
	Policy int                    `json:"policy"`
	Chain  []string               `json:"chain"` // chain[0] = target URL, chain[k] = Location header of response k-1
	Codes  []int                  `json:"codes"` // status of response k (k < len(chain)-1), default 307
	DNS    map[string][]dnsAnswer `json:"dns"`   // host -> answers for successive lookups (last repeats)
	Mode   string                 `json:"mode"`  // deliver | check | push
	Sign   string                 `json:"sign"`  // "" | expired | future | missing-ref | blank-headers: outbound signing that cannot succeed
}

// a signing configuration that fails at delivery time (C16: a denied delivery is policy_denied whatever else is wrong with it)
func failingSign(kind string) *dispatcher.HMACSigningConfig {
	now := time.Now()
	switch kind {
	case "expired":
		return &dispatcher.HMACSigningConfig{SignatureHeader: "X-Sig", TimestampHeader: "X-Ts", SecretVersions: []dispatcher.HMACSigningSecretVersion{
			{ID: "v1", Ref: "raw:s3cret", ValidFrom: now.Add(-48 * time.Hour), ValidUntil: now.Add(-24 * time.Hour), HasUntil: true}}}
	case "future":
		return &dispatcher.HMACSigningConfig{SignatureHeader: "X-Sig", TimestampHeader: "X-Ts", SecretVersions: []dispatcher.HMACSigningSecretVersion{
			{ID: "v1", Ref: "raw:s3cret", ValidFrom: now.Add(24 * time.Hour)}}}
	case "missing-ref":
		return &dispatcher.HMACSigningConfig{SignatureHeader: "X-Sig", TimestampHeader: "X-Ts", SecretRef: "env:VERIF_NO_SUCH_SECRET_C16"}
	case "blank-headers":
		return &dispatcher.HMACSigningConfig{SignatureHeader: " ", TimestampHeader: "", SecretRef: "raw:s3cret"}
	}
	return nil
}

type hopOut struct {
	ParseOK  bool   `json:"parse_ok"`
	Abs      string `json:"abs"` // the URL the client resolves the Location to
	Scheme   string `json:"scheme"`
	Hostname string `json:"hostname"` // hex of u.Hostname()
	Lit      string `json:"lit"`      // hex of netip.ParseAddr(norm host).AsSlice(), "" = not a literal
}

type egressCaseOut struct {
	Hops       []hopOut `json:"hops"`
	Sent       []string `json:"sent"`        // URLs of the requests that reached the transport, in order
	SentMethod []string `json:"sent_method"` // their methods
	Queries    []string `json:"queries"`     // hex of the hosts the resolver was asked for, in order
	Status     int      `json:"status"`
	ErrClass   string   `json:"err_class"` // "" | policy_denied | other
	ErrText    string   `json:"err_text"`
	// push mode
	State      string   `json:"state,omitempty"`
	DeadReason string   `json:"dead_reason,omitempty"`
	Attempts   int      `json:"attempts,omitempty"`
	Outcomes   []string `json:"outcomes,omitempty"`
	TimedOut   bool     `json:"timed_out,omitempty"`
}

func quoteCfg(s string) string {
	return `"` + strings.ReplaceAll(strings.ReplaceAll(s, `\`, `\\`), `"`, `\"`) + `"`
}

func compilePolicy(p egressPolicyIn) (egressPolicyOut, dispatcher.EgressPolicy) {
	var b strings.Builder
	b.WriteString("defaults {\n  egress {\n")
	for _, a := range p.Allow {
		b.WriteString("    allow " + quoteCfg(a) + "\n")
	}
	for _, d := range p.Deny {
		b.WriteString("    deny " + quoteCfg(d) + "\n")
	}
	if p.HTTPSOnly != "" {
		b.WriteString("    https_only " + p.HTTPSOnly + "\n")
	}
	if p.Redirects != "" {
		b.WriteString("    redirects " + p.Redirects + "\n")
	}
	if p.Rebind != "" {
		b.WriteString("    dns_rebind_protection " + p.Rebind + "\n")
	}
	b.WriteString("  }\n}\n\n\"/hooks\" {\n  deliver \"https://target.example/in\" {\n  }\n}\n")
	out := egressPolicyOut{}
	cfg, err := config.Parse([]byte(b.String()))
	if err != nil {
		out.Errors = []string{"parse: " + err.Error()}
		return out, dispatcher.EgressPolicy{}
	}
	compiled, res := config.Compile(cfg)
	if !res.OK {
		out.Errors = res.Errors
		return out, dispatcher.EgressPolicy{}
	}
	pol := app.VerifC16Policy(compiled)
	out.OK = true
	out.HTTPSOnly, out.Redirects, out.Rebind = pol.HTTPSOnly, pol.Redirects, pol.DNSRebindProtection
	conv := func(rs []dispatcher.EgressRule, texts []string) []egressRuleOut {
		o := make([]egressRuleOut, 0, len(rs))
		for i, r := range rs {
			ro := egressRuleOut{IsCIDR: r.IsCIDR, Host: r.Host, Sub: r.Subdomains}
			if len(texts) == len(rs) {
				rawRule(texts[i], &ro)
			}
			if r.IsCIDR {
				a := r.CIDR.Addr()
				ro.Valid = r.CIDR.IsValid()
				ro.Bits = r.CIDR.Bits()
				if a.Is4() {
					ro.Fam = 4
				} else {
					ro.Fam = 6
				}
				ro.Addr = hex.EncodeToString(a.AsSlice())
			}
			o = append(o, ro)
		}
		return o
	}
	out.Allow, out.Deny = conv(pol.Allow, p.Allow), conv(pol.Deny, p.Deny)
	return out, pol
}

// verifNormHost: the harness's own ASCII normalisation (trim ASCII space, lower-case A-Z, drop one
// trailing dot) used only to ask netip.ParseAddr what the normalised host is. The model computes the
// normalised host itself; the hosts the real code asks the resolver for are compared with the model's.
func verifNormHost(h string) string {
	b := []byte(h)
	isSp := func(c byte) bool { return c == ' ' || (c >= 9 && c <= 13) }
	for len(b) > 0 && isSp(b[0]) {
		b = b[1:]
	}
	for len(b) > 0 && isSp(b[len(b)-1]) {
		b = b[:len(b)-1]
	}
	o := make([]byte, len(b))
	for i, c := range b {
		if c >= 'A' && c <= 'Z' {
			c += 32
		}
		o[i] = c
	}
	if len(o) > 0 && o[len(o)-1] == '.' {
		o = o[:len(o)-1]
	}
	return string(o)
}

type fakeResolver struct {
	mu      sync.Mutex
	answers map[string][]dnsAnswer
	count   map[string]int
	queries []string
}

func (f *fakeResolver) LookupIPAddr(_ context.Context, host string) ([]net.IPAddr, error) {
	f.mu.Lock()
	defer f.mu.Unlock()
	f.queries = append(f.queries, hex.EncodeToString([]byte(host)))
	as, ok := f.answers[host]
	if !ok || len(as) == 0 {
		return nil, &net.DNSError{Err: "no such host", Name: host, IsNotFound: true}
	}
	k := f.count[host]
	f.count[host] = k + 1
	if k >= len(as) {
		k = len(as) - 1
	}
	a := as[k]
	if a.Err {
		return nil, &net.DNSError{Err: "server misbehaving", Name: host}
	}
	out := make([]net.IPAddr, 0, len(a.IPs))
	for _, s := range a.IPs {
		ip, err := decodeIP(s)
		if err != nil {
			return nil, err
		}
		out = append(out, net.IPAddr{IP: ip})
	}
	return out, nil
}

type scriptedTransport struct {
	mu      sync.Mutex
	chain   []string
	codes   []int
	sent    []string
	methods []string
}

func (t *scriptedTransport) RoundTrip(req *http.Request) (*http.Response, error) {
	t.mu.Lock()
	defer t.mu.Unlock()
	k := len(t.sent)
	t.sent = append(t.sent, req.URL.String())
	t.methods = append(t.methods, req.Method)
	if req.Body != nil {
		_, _ = io.Copy(io.Discard, req.Body)
		_ = req.Body.Close()
	}
	resp := &http.Response{
		Proto: "HTTP/1.1", ProtoMajor: 1, ProtoMinor: 1,
		Header:  make(http.Header),
		Body:    http.NoBody,
		Request: req,
	}
	if k+1 < len(t.chain) {
		code := 307
		if k < len(t.codes) && t.codes[k] != 0 {
			code = t.codes[k]
		}
		resp.StatusCode = code
		resp.Header.Set("Location", t.chain[k+1])
	} else {
		resp.StatusCode = 200
	}
	resp.Status = fmt.Sprintf("%d %s", resp.StatusCode, http.StatusText(resp.StatusCode))
	return resp, nil
}

func classifyErr(err error) (string, string) {
	if err == nil {
		return "", ""
	}
	if errors.Is(err, dispatcher.ErrPolicyDenied) {
		return "policy_denied", err.Error()
	}
	return "other", err.Error()
}

func describeHops(chain []string) []hopOut {
	out := make([]hopOut, 0, len(chain))
	var prev *url.URL
	for i, raw := range chain {
		var u *url.URL
		var err error
		if i == 0 {
			u, err = url.Parse(raw)
			if err == nil && strings.HasSuffix(u.Host, ":") && strings.LastIndex(u.Host, ":") > strings.LastIndex(u.Host, "]") {
				u.Host = strings.TrimSuffix(u.Host, ":") // http.NewRequest: removeEmptyPort
			}
		} else if prev != nil {
			u, err = prev.Parse(raw) // what net/http does with a Location header
		} else {
			err = errors.New("previous hop unparseable")
		}
		h := hopOut{}
		if err == nil && u != nil {
			h.ParseOK = true
			h.Abs = u.String()
			h.Scheme = u.Scheme
			h.Hostname = hex.EncodeToString([]byte(u.Hostname()))
			if a, perr := netip.ParseAddr(verifNormHost(u.Hostname())); perr == nil {
				h.Lit = hex.EncodeToString(a.AsSlice())
			}
			prev = u
		} else {
			prev = nil
		}
		out = append(out, h)
	}
	return out
}

func runPush(c egressCase, pol dispatcher.EgressPolicy, res *fakeResolver, rt *scriptedTransport, o *egressCaseOut) error {
	store := queue.NewMemoryStore()
	d := dispatcher.NewHTTPDeliverer(&http.Client{Transport: rt}, pol)
	d.Resolver = res
	var mu sync.Mutex
	var outcomes []string
	push := dispatcher.PushDispatcher{
		Store:     store,
		Deliverer: d,
		Routes: []dispatcher.RouteConfig{{Route: "/hooks", Concurrency: 1, Targets: []dispatcher.TargetConfig{{
			URL: c.Chain[0], Timeout: 2 * time.Second, SignHMAC: failingSign(c.Sign),
			Retry: dispatcher.RetryConfig{Type: "exponential", Max: 2, Base: time.Millisecond, Cap: 2 * time.Millisecond},
		}}}},
		MaxWait: 20 * time.Millisecond,
		ObserveAttempt: func(oc queue.AttemptOutcome) {
			mu.Lock()
			outcomes = append(outcomes, string(oc))
			mu.Unlock()
		},
	}
	if err := store.Enqueue(queue.Envelope{ID: "evt-1", Route: "/hooks", Target: c.Chain[0], Payload: []byte(`{"k":1}`)}); err != nil {
		return err
	}
	push.Start()
	deadline := time.Now().Add(5 * time.Second)
	state := ""
	for time.Now().Before(deadline) {
		lr, err := store.LookupMessages(queue.MessageLookupRequest{IDs: []string{"evt-1"}})
		if err == nil && len(lr.Items) == 1 {
			state = string(lr.Items[0].State)
			if state == string(queue.StateDead) || state == string(queue.StateDelivered) || state == string(queue.StateCanceled) {
				break
			}
		} else if err == nil && len(lr.Items) == 0 {
			state = "gone" // acked and removed
			break
		}
		time.Sleep(2 * time.Millisecond)
	}
	drained := push.Drain(5 * time.Second)
	o.TimedOut = !drained
	o.State = state
	if dl, err := store.ListDead(queue.DeadListRequest{Route: "/hooks", Limit: 10}); err == nil {
		for _, it := range dl.Items {
			if it.ID == "evt-1" {
				o.State = "dead"
				o.DeadReason = it.DeadReason
			}
		}
	}
	if al, err := store.ListAttempts(queue.AttemptListRequest{EventID: "evt-1", Limit: 100}); err == nil {
		o.Attempts = len(al.Items)
	}
	mu.Lock()
	o.Outcomes = outcomes
	mu.Unlock()
	return nil
}

func egressRun(in []byte) (any, error) {
	var req struct {
		Policies []egressPolicyIn `json:"policies"`
		Cases    []egressCase     `json:"cases"`
	}
	if err := json.Unmarshal(in, &req); err != nil {
		return nil, err
	}
	pouts := make([]egressPolicyOut, len(req.Policies))
	pols := make([]dispatcher.EgressPolicy, len(req.Policies))
	for i, p := range req.Policies {
		pouts[i], pols[i] = compilePolicy(p)
	}
	couts := make([]egressCaseOut, len(req.Cases))
	for i, c := range req.Cases {
		o := egressCaseOut{Hops: describeHops(c.Chain), Sent: []string{}, Queries: []string{}, SentMethod: []string{}}
		if c.Policy < 0 || c.Policy >= len(pols) || !pouts[c.Policy].OK || len(c.Chain) == 0 {
			o.ErrClass, o.ErrText = "other", "policy not compiled"
			couts[i] = o
			continue
		}
		pol := pols[c.Policy]
		res := &fakeResolver{answers: c.DNS, count: map[string]int{}}
		rt := &scriptedTransport{chain: c.Chain, codes: c.Codes}
		switch c.Mode {
		case "check":
			u, err := url.Parse(c.Chain[0])
			if err != nil {
				o.ErrClass, o.ErrText = "other", err.Error()
			} else {
				o.ErrClass, o.ErrText = classifyErr(dispatcher.VerifC16CheckURL(context.Background(), u, pol, res))
			}
		case "push":
			if err := runPush(c, pol, res, rt, &o); err != nil {
				return nil, err
			}
		default:
			d := dispatcher.NewHTTPDeliverer(&http.Client{Transport: rt}, pol)
			d.Resolver = res
			ctx, cancel := context.WithTimeout(context.Background(), 5*time.Second)
			r := d.Deliver(ctx, dispatcher.Delivery{ID: "d1", Target: c.Chain[0], URL: c.Chain[0], Method: http.MethodPost,
				Header: http.Header{"Content-Type": []string{"application/json"}}, Body: []byte(`{"k":1}`), Sign: failingSign(c.Sign)})
			cancel()
			o.Status = r.StatusCode
			o.ErrClass, o.ErrText = classifyErr(r.Err)
		}
		o.Sent = append(o.Sent, rt.sent...)
		o.SentMethod = append(o.SentMethod, rt.methods...)
		o.Queries = append(o.Queries, res.queries...)
		couts[i] = o
	}
	return map[string]any{"policies": pouts, "cases": couts}, nil
}
