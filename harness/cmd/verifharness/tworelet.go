//go:build verif

package main

// Two more situations of TWO SQLiteStore objects on ONE database file (two hookaido processes, or the gateway and `hookaido mcp`),
// driven through the one point inside a store call that can be hooked: its clock readings.
//
// two-stores-relet (C03/C04): worker A answers late - its lease L1 has run out - with a lease operation (single or batch).  At the
//   k-th clock reading of that call the second process dequeues: it sweeps L1 and hands the message to worker B under L2.  Whatever
//   the interleaving, once B holds the message nobody else may get it while L2 runs, and B's own operations on L2 keep working.
//
// two-stores-busy (C05): the second process holds the write lock (a lease operation of its own is in progress) while the gateway's
//   dequeue arrives and is refused as busy.  Once the lock is gone the gateway's next dequeue must return - and return what is ready:
//   the message whose lease expired.

import (
	"encoding/json"
	"fmt"
	"os"
	"path/filepath"
	"sync"
	"sync/atomic"
	"time"

	"github.com/nuetzliches/hookaido/internal/queue"
)

func init() {
	register("two-stores-relet", twoStoresRelet)
	register("two-stores-busy", twoStoresBusy)
}

type trCase struct {
	AOp    string `json:"a_op"`    // ack nack dead extend ack_batch nack_batch dead_batch
	HookAt int64  `json:"hook_at"` // B's dequeue runs at the HookAt-th clock reading of A's call (1-based)
	Extra  int    `json:"extra"`   // further messages leased together with the first (batch calls present all their leases)
}

type trOut struct {
	AErr       string   `json:"a_err"`
	AConflicts int      `json:"a_conflicts"`
	ClockReads int64    `json:"clock_reads"`
	BInside    bool     `json:"b_inside"`
	BBusy      bool     `json:"b_busy"`
	BItems     []string `json:"b_items"`    // ids B was handed
	BLeaseLive bool     `json:"b_lease_live"`
	Third      []string `json:"third"`      // ids a third worker is handed right afterwards (B's leases still run)
	ExtendErr  string   `json:"extend_err"` // B extends its lease on evt_1 afterwards
	AckErr     string   `json:"ack_err"`    // and acknowledges it
	Final      string   `json:"final"`
	Err        string   `json:"err,omitempty"`
}

func twoStoresRelet(in []byte) (any, error) {
	var req struct {
		Dir   string   `json:"dir"`
		Cases []trCase `json:"cases"`
	}
	if err := json.Unmarshal(in, &req); err != nil {
		return nil, err
	}
	if err := os.MkdirAll(req.Dir, 0o755); err != nil {
		return nil, err
	}
	outs := make([]trOut, len(req.Cases))
	for i, c := range req.Cases {
		outs[i] = trRun(filepath.Join(req.Dir, fmt.Sprintf("tr-%d-%d.db", os.Getpid(), i)), c)
	}
	return map[string]any{"cases": outs}, nil
}

func trRun(path string, c trCase) (out trOut) {
	base := time.Date(2026, 2, 4, 12, 0, 0, 0, time.UTC)
	var off atomic.Int64
	nowAt := func() time.Time { return base.Add(time.Duration(off.Load())) }
	B, err := queue.NewSQLiteStore(path, queue.WithSQLiteNowFunc(nowAt), queue.WithSQLitePollInterval(5*time.Millisecond))
	if err != nil {
		out.Err = "open second store: " + err.Error()
		return
	}
	defer B.Close()
	_ = B.VerifSetBusyTimeout(120)
	var bResp queue.DequeueResponse
	runB := func() error {
		r, err := B.Dequeue(queue.DequeueRequest{Route: "/r", Target: "t", Batch: 10, LeaseTTL: time.Minute})
		if err == nil {
			bResp = r
		}
		return err
	}
	var armed, attempted atomic.Bool
	var reads atomic.Int64
	var inside, busy bool
	gwNow := func() time.Time {
		if armed.Load() {
			if reads.Add(1) == c.HookAt && attempted.CompareAndSwap(false, true) {
				if err := runB(); err != nil {
					busy = true
				} else {
					inside = true
				}
			}
		}
		return nowAt()
	}
	A, err := queue.NewSQLiteStore(path, queue.WithSQLiteNowFunc(gwNow), queue.WithSQLitePollInterval(5*time.Millisecond))
	if err != nil {
		out.Err = "open first store: " + err.Error()
		return
	}
	defer A.Close()
	n := 1 + c.Extra
	for i := 1; i <= n; i++ {
		if err := A.Enqueue(queue.Envelope{ID: fmt.Sprintf("evt_%d", i), Route: "/r", Target: "t", Payload: []byte("x")}); err != nil {
			out.Err = "enqueue: " + err.Error()
			return
		}
		off.Add(int64(time.Millisecond))
	}
	resp, err := A.Dequeue(queue.DequeueRequest{Route: "/r", Target: "t", Batch: n, LeaseTTL: time.Second})
	if err != nil || len(resp.Items) != n {
		out.Err = fmt.Sprintf("set-up dequeue: %d items, %v", len(resp.Items), err)
		return
	}
	leases := make([]string, 0, n)
	for _, it := range resp.Items {
		leases = append(leases, it.LeaseID)
	}
	off.Add(int64(2 * time.Second)) // every lease of worker A has run out; nothing has swept them
	armed.Store(true)
	var aerr error
	switch c.AOp {
	case "ack":
		aerr = A.Ack(leases[0])
	case "nack":
		aerr = A.Nack(leases[0], 0)
	case "dead":
		aerr = A.MarkDead(leases[0], "boom")
	case "extend":
		aerr = A.Extend(leases[0], 30*time.Second)
	case "ack_batch":
		var r queue.LeaseBatchResult
		r, aerr = A.AckBatch(leases)
		out.AConflicts = len(r.Conflicts)
	case "nack_batch":
		var r queue.LeaseBatchResult
		r, aerr = A.NackBatch(leases, 0)
		out.AConflicts = len(r.Conflicts)
	case "dead_batch":
		var r queue.LeaseBatchResult
		r, aerr = A.MarkDeadBatch(leases, "boom")
		out.AConflicts = len(r.Conflicts)
	}
	armed.Store(false)
	out.ClockReads = reads.Load()
	if aerr != nil {
		out.AErr = aerr.Error()
	}
	if !inside {
		if err := runB(); err != nil {
			out.Err = "second store's dequeue after the call: " + err.Error()
			return
		}
	}
	out.BInside, out.BBusy = inside, busy
	bLease := ""
	for _, it := range bResp.Items {
		out.BItems = append(out.BItems, it.ID)
		if it.ID == "evt_1" {
			bLease = it.LeaseID
			out.BLeaseLive = it.LeaseUntil.After(nowAt())
		}
	}
	// a third worker asks right away (one millisecond later): B's leases run for a minute
	off.Add(int64(time.Millisecond))
	r3, err := A.Dequeue(queue.DequeueRequest{Route: "/r", Target: "t", Batch: 10, LeaseTTL: time.Minute})
	if err != nil {
		out.Err = "third dequeue: " + err.Error()
		return
	}
	for _, it := range r3.Items {
		out.Third = append(out.Third, it.ID)
	}
	if bLease != "" {
		if err := B.Extend(bLease, time.Second); err != nil {
			out.ExtendErr = err.Error()
		}
		if err := B.Ack(bLease); err != nil {
			out.AckErr = err.Error()
		}
	}
	lr, err := B.LookupMessages(queue.MessageLookupRequest{IDs: []string{"evt_1"}})
	if err == nil {
		for _, it := range lr.Items {
			out.Final = string(it.State)
		}
	}
	return
}

// ---------------------------------------------------------------------------

type tbCase struct {
	HookAt int64  `json:"hook_at"` // the gateway's dequeue arrives at the HookAt-th clock reading of the other process's lease operation
	BOp    string `json:"b_op"`    // extend nack dead (a single lease operation reads the clock inside its write transaction)
}

type tbOut struct {
	ClockReads  int64    `json:"clock_reads"`
	FirstErr    string   `json:"first_err"` // the gateway's dequeue while the other process writes
	FirstItems  []string `json:"first_items"`
	Attempted   bool     `json:"attempted"`
	BErr        string   `json:"b_err"`
	SecondBack  bool     `json:"second_returned"` // the gateway's next dequeue came back within five seconds
	SecondErr   string   `json:"second_err"`
	SecondItems []string `json:"second_items"`
	StatsBack   bool     `json:"stats_returned"`
	EnqTried    bool     `json:"enqueue_tried"`  // an enqueue by the gateway while the other process writes
	EnqErr      string   `json:"enqueue_err"`    // "" = the gateway's enqueue reported success
	EnqStored   bool     `json:"enqueue_stored"` // the message of that enqueue is in the queue afterwards
	Err         string   `json:"err,omitempty"`
}

func twoStoresBusy(in []byte) (any, error) {
	var req struct {
		Dir   string   `json:"dir"`
		Cases []tbCase `json:"cases"`
	}
	if err := json.Unmarshal(in, &req); err != nil {
		return nil, err
	}
	if err := os.MkdirAll(req.Dir, 0o755); err != nil {
		return nil, err
	}
	outs := make([]tbOut, len(req.Cases))
	for i, c := range req.Cases {
		outs[i] = tbRun(filepath.Join(req.Dir, fmt.Sprintf("tb-%d-%d.db", os.Getpid(), i)), c)
	}
	return map[string]any{"cases": outs}, nil
}

func tbRun(path string, c tbCase) (out tbOut) {
	base := time.Date(2026, 2, 4, 12, 0, 0, 0, time.UTC)
	var off atomic.Int64
	nowAt := func() time.Time { return base.Add(time.Duration(off.Load())) }
	A, err := queue.NewSQLiteStore(path, queue.WithSQLiteNowFunc(nowAt), queue.WithSQLitePollInterval(5*time.Millisecond))
	if err != nil {
		out.Err = "open gateway store: " + err.Error()
		return
	}
	// not closed on the failing path: a store whose only connection is gone would block Close as well
	_ = A.VerifSetBusyTimeout(15)
	var armed, attempted atomic.Bool
	var reads atomic.Int64
	var firstResp queue.DequeueResponse
	var firstErr error
	var enqTried bool
	var enqErr error
	otherNow := func() time.Time {
		if armed.Load() {
			if reads.Add(1) == c.HookAt && attempted.CompareAndSwap(false, true) {
				firstResp, firstErr = A.Dequeue(queue.DequeueRequest{Route: "/r", Target: "t", Batch: 1, LeaseTTL: time.Minute})
				// an enqueue arriving in the same moment (a store opened without a depth limit inserts without a transaction of its own)
				enqTried = true
				enqErr = A.Enqueue(queue.Envelope{ID: "evt_3", Route: "/r3", Target: "t", Payload: []byte("z")})
			}
		}
		return nowAt()
	}
	B, err := queue.NewSQLiteStore(path, queue.WithSQLiteNowFunc(otherNow))
	if err != nil {
		out.Err = "open second store: " + err.Error()
		return
	}
	defer B.Close()
	if err := A.Enqueue(queue.Envelope{ID: "evt_2", Route: "/other", Target: "t", Payload: []byte("y")}); err != nil {
		out.Err = "enqueue: " + err.Error()
		return
	}
	// the second process's own lease runs out as well: a lease operation on an expired lease reads the clock again INSIDE its write
	// transaction (to requeue the message) - that reading is where the gateway's dequeue arrives
	rb, err := B.Dequeue(queue.DequeueRequest{Route: "/other", Target: "t", Batch: 1, LeaseTTL: time.Second})
	if err != nil || len(rb.Items) != 1 {
		out.Err = fmt.Sprintf("set-up dequeue of the second process: %d items, %v", len(rb.Items), err)
		return
	}
	if err := A.Enqueue(queue.Envelope{ID: "evt_1", Route: "/r", Target: "t", Payload: []byte("x")}); err != nil {
		out.Err = "enqueue: " + err.Error()
		return
	}
	off.Add(int64(time.Millisecond))
	r0, err := A.Dequeue(queue.DequeueRequest{Route: "/r", Target: "t", Batch: 1, LeaseTTL: time.Second})
	if err != nil || len(r0.Items) != 1 {
		out.Err = fmt.Sprintf("set-up dequeue: %d items, %v", len(r0.Items), err)
		return
	}
	off.Add(int64(2 * time.Second)) // the lease on evt_1 has run out, the consumer never answered
	armed.Store(true)
	var berr error
	switch c.BOp {
	case "nack":
		berr = B.Nack(rb.Items[0].LeaseID, time.Hour)
	case "dead":
		berr = B.MarkDead(rb.Items[0].LeaseID, "boom")
	default:
		berr = B.Extend(rb.Items[0].LeaseID, time.Minute)
	}
	armed.Store(false)
	out.ClockReads = reads.Load()
	out.Attempted = attempted.Load()
	if berr != nil {
		out.BErr = berr.Error()
	}
	if firstErr != nil {
		out.FirstErr = firstErr.Error()
	}
	for _, it := range firstResp.Items {
		out.FirstItems = append(out.FirstItems, it.ID)
	}
	out.EnqTried = enqTried
	if enqErr != nil {
		out.EnqErr = enqErr.Error()
	}
	if lr, err := B.LookupMessages(queue.MessageLookupRequest{IDs: []string{"evt_3"}}); err == nil {
		out.EnqStored = len(lr.Items) == 1
	}
	// the other process is done; the gateway polls again
	off.Add(int64(time.Second))
	type res struct {
		r   queue.DequeueResponse
		err error
	}
	ch := make(chan res, 1)
	go func() {
		r, err := A.Dequeue(queue.DequeueRequest{Route: "/r", Target: "t", Batch: 5, LeaseTTL: time.Minute})
		ch <- res{r, err}
	}()
	select {
	case x := <-ch:
		out.SecondBack = true
		if x.err != nil {
			out.SecondErr = x.err.Error()
		}
		for _, it := range x.r.Items {
			out.SecondItems = append(out.SecondItems, it.ID)
		}
	case <-time.After(5 * time.Second):
		return
	}
	sch := make(chan struct{}, 1)
	go func() {
		_, _ = A.Stats()
		sch <- struct{}{}
	}()
	select {
	case <-sch:
		out.StatsBack = true
		_ = A.Close()
	case <-time.After(5 * time.Second):
	}
	return
}

// ---------------------------------------------------------------------------
// two-stores-dequeue-race (C05): two processes poll the same route with batch 2 while four messages are ready.  Process A has polled a
// moment ago (its lease sweep is not due); during its next dequeue, at its HookAt-th clock reading, process B's dequeue is served and
// takes two messages.  A must still return two: min(batch, ready) as of the moment it takes the messages, not as of a look it had
// before B committed.

func init() { register("two-stores-dequeue-race", twoStoresDequeueRace) }

type tdOut struct {
	HookAt     int64    `json:"hook_at"`
	ClockReads int64    `json:"clock_reads"`
	BItems     []string `json:"b_items"`
	AItems     []string `json:"a_items"`
	AErr       string   `json:"a_err"`
	AStarted   bool     `json:"b_served_inside_a"`
	LeftQueued int      `json:"left_queued"`
	Err        string   `json:"err,omitempty"`
}

func twoStoresDequeueRace(in []byte) (any, error) {
	var req struct {
		Dir   string  `json:"dir"`
		Hooks []int64 `json:"hooks"`
	}
	if err := json.Unmarshal(in, &req); err != nil {
		return nil, err
	}
	if err := os.MkdirAll(req.Dir, 0o755); err != nil {
		return nil, err
	}
	var outs []tdOut
	for i, h := range req.Hooks {
		outs = append(outs, tdRun(filepath.Join(req.Dir, fmt.Sprintf("td-%d-%d.db", os.Getpid(), i)), h))
	}
	return map[string]any{"cases": outs}, nil
}

func tdRun(path string, hookAt int64) (out tdOut) {
	out.HookAt = hookAt
	base := time.Date(2026, 2, 4, 12, 0, 0, 0, time.UTC)
	var off atomic.Int64
	nowAt := func() time.Time { return base.Add(time.Duration(off.Load())) }
	B, err := queue.NewSQLiteStore(path, queue.WithSQLiteNowFunc(nowAt), queue.WithSQLitePollInterval(5*time.Millisecond))
	if err != nil {
		out.Err = "open second store: " + err.Error()
		return
	}
	defer B.Close()
	_ = B.VerifSetBusyTimeout(120)
	var armed, attempted atomic.Bool
	var reads atomic.Int64
	var bResp queue.DequeueResponse
	var bDone bool
	runB := func() error {
		r, err := B.Dequeue(queue.DequeueRequest{Route: "/r", Target: "t", Batch: 2, LeaseTTL: time.Minute})
		if err == nil {
			bResp, bDone = r, true
		}
		return err
	}
	aNow := func() time.Time {
		if armed.Load() {
			if reads.Add(1) == hookAt && attempted.CompareAndSwap(false, true) {
				_ = runB() // refused as busy when this reading lies inside A's write transaction: B then polls after A
			}
		}
		return nowAt()
	}
	A, err := queue.NewSQLiteStore(path, queue.WithSQLiteNowFunc(aNow), queue.WithSQLitePollInterval(5*time.Millisecond))
	if err != nil {
		out.Err = "open first store: " + err.Error()
		return
	}
	defer A.Close()
	// A polls an empty queue (its lease sweep has just run), then four messages arrive
	if _, err := A.Dequeue(queue.DequeueRequest{Route: "/r", Target: "t", Batch: 2, LeaseTTL: time.Minute}); err != nil {
		out.Err = "first poll: " + err.Error()
		return
	}
	for i := 1; i <= 4; i++ {
		if err := B.Enqueue(queue.Envelope{ID: fmt.Sprintf("m%d", i), Route: "/r", Target: "t", Payload: []byte("x"),
			ReceivedAt: nowAt().Add(time.Duration(i) * time.Microsecond)}); err != nil {
			out.Err = "enqueue: " + err.Error()
			return
		}
	}
	off.Add(int64(time.Millisecond))
	armed.Store(true)
	ra, err := A.Dequeue(queue.DequeueRequest{Route: "/r", Target: "t", Batch: 2, LeaseTTL: time.Minute})
	armed.Store(false)
	out.ClockReads = reads.Load()
	if err != nil {
		out.AErr = err.Error()
	}
	for _, it := range ra.Items {
		out.AItems = append(out.AItems, it.ID)
	}
	out.AStarted = bDone // B's dequeue was served inside A's call
	if !bDone {
		if err := runB(); err != nil {
			out.Err = "second store's dequeue after the call: " + err.Error()
			return
		}
	}
	for _, it := range bResp.Items {
		out.BItems = append(out.BItems, it.ID)
	}
	if st, err := B.Stats(); err == nil {
		out.LeftQueued = st.ByState[queue.StateQueued]
	}
	return
}

// ---------------------------------------------------------------------------
// two-stores-dequeue-stress (C05): N messages are ready, nothing else happens (frozen clock, long leases), and two processes poll the
// route concurrently with batch 2 until both find it empty.  Every call is recorded with logical start / end stamps.  The check's
// rule: a call that returned fewer than `batch` items although a call that STARTED AFTER IT HAD RETURNED was still handed messages was
// starved - those messages were ready during the whole of the short call.

func init() { register("two-stores-dequeue-stress", twoStoresDequeueStress) }

func twoStoresDequeueStress(in []byte) (any, error) {
	var req struct {
		Dir      string `json:"dir"`
		Trials   int    `json:"trials"`
		Messages int    `json:"messages"`
		Batch    int    `json:"batch"`
	}
	if err := json.Unmarshal(in, &req); err != nil {
		return nil, err
	}
	if err := os.MkdirAll(req.Dir, 0o755); err != nil {
		return nil, err
	}
	type call struct {
		Store string `json:"store"`
		Start int64  `json:"start"`
		End   int64  `json:"end"`
		N     int    `json:"n"`
		Err   string `json:"err,omitempty"`
	}
	type trial struct {
		Calls    []call `json:"calls"`
		Leased   int    `json:"leased"`
		Distinct int    `json:"distinct"`
		Err      string `json:"err,omitempty"`
	}
	var outs []trial
	for t := 0; t < req.Trials; t++ {
		var tr trial
		path := filepath.Join(req.Dir, fmt.Sprintf("ts-%d-%d.db", os.Getpid(), t))
		base := time.Date(2026, 2, 4, 12, 0, 0, 0, time.UTC)
		nowAt := func() time.Time { return base }
		A, errA := queue.NewSQLiteStore(path, queue.WithSQLiteNowFunc(nowAt), queue.WithSQLitePollInterval(2*time.Millisecond))
		B, errB := queue.NewSQLiteStore(path, queue.WithSQLiteNowFunc(nowAt), queue.WithSQLitePollInterval(2*time.Millisecond))
		if errA != nil || errB != nil {
			tr.Err = fmt.Sprintf("open: %v %v", errA, errB)
			outs = append(outs, tr)
			continue
		}
		for i := 0; i < req.Messages; i += 100 {
			var envs []queue.Envelope
			for j := i; j < i+100 && j < req.Messages; j++ {
				envs = append(envs, queue.Envelope{ID: fmt.Sprintf("m%04d", j), Route: "/r", Target: "t", Payload: []byte("x")})
			}
			if _, err := A.EnqueueBatch(envs); err != nil {
				tr.Err = "enqueue: " + err.Error()
			}
		}
		var stamp atomic.Int64
		var mu sync.Mutex
		seen := map[string]int{}
		var wg sync.WaitGroup
		for name, st := range map[string]*queue.SQLiteStore{"A": A, "B": B} {
			wg.Add(1)
			go func(name string, st *queue.SQLiteStore) {
				defer wg.Done()
				empties := 0
				for empties < 3 {
					c := call{Store: name, Start: stamp.Add(1)}
					r, err := st.Dequeue(queue.DequeueRequest{Route: "/r", Target: "t", Batch: req.Batch, LeaseTTL: time.Hour})
					c.End = stamp.Add(1)
					c.N = len(r.Items)
					if err != nil {
						c.Err = err.Error()
					}
					mu.Lock()
					tr.Calls = append(tr.Calls, c)
					for _, it := range r.Items {
						seen[it.ID]++
					}
					mu.Unlock()
					if len(r.Items) == 0 {
						empties++
					} else {
						empties = 0
					}
					time.Sleep(30 * time.Microsecond) // let the other process in (a busy handler that sleeps would otherwise never win the lock)
				}
			}(name, st)
		}
		wg.Wait()
		for _, n := range seen {
			tr.Leased += n
		}
		tr.Distinct = len(seen)
		_ = A.Close()
		_ = B.Close()
		outs = append(outs, tr)
	}
	return map[string]any{"trials": outs}, nil
}
